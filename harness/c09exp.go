package main

// C09, value expressions: syntax.FormatExp (format_exp.go) and
// (*Parser).ParseValExp (tokenizer.go, lexer.go, grammar.y) against the Lean
// model Martian.FormatExp (driver ops C09.fmtexp / parseexp / normexp / wfexp).
//
//	A. generated expression ASTs (mostly well-formed + an ill-formed stream):
//	   printer correspondence, reader correspondence on the printed text, and on
//	   the real code for well-formed values: the text re-parses, the AST is the
//	   normalised one, the second print equals the first.
//	B. near-miss texts (mutated printed texts + hand-written seeds + corpus lines
//	   "exp:…"; bytes >= 0x80 outside string literals on purpose: Unicode white
//	   space, U+FFFD and invalid UTF-8 in comments, between and inside tokens):
//	   reader correspondence (both reject, or both accept with the same
//	   AST), totality of the parser, round trip of every accepted text.
//	C. token streams (c09xLexStream, on every text of B and every printed text
//	   of A): the scanner loop of the generated parser (mmLexInfo.Lex until the
//	   end of the input or an INVALID token) against Martian.FormatExp.lexAll
//	   (driver op C09.lextoks), token by token.

import (
	"bytes"
	"fmt"
	"math"
	"sort"
	"strconv"
	"strings"
	"unicode/utf8"

	"github.com/martian-lang/martian/martian/syntax"
)

// ---------- encoding of expressions (the word encoding of lean/Driver/C09.lean) ----------

func encExp(e syntax.Exp) string {
	var w []string
	encExpWords(&w, e)
	return strings.Join(w, " ")
}

func c09xFloatText(v float64) string { return strconv.FormatFloat(v, 'g', -1, 64) }

func encExpWords(w *[]string, e syntax.Exp) {
	switch x := e.(type) {
	case *syntax.NullExp:
		*w = append(*w, "n")
	case *syntax.BoolExp:
		if x.Value {
			*w = append(*w, "t")
		} else {
			*w = append(*w, "f")
		}
	case *syntax.IntExp:
		*w = append(*w, "i"+strconv.FormatInt(x.Value, 10))
	case *syntax.FloatExp:
		*w = append(*w, "F"+hx(c09xFloatText(x.Value)))
	case *syntax.StringExp:
		*w = append(*w, "s"+hx(x.Value))
	case *syntax.ArrayExp:
		if x.Value == nil {
			*w = append(*w, "N")
			return
		}
		*w = append(*w, "[")
		for _, v := range x.Value {
			encExpWords(w, v)
		}
		*w = append(*w, "]")
	case *syntax.MapExp:
		open, shut := "{", "}"
		if x.Kind == syntax.KindStruct {
			open, shut = "<", ">"
		}
		keys := make([]string, 0, len(x.Value))
		for k := range x.Value {
			keys = append(keys, k)
		}
		sort.Strings(keys)
		*w = append(*w, open)
		for _, k := range keys {
			*w = append(*w, hx(k))
			encExpWords(w, x.Value[k])
		}
		*w = append(*w, shut)
	case *syntax.RefExp:
		kind := "0"
		if x.Kind == syntax.KindSelf {
			kind = "1"
		}
		outs := "."
		if x.OutputId != "" {
			outs = hxList(strings.Split(x.OutputId, "."))
		}
		*w = append(*w, "r"+kind+":"+hx(x.Id)+":"+outs)
	default:
		*w = append(*w, fmt.Sprintf("?%T", e))
	}
}

// c09xCanonFloats rewrites the float words of an encoding given by the model
// (which keeps the token text) to the 'g' text of the value they denote.
func c09xCanonFloats(enc string) string {
	if !strings.Contains(enc, "F") {
		return enc
	}
	ws := strings.Split(enc, " ")
	for i, w := range ws {
		if strings.HasPrefix(w, "F") {
			if v, err := strconv.ParseFloat(unhx(w[1:]), 64); err == nil {
				ws[i] = "F" + hx(c09xFloatText(v))
			}
		}
	}
	return strings.Join(ws, " ")
}


func c09xHasRef(enc string) bool {
	return strings.HasPrefix(enc, "r") || strings.Contains(enc, " r")
}

func c09xKind(e syntax.Exp) string {
	switch x := e.(type) {
	case *syntax.NullExp:
		return "null"
	case *syntax.BoolExp:
		return "bool"
	case *syntax.IntExp:
		return "int"
	case *syntax.FloatExp:
		return "float"
	case *syntax.StringExp:
		return "string"
	case *syntax.ArrayExp:
		if x.Value == nil {
			return "nilarray"
		}
		return "array"
	case *syntax.MapExp:
		if x.Kind == syntax.KindStruct {
			return "struct"
		}
		return "map"
	case *syntax.RefExp:
		return "ref"
	}
	return "other"
}

// ---------- the real code, wrapped ----------

var c09xParser syntax.Parser

// c09xParse runs the real ParseValExp; pan is non-empty when it panicked.
func c09xParse(src string) (ast syntax.Exp, enc string, ok bool, pan string) {
	defer func() {
		if p := recover(); p != nil {
			ast, enc, ok, pan = nil, "", false, fmt.Sprint(p)
		}
	}()
	e, err := c09xParser.ParseValExp([]byte(src))
	if err != nil || e == nil {
		return nil, "", false, ""
	}
	return e, encExp(e), true, ""
}

func c09xFormat(e syntax.Exp, prefix string) (text string, pan string) {
	defer func() {
		if p := recover(); p != nil {
			text, pan = "", fmt.Sprint(p)
		}
	}()
	return syntax.FormatExp(e, prefix), ""
}

// ---------- generator ----------

var (
	c09xIdents = []string{"X", "x", "y", "a", "b", "out", "STAGE_1", "_x", "a1_b", "abc", "long_field_name", "z9",
		"split", "struct", "threads", "mem_gb", "memgb", "vmem_gb", "retain", "using", "local", "strict", "special",
		"exec", "comp", "disabled", "filetype", "preflight", "volatile", "nulls", "truex", "selfish", "inx", "E", "e1"}
	c09xReserved = []string{"in", "int", "map", "true", "false", "null", "self", "default", "as", "bool", "call", "float",
		"out", "path", "pipeline", "py", "return", "src", "stage", "string"}
	c09xNotIdent = []string{"1a", "a-b", "_", "_1", "", "a b", "a.b", "x#y", "__x", "9", "-1", "a:b"}
)

type c09xGen struct {
	c      *Ctx
	ill    bool
	budget int
}

func (g *c09xGen) rn(n int) int            { return g.c.Rng.Intn(n) }
func (g *c09xGen) pick(xs []string) string { return xs[g.rn(len(xs))] }

// illNow: in the ill-formed stream, two of five choices go wrong.
func (g *c09xGen) illNow() bool { return g.ill && g.rn(5) < 2 }

func (g *c09xGen) validString() string {
	for i := 0; i < 12; i++ {
		if s := c09GenString(g.c); utf8.ValidString(s) {
			return s
		}
	}
	return "a\"\\\n 😀"
}

func (g *c09xGen) invalidString() string {
	for i := 0; i < 12; i++ {
		if s := c09GenString(g.c); !utf8.ValidString(s) {
			return s
		}
	}
	return "a\xffb"
}

func (g *c09xGen) intValue() int64 {
	switch g.rn(10) {
	case 0:
		return 0
	case 1:
		return 1
	case 2:
		return -1
	case 3:
		return math.MinInt64
	case 4:
		return math.MaxInt64
	case 5: // 19 digits
		return 1000000000000000000 + g.c.Rng.Int63n(8000000000000000000)
	case 6:
		return -(1000000000000000000 + g.c.Rng.Int63n(8000000000000000000))
	case 7:
		return g.c.Rng.Int63() - g.c.Rng.Int63()
	}
	return int64(g.rn(2001) - 1000)
}

func (g *c09xGen) floatValue() float64 {
	fixed := []float64{1.5, -2.25, 1e21, 1e-7, 1e6, 123456.0, 0.1, math.MaxFloat64, 5e-324, 0, -1e20, 1e20, 3.0,
		-0.5, 1e300, 2.5e-10, 9007199254740993, 1e15, 123456789012345680000}
	if g.rn(3) != 0 {
		return fixed[g.rn(len(fixed))]
	}
	for {
		v := math.Float64frombits(g.c.Rng.Uint64())
		if !math.IsNaN(v) && !math.IsInf(v, 0) && !(v == 0 && math.Signbit(v)) {
			return v
		}
	}
}

func (g *c09xGen) ref(bare bool) syntax.Exp {
	if g.illNow() || (bare && !g.ill) {
		switch g.rn(9) {
		case 0:
			return &syntax.RefExp{Kind: syntax.KindCall, Id: g.pick(c09xReserved)}
		case 1:
			return &syntax.RefExp{Kind: syntax.KindCall, Id: g.pick(c09xNotIdent), OutputId: "out"}
		case 2:
			return &syntax.RefExp{Kind: syntax.KindSelf, Id: ""}
		case 3:
			return &syntax.RefExp{Kind: syntax.KindCall, Id: "X", OutputId: "default.x"}
		case 4:
			return &syntax.RefExp{Kind: syntax.KindCall, Id: "X", OutputId: "a..b"}
		case 5:
			return &syntax.RefExp{Kind: syntax.KindSelf, Id: "x", OutputId: "default"}
		case 6:
			return &syntax.RefExp{Kind: syntax.KindSelf, Id: g.pick(c09xReserved), OutputId: g.pick(c09xIdents)}
		case 7:
			return &syntax.RefExp{Kind: syntax.KindCall, Id: "X", OutputId: "y.default"}
		default:
			return &syntax.RefExp{Kind: syntax.KindCall, Id: g.pick(c09xIdents), OutputId: g.pick(c09xReserved)}
		}
	}
	id := g.pick(c09xIdents)
	switch g.rn(6) {
	case 0:
		return &syntax.RefExp{Kind: syntax.KindCall, Id: id}
	case 1:
		return &syntax.RefExp{Kind: syntax.KindCall, Id: id, OutputId: g.pick(c09xIdents)}
	case 2:
		return &syntax.RefExp{Kind: syntax.KindCall, Id: id, OutputId: g.pick(c09xIdents) + "." + g.pick(c09xIdents)}
	case 3:
		return &syntax.RefExp{Kind: syntax.KindCall, Id: id, OutputId: "default"}
	case 4:
		return &syntax.RefExp{Kind: syntax.KindSelf, Id: id}
	default:
		return &syntax.RefExp{Kind: syntax.KindSelf, Id: id, OutputId: g.pick(c09xIdents) + []string{"", "." + g.pick(c09xIdents)}[g.rn(2)]}
	}
}

func (g *c09xGen) leaf(inColl bool) syntax.Exp {
	n := 15
	if inColl {
		n = 19
	}
	switch k := g.rn(n); {
	case k < 1:
		return &syntax.NullExp{}
	case k < 3:
		return &syntax.BoolExp{Value: g.rn(2) == 0}
	case k < 7:
		return &syntax.IntExp{Value: g.intValue()}
	case k < 11:
		if g.illNow() {
			return &syntax.FloatExp{Value: []float64{math.NaN(), math.Inf(1), math.Inf(-1), math.Copysign(0, -1)}[g.rn(4)]}
		}
		return &syntax.FloatExp{Value: g.floatValue()}
	case k < 15:
		if g.illNow() {
			return &syntax.StringExp{Value: g.invalidString()}
		}
		return &syntax.StringExp{Value: g.validString()}
	default:
		return g.ref(false)
	}
}

func (g *c09xGen) exp(depth int, top bool) syntax.Exp {
	g.budget--
	if top && g.ill && g.rn(6) == 0 {
		return g.ref(true) // a bare reference: not a val_exp
	}
	coll := 35
	if top {
		coll = 75
	}
	if depth <= 0 || g.budget <= 0 || g.rn(100) >= coll {
		return g.leaf(!top)
	}
	switch k := g.rn(100); {
	case k < 45:
		if g.illNow() {
			return &syntax.ArrayExp{Value: nil}
		}
		n := []int{0, 1, 1, 1, 2, 3, 4}[g.rn(7)]
		vals := make([]syntax.Exp, 0, n)
		for i := 0; i < n; i++ {
			if n == 1 && g.rn(2) == 0 && depth > 1 {
				// the single-line rule: one-element arrays of arrays / maps
				g.budget++
				vals = append(vals, g.collection(depth-1))
				continue
			}
			vals = append(vals, g.exp(depth-1, false))
		}
		return &syntax.ArrayExp{Value: vals}
	case k < 70:
		n := []int{0, 1, 1, 1, 2, 2, 2, 3, 3, 3, 4, 4}[g.rn(12)]
		m := make(map[string]syntax.Exp, n)
		for i := 0; i < n; i++ {
			key := g.validString()
			if g.illNow() {
				key = g.invalidString()
			}
			m[key] = g.exp(depth-1, false)
		}
		return &syntax.MapExp{Kind: syntax.KindMap, Value: m}
	default:
		n := []int{0, 1, 1, 1, 2, 2, 2, 3, 3, 3, 4, 4}[g.rn(12)]
		m := make(map[string]syntax.Exp, n)
		for i := 0; i < n; i++ {
			key := g.pick(c09xIdents)
			if g.illNow() {
				if g.rn(2) == 0 {
					key = g.pick(c09xReserved)
				} else {
					key = g.pick(c09xNotIdent)
				}
			}
			m[key] = g.exp(depth-1, false)
		}
		return &syntax.MapExp{Kind: syntax.KindStruct, Value: m}
	}
}

// collection forces an array or a map (for the one-element single-line rule)
func (g *c09xGen) collection(depth int) syntax.Exp {
	for i := 0; i < 20; i++ {
		g.budget++
		switch e := g.exp(depth, true).(type) {
		case *syntax.ArrayExp, *syntax.MapExp:
			return e
		}
	}
	return &syntax.ArrayExp{Value: []syntax.Exp{}}
}

func c09xGenCase(c *Ctx) *c09xCase {
	g := &c09xGen{c: c, ill: c.Rng.Intn(5) == 0, budget: 6 + c.Rng.Intn(40)}
	e := g.exp(4, true)
	prefix := ""
	switch c.Rng.Intn(10) {
	case 0, 1:
		prefix = "    "
	case 2:
		prefix = "  \t"
	}
	return c09xNewCase(e, prefix, g.ill)
}

// ---------- part A: one expression ----------

type c09xCase struct {
	e         syntax.Exp
	prefix    string
	illStream bool
	enc       string
	text      string
	fmtPanic  string
}

func c09xNewCase(e syntax.Exp, prefix string, ill bool) *c09xCase {
	cs := &c09xCase{e: e, prefix: prefix, illStream: ill, enc: encExp(e)}
	cs.text, cs.fmtPanic = c09xFormat(e, prefix)
	return cs
}

func (cs *c09xCase) reqs() [][]string {
	return [][]string{
		{"C09.wfexp", cs.enc},
		{"C09.fmtexp", hx(cs.prefix), cs.enc},
		{"C09.normexp", cs.enc},
		{"C09.parseexp", hx(cs.text)},
	}
}

func (cs *c09xCase) input() map[string]string {
	return map[string]string{"enc": cs.enc, "prefix": cs.prefix, "text": cs.text}
}

func c09xBadOp(reqs [][]string, reps []string) {
	for i, rep := range reps {
		if rep == "bad-op" {
			fatal("C09 driver: bad-op for request %q", strings.Join(reqs[i], "\t"))
		}
	}
}

func c09xParseReply(rep string) (enc string, ok bool) {
	if rep == "none" {
		return "", false
	}
	if strings.HasPrefix(rep, "some ") {
		return c09xCanonFloats(rep[5:]), true
	}
	fatal("C09 driver: unexpected parseexp reply %q", rep)
	return "", false
}

func c09xOpt(enc string, ok bool) string {
	if !ok {
		return "none"
	}
	return "some " + enc
}

// c09xEval applies the checks of part A to one case given the four replies of
// the model (wfexp, fmtexp, normexp, parseexp of the real text).
func c09xEval(cs *c09xCase, reps []string) (fails []Violation, wf, val, checked bool) {
	wf = strings.Contains(reps[0], "wf=true")
	val = strings.Contains(reps[0], "val=true")
	if !strings.HasPrefix(reps[0], "wf=") {
		fatal("C09 driver: unexpected wfexp reply %q", reps[0])
	}
	if cs.fmtPanic != "" {
		fails = append(fails, Violation{Kind: "property", Key: "C09:exp-format-panic",
			What: "syntax.FormatExp panics on this expression", Input: cs.input(), Impl: cs.fmtPanic})
		return
	}
	// 1. printer correspondence
	if m := unhx(reps[1]); m != cs.text {
		fails = append(fails, Violation{Kind: "correspondence", Key: "C09:exp-format-mismatch",
			What:  "syntax.FormatExp(e, prefix) differs from the model's printer",
			Input: cs.input(), Impl: cs.text, Model: m,
			Broken: "correspondence C09.fmtexp (Martian.FormatExp.fmt vs syntax.FormatExp)"})
	}
	// 2. reader correspondence on the printed text
	ast, renc, rok, pan := c09xParse(cs.text)
	if pan != "" {
		fails = append(fails, Violation{Kind: "property", Key: "C09:exp-parse-panic",
			What: "Parser.ParseValExp panics on a text printed by FormatExp", Input: cs.input(), Impl: pan})
		return
	}
	menc, mok := c09xParseReply(reps[3])
	if rok != mok || (rok && renc != menc) {
		fails = append(fails, Violation{Kind: "correspondence", Key: "C09:exp-parse-mismatch",
			What:  "Parser.ParseValExp on the printed text differs from the model's reader",
			Input: cs.input(), Impl: c09xOpt(renc, rok), Model: c09xOpt(menc, mok),
			Broken: "correspondence C09.parseexp (Martian.FormatExp.parseValExp vs Parser.ParseValExp)"})
	}
	// 3. the round trip on the real code, under the hypothesis of the theorem
	if !(wf && val) {
		return
	}
	checked = true
	if !rok {
		fails = append(fails, Violation{Kind: "property", Key: "C09:exp-reparse",
			What:  "the text FormatExp prints for a well-formed value expression is rejected by ParseValExp",
			Input: cs.input(), Impl: "parse error", Expect: "some " + c09xCanonFloats(reps[2]), Broken: "Props.C09.parse_format_exp"})
		return
	}
	if want := c09xCanonFloats(reps[2]); renc != want {
		fails = append(fails, Violation{Kind: "property", Key: "C09:exp-ast-changed",
			What:  "reading back the printed text of a well-formed value expression gives a different expression (beyond nil array -> null, integral float -> int, empty struct literal -> empty map)",
			Input: cs.input(), Impl: renc, Expect: want, Broken: "Props.C09.parse_format_exp"})
	}
	if again, pan2 := c09xFormat(ast, cs.prefix); pan2 != "" || again != cs.text {
		fails = append(fails, Violation{Kind: "property", Key: "C09:exp-not-idempotent",
			What:  "printing the re-read expression does not give the first text again",
			Input: cs.input(), Impl: again + pan2, Expect: cs.text, Broken: "Props.C09.format_exp_idem"})
	}
	return
}

func c09xFind(fails []Violation, key string) *Violation {
	for i := range fails {
		if fails[i].Key == key {
			return &fails[i]
		}
	}
	return nil
}

// c09xSubCases: the direct sub-expressions of e, then e with one element / entry dropped.
func c09xSubCases(e syntax.Exp) []syntax.Exp {
	var out []syntax.Exp
	switch x := e.(type) {
	case *syntax.ArrayExp:
		out = append(out, x.Value...)
		for i := range x.Value {
			vals := make([]syntax.Exp, 0, len(x.Value))
			vals = append(append(vals, x.Value[:i]...), x.Value[i+1:]...)
			out = append(out, &syntax.ArrayExp{Value: vals})
		}
	case *syntax.MapExp:
		keys := make([]string, 0, len(x.Value))
		for k := range x.Value {
			keys = append(keys, k)
		}
		sort.Strings(keys)
		for _, k := range keys {
			out = append(out, x.Value[k])
		}
		for _, drop := range keys {
			m := make(map[string]syntax.Exp, len(x.Value))
			for _, k := range keys {
				if k != drop {
					m[k] = x.Value[k]
				}
			}
			out = append(out, &syntax.MapExp{Kind: x.Kind, Value: m})
		}
	case *syntax.NullExp:
	default: // any other leaf: a simpler leaf
		out = append(out, &syntax.NullExp{}, &syntax.IntExp{Value: 1})
	}
	return out
}

// c09xRewrites: e with one direct child replaced by each of that child's shrink candidates
// (so that shrinking also works below a wrapper that has to stay, e.g. `[X.y]`).
func c09xRewrites(e syntax.Exp) []syntax.Exp {
	var out []syntax.Exp
	switch x := e.(type) {
	case *syntax.ArrayExp:
		for i, v := range x.Value {
			for _, s := range c09xSubCases(v) {
				vals := append([]syntax.Exp{}, x.Value...)
				vals[i] = s
				out = append(out, &syntax.ArrayExp{Value: vals})
			}
		}
	case *syntax.MapExp:
		keys := make([]string, 0, len(x.Value))
		for k := range x.Value {
			keys = append(keys, k)
		}
		sort.Strings(keys)
		for _, k := range keys {
			for _, s := range c09xSubCases(x.Value[k]) {
				m := make(map[string]syntax.Exp, len(x.Value))
				for _, k2 := range keys {
					m[k2] = x.Value[k2]
				}
				m[k] = s
				out = append(out, &syntax.MapExp{Kind: x.Kind, Value: m})
			}
		}
	}
	return out
}

func c09xAskCase(c *Ctx, cs *c09xCase) []string {
	reqs := cs.reqs()
	reps := make([]string, len(reqs))
	for i, q := range reqs {
		reps[i] = c.Drv.Ask(q[0], q[1:]...)
	}
	c09xBadOp(reqs, reps)
	return reps
}

// c09xShrinkCase makes the expression smaller while the check `key` keeps failing.
func c09xShrinkCase(c *Ctx, cs *c09xCase, key string) (*c09xCase, *Violation) {
	fails, _, _, _ := c09xEval(cs, c09xAskCase(c, cs))
	best := c09xFind(fails, key)
	if best == nil {
		return cs, nil
	}
	still := func(cand *c09xCase) *Violation {
		f, _, _, _ := c09xEval(cand, c09xAskCase(c, cand))
		return c09xFind(f, key)
	}
	tries := 0
	for progress := true; progress && tries < 400; {
		progress = false
		if cs.prefix != "" {
			cand := c09xNewCase(cs.e, "", cs.illStream)
			tries++
			if v := still(cand); v != nil {
				cs, best, progress = cand, v, true
				continue
			}
		}
		for _, sub := range append(c09xSubCases(cs.e), c09xRewrites(cs.e)...) {
			cand := c09xNewCase(sub, cs.prefix, cs.illStream)
			if len(cand.enc) >= len(cs.enc) {
				continue
			}
			tries++
			if v := still(cand); v != nil {
				cs, best, progress = cand, v, true
				break
			}
			if tries >= 400 {
				break
			}
		}
	}
	return cs, best
}

// ---------- part B: texts ----------

var c09xSeeds = []string{
	`[1,2]`, `[1,2,]`, `[,]`, `[1,,2]`, `[]`, `[ ]`, `{}`, `{ }`, `{,}`, `{"a":1}`, `{"a":1,}`, `{"a":1,"a":2}`,
	`{"b":1,"a":2}`, `{a:1}`, `{a:1,b:[X.y]}`, `{a:1,"b":2}`, `{"a":1,b:2}`, `{in:1}`, `{split:1}`, `{true:1}`,
	`007`, `-0`, `+1`, `--1`, `1.`, `.5`, `1.50`, `1E5`, `1e+5`, `1e400`, `-1e-400`, `9223372036854775807`,
	`9223372036854775808`, `-9223372036854775808`, `-9223372036854775809`, `12345678901234567890`,
	`00000000000000000000001`, `1a`, `1_0`, `[X]`, `[X.default]`, `[X.default.y]`, `[X.y.default]`, `[self]`,
	`[self.x]`, `[self.x.y.z]`, `[self.default]`, `[X.]`, `[.x]`, `[X..y]`, `X`, `self.x`, `true`, `truex`, `null`,
	`nulll`, `"a"`, `"a`, `"\q"`, `"\u12"`, `"\x41\101A\U00000041"`, `"a" "b"`, `[1] [2]`, `1 2`, ``, `#c`,
	"# c\n1", `1 # c`, "[1, # c\n 2]", `split [1]`, `[split]`, `[struct.x]`, `{struct: 1}`, `(1)`, `a = 1`,
	`filetype x;`, `@include "x"`, `[1;2]`, `[1 2]`, `[[[[[]]]]]`, `{"a":{"b":{}}}`, `{a:{b:{}}}`,
	"[\t1\r\n,\v2\f]",
	// a few more of the same kind
	`-0.0`, `0.0`, `1e5`, `1.5e-3`, `-1.`, `-`, `- 1`, `1e`, `1e+`, `1.e5`, `0x10`, `[-1,-2.5]`, `[1,2,,]`, `{"a":}`,
	`{"a"}`, `{"a":1 "b":2}`, `{a:1,a:2}`, `{a:1,}`, `{"a":[1,],}`, `[true,false,null]`, `[nullx]`, `[default]`,
	`[X.default,]`, `[self.split]`, `[split.split]`, `[X.in]`, `[in.x]`, `"�"`, `"\xff"`, `"\377"`, `"\400"`,
	`"a\/b"`, `"\a\b\f\n\r\t\v"`, `"\""`, `"\\"`, `"\\\"`, `"😀"`, `"\U0001F600"`, `"\U00110000"`,
	"\"a\nb\"", "\"é\"", `[ "x" , "y" ]`, `[1]#`, "1\n", "\n1", ` 1 `, `[_x]`, `[_]`, `[_1]`, `[__x]`, `{_x:1}`,
	`{mem_gb:1,memgb:2,vmem_gb:3,vmemgb:4}`, `[1.5,1e21,1e-7,1e+06,123456]`, `{"":1}`, `{"a":1}{}`, `[]]`, `[[]`,
	// bytes >= 0x80 outside string literals: a comment stops before an invalid UTF-8 sequence and
	// before U+FFFD (the byte is then INVALID); Unicode white space is skipped; U+200B is not white space
	"#\xff\n1", "#\xef\xbf\xbd\n1", "# \xc3\xa9\n1", "1\xc2\xa0", "\xc2\xa01", "[1,\xe3\x80\x802]", "\xe2\x80\x8b1", "1 #c",
	"1 #\xc3", "#", "# only", "\x80", "1\xff",
	"# caf\xc3\xa9\n1", "# \xff\n1", "# \xef\xbf\xbd tail\n1", "1 # caf\xc3\xa9", "1 # x\xe2\x80", "1 # x\xf0\x9f\x98", "1#\xf0\x9f\x98\x80\n",
	"#\xc2\xa0\n1", "#\xe2\x80\xa8\n1", "1\xc2\x85", "\xe2\x80\xa81\xe2\x80\xa9", "[\xe1\x9a\x801\xe2\x81\x9f,\xe2\x80\xaf2\xe2\x80\x8a]", "[1\xe2\x80\x8b]",
	"\xe2\x80", "1\xe2\x80", "\xed\xa0\x80", "1 \xed\xa0\x80", "\xf4\x90\x80\x80", "\xc3\xa9", "x\xc3\xa9", "[X\xc2\xa0.\xc2\xa0y]", "tru\xc2\xa0e", "1\xc2\xa02",
	"1\xc3\xa9", "1.5\xc2\xa0", "1e\xc2\xa05", "-\xc2\xa01", "\"a\"\xc2\xa0", "{\"a\"\xe3\x80\x80:\xe3\x80\x801}", "{a\xe2\x80\x89:1}", " \xc2\xa0\t\xe2\x80\x83\n1", "\xc2\xa0#c\n\xc2\xa01",
	"\xef\xbb\xbf1", "\xe1\xa0\x8e1", "\xc2\x841", "\xc2\x861", "\xc2\x9f1", "\xc2\xa11", "\xe2\x80\x7f1", "\xe2\x80\x8b", "\xe2\x80\xa71", "\xe2\x80\xaa1", "\xe2\x80\xae1",
	"\xe2\x80\xb01", "\xe1\x9a\x811", "\xe1\x9a1", "\xe2\x81\x9e1", "\xe2\x81\xa01", "\xe3\x80\x811", "\xe3\x801", "\xc21", "\xc2", "1\xc2", "\xc0\x80", "\xc0\xa01", "\xe0\x82\xa01",
	"#\xc2", "#\xc2\n1", "#\xe2\x80\n1", "# a\xed\xa0\x80\n1", "# a\xf4\x90\x80\x80\n1", "#\xef\xbf\xbd", "#\xef\xbf\xbe\n1", "#\xef\xbf\n1", "#\x80\n1", "##\xff#\n1",
}

const c09xAlphabet = "[]{},:.\"\\ #-+eE.019azAZ_ \n"

// c09xUni: byte sequences >= 0x80 inserted on purpose (outside string literals too): invalid
// UTF-8, U+FFFD (which tokCommentRule cannot tell from an invalid sequence), every non-ASCII rune
// of unicode.IsSpace or its neighbours, runes that are not white space.
var c09xUni = []string{
	"\xff", "\x80", "\xc3\xa9", "\xef\xbf\xbd", "\xc2\xa0", "\xc2\x85", "\xe2\x80\xa8", "\xe3\x80\x80", "\xe1\x9a\x80", "\xe2\x81\x9f",
	"\xe2\x80\x8b", "\xe2\x80", "\xed\xa0\x80", "\xf4\x90\x80\x80",
	// the rest of unicode.IsSpace above 0x7f
	"\xe2\x80\x80", "\xe2\x80\x83", "\xe2\x80\x8a", "\xe2\x80\xa9", "\xe2\x80\xaf",
	// neighbours that are not white space, truncations, other invalid forms
	"\xc2\x84", "\xc2\x86", "\xc2\xa1", "\xe2\x80\xa7", "\xe2\x80\xaa", "\xe2\x80\xae", "\xe2\x80\xb0", "\xe1\x9a\x81", "\xe2\x81\x9e",
	"\xe2\x81\xa0", "\xe3\x80\x81", "\xef\xbb\xbf", "\xe1\xa0\x8e", "\xf0\x9f\x98\x80", "\xc2", "\xe3\x80", "\xe1\x9a", "\xc0\xa0", "\xef\xbf", "\xef\xbf\xbe",
	"\xf0\x9f\x98", "\xa0", "\xbd",
}

// c09xUniComments: comments with bytes >= 0x80 (each ends its line)
var c09xUniComments = []string{
	"# caf\xc3\xa9\n", "# \xff\n", "# \xef\xbf\xbd tail\n", "#\xc2\xa0\n", "# \xe2\x80\xa8 x\n", "#\xf0\x9f\x98\x80\n", "# a\xe2\x80\n", "# \xed\xa0\x80\n",
	"#\x80\n", "# \xf4\x90\x80\x80 [\n", "# \xc3\xa9\xc3\xa9\xff\n", "#\xef\xbf\xbd\n",
}

// c09xUniTails: comments at the end of the input, without a newline (some end in a truncated rune)
var c09xUniTails = []string{
	" #c", " #\xc3", "#", " # only", " # caf\xc3\xa9", " # x\xe2\x80", " # x\xf0\x9f\x98", "#\xff", " #\xef\xbf\xbd", " # \xc2\xa0", "\n#\xe3\x80",
}

// c09xNonASCIIOutsideString: does a byte >= 0x80 occur outside a string
// literal (in a comment counts as outside)?  Only counted (histogram key
// near:non-ascii-outside-string): such texts are generated on purpose.
func c09xNonASCIIOutsideString(s string) bool {
	inStr := false
	for i := 0; i < len(s); i++ {
		b := s[i]
		if inStr {
			if b == '\\' {
				i++
			} else if b == '"' {
				inStr = false
			}
			continue
		}
		if b >= 0x80 {
			return true
		}
		if b == '"' {
			inStr = true
		} else if b == '#' {
			for i < len(s) && s[i] != '\n' {
				if s[i] >= 0x80 {
					return true
				}
				i++
			}
		}
	}
	return false
}

// c09xBoundaries: positions outside string literals and comments next to white space or punctuation
func c09xBoundaries(b []byte) []int {
	isSep := func(c byte) bool { return strings.IndexByte(" \t\n[]{},:", c) >= 0 }
	var out []int
	inStr := false
	for i := 0; i <= len(b); i++ {
		if !inStr && (i == 0 || i == len(b) || isSep(b[i-1]) || isSep(b[i])) {
			out = append(out, i)
		}
		if i == len(b) {
			break
		}
		if inStr {
			if b[i] == '\\' {
				i++
			} else if b[i] == '"' {
				inStr = false
			}
		} else if b[i] == '"' {
			inStr = true
		} else if b[i] == '#' {
			for i+1 < len(b) && b[i] != '\n' {
				i++
			}
		}
	}
	return out
}

func c09xMutate1(c *Ctx, b []byte) []byte {
	rn := c.Rng.Intn
	ab := func() byte { return c09xAlphabet[rn(len(c09xAlphabet))] }
	cut := func(i, j int) []byte { return append(append([]byte{}, b[:i]...), b[j:]...) }
	ins := func(i int, s []byte) []byte {
		return append(append(append([]byte{}, b[:i]...), s...), b[i:]...)
	}
	lines := bytes.SplitAfter(b, []byte("\n"))
	if n := len(lines); n > 0 && len(lines[n-1]) == 0 {
		lines = lines[:n-1]
	}
	join := func(ls [][]byte) []byte { return bytes.Join(ls, nil) }
	uni := func() []byte { return []byte(c09xUni[rn(len(c09xUni))]) }
	switch op := rn(23); {
	case op == 16: // bytes >= 0x80 at a token boundary
		bs := c09xBoundaries(b)
		return ins(bs[rn(len(bs))], uni())
	case op == 17 || op == 18: // … anywhere: inside identifiers, numbers, strings, comments
		return ins(rn(len(b)+1), uni())
	case op == 19: // a comment with bytes >= 0x80 at a token boundary
		bs := c09xBoundaries(b)
		return ins(bs[rn(len(bs))], []byte(c09xUniComments[rn(len(c09xUniComments))]))
	case op == 20: // a comment at the end of the input, without a newline
		return append(append([]byte{}, b...), c09xUniTails[rn(len(c09xUniTails))]...)
	case op == 21: // a white-space byte (or any byte) replaced
		var pos []int
		for i, ch := range b {
			if ch == ' ' || ch == '\n' || ch == '\t' {
				pos = append(pos, i)
			}
		}
		if len(pos) > 0 && rn(4) != 0 {
			i := pos[rn(len(pos))]
			return append(append(append([]byte{}, b[:i]...), uni()...), b[i+1:]...)
		}
		if len(b) > 0 {
			i := rn(len(b))
			return append(append(append([]byte{}, b[:i]...), uni()...), b[i+1:]...)
		}
	case op == 22: // one byte of a multi-byte sequence dropped or changed
		var pos []int
		for i, ch := range b {
			if ch >= 0x80 {
				pos = append(pos, i)
			}
		}
		if len(pos) > 0 {
			i := pos[rn(len(pos))]
			if rn(2) == 0 {
				return cut(i, i+1)
			}
			o := append([]byte{}, b...)
			o[i] = []byte{0x80, 0x85, 0xa0, 0xbd, 0xbf, 0xc2, 0xe2, 0xef, 0xff, 'a', ' '}[rn(11)]
			return o
		}
		return ins(rn(len(b)+1), uni())
	case op < 3:
		if len(b) > 0 {
			i := rn(len(b))
			return cut(i, i+1)
		}
	case op < 6:
		return ins(rn(len(b)+1), []byte{ab()})
	case op < 9:
		if len(b) > 0 {
			i := rn(len(b))
			o := append([]byte{}, b...)
			o[i] = ab()
			return o
		}
	case op < 10: // duplicate a line
		if len(lines) > 0 {
			i := rn(len(lines))
			l := lines[i]
			if !bytes.HasSuffix(l, []byte("\n")) {
				l = append(append([]byte{}, l...), '\n')
			}
			ls := append(append(append([][]byte{}, lines[:i]...), l), lines[i:]...)
			return join(ls)
		}
	case op < 11: // delete a line
		if len(lines) > 1 {
			i := rn(len(lines))
			return join(append(append([][]byte{}, lines[:i]...), lines[i+1:]...))
		}
	case op < 13: // delete a trailing comma (the last comma of a line, or the one before a closing bracket)
		var pos []int
		for i, ch := range b {
			if ch == ',' && (i+1 == len(b) || b[i+1] == '\n' || b[i+1] == ']' || b[i+1] == '}') {
				pos = append(pos, i)
			}
		}
		if len(pos) > 0 {
			i := pos[rn(len(pos))]
			return cut(i, i+1)
		}
	case op < 15: // a comment at a token boundary
		bs := c09xBoundaries(b)
		text := []string{"# comment\n", "#\n", "# [\"{,\n", "  # c\n"}[rn(4)]
		return ins(bs[rn(len(bs))], []byte(text))
	default: // swap two adjacent lines
		if len(lines) > 1 {
			i := rn(len(lines) - 1)
			ls := append([][]byte{}, lines...)
			ls[i], ls[i+1] = ls[i+1], ls[i]
			if !bytes.HasSuffix(ls[i], []byte("\n")) {
				ls[i] = append(append([]byte{}, ls[i]...), '\n')
			}
			return join(ls)
		}
	}
	// the chosen edit does not apply to this text
	return ins(rn(len(b)+1), []byte{ab()})
}

func c09xMutate(c *Ctx, s string) string {
	b := []byte(s)
	for n := 1 + c.Rng.Intn(3); n > 0; n-- {
		b = c09xMutate1(c, b)
	}
	return string(b)
}

type c09xReporter struct {
	c        *Ctx
	reported map[string]int
	inputs   map[string]bool // key + shrunk input already reported
}

func (rp *c09xReporter) want(key string) bool { return rp.reported[key] < 3 }
func (rp *c09xReporter) report(v Violation) {
	id := v.Key + "|" + fmt.Sprint(v.Input)
	if rp.inputs[id] {
		return
	}
	rp.inputs[id] = true
	if rp.want(v.Key) {
		rp.reported[v.Key]++
		rp.c.Res.violate(v)
	}
}

// c09xTextMismatch: reader correspondence for one text, with single requests (shrinking)
func c09xTextMismatch(c *Ctx, text string) (real, model string, mismatch bool, pan string) {
	_, renc, rok, pan := c09xParse(text)
	if pan != "" {
		return "panic: " + pan, "", false, pan
	}
	rep := c.Drv.Ask("C09.parseexp", hx(text))
	if rep == "bad-op" {
		fatal("C09 driver: bad-op for parseexp %q", text)
	}
	menc, mok := c09xParseReply(rep)
	return c09xOpt(renc, rok), c09xOpt(menc, mok), rok != mok || (rok && renc != menc), ""
}

// c09xShrinkText deletes lines, then single bytes and whole multi-byte runes, while pred keeps holding.
func c09xShrinkText(text string, pred func(string) bool) string {
	tries := 0
	ok := func(cand string) bool {
		tries++
		return pred(cand)
	}
	for changed := true; changed && tries < 600; {
		changed = false
		lines := strings.SplitAfter(text, "\n")
		for i := 0; i < len(lines) && len(lines) > 1 && tries < 600; i++ {
			cand := strings.Join(append(append([]string{}, lines[:i]...), lines[i+1:]...), "")
			if len(cand) < len(text) && ok(cand) {
				text, changed = cand, true
				break
			}
		}
	}
	for changed := true; changed && tries < 3000; {
		changed = false
		for i := 0; i < len(text) && tries < 3000; {
			if _, w := utf8.DecodeRuneInString(text[i:]); w > 1 && ok(text[:i]+text[i+w:]) { // a whole multi-byte rune
				text, changed = text[:i]+text[i+w:], true
			} else if cand := text[:i] + text[i+1:]; ok(cand) {
				text, changed = cand, true
			} else {
				i++
			}
		}
	}
	return text
}

// ---------- part C: token streams ----------

// c09xIdTokens: the tokens of the grammar's `id` production besides ID (Martian.FormatExp.idTokens)
var c09xIdTokens = map[string]bool{"COMPILED": true, "DISABLED": true, "EXEC": true, "FILETYPE": true, "LOCAL": true,
	"MEM_GB": true, "VMEM_GB": true, "PREFLIGHT": true, "RETAIN": true, "SPECIAL": true, "SPLIT": true, "STRICT": true,
	"STRUCT": true, "THREADS": true, "USING": true, "VOLATILE": true}

// c09xGoLex runs the real scanner loop (mmLexInfo.Lex until the end of the input or an INVALID
// token) and renders it like the reply of the driver op C09.lextoks: `none` when the stream ends
// with an INVALID token, else `some` and one word per token.  detail is the readable form, with
// the tokens before the INVALID one (for the report).
func c09xGoLex(src string) (reply, detail, pan string) {
	defer func() {
		if p := recover(); p != nil {
			reply, detail, pan = "", "", fmt.Sprint(p)
		}
	}()
	toks, _, pos := syntax.VerifLexAll([]byte(src), 1<<20)
	words := make([]string, 0, len(toks)+1)
	words = append(words, "some")
	invalid := false
	for i, t := range toks {
		name := syntax.VerifTokenName(t.Id)
		text := string(t.Text)
		switch {
		case name == "INVALID":
			if i != len(toks)-1 {
				fatal("C09 lex stream: INVALID token in the middle of the stream of %q", src)
			}
			invalid = true
		case name == "ID" || c09xIdTokens[name]:
			words = append(words, "d"+hx(text))
		case name == "TRUE":
			words = append(words, "T")
		case name == "FALSE":
			words = append(words, "F")
		case name == "NULL":
			words = append(words, "N")
		case name == "SELF":
			words = append(words, "S")
		case name == "DEFAULT":
			words = append(words, "D")
		case name == "LITSTRING":
			words = append(words, "s"+hx(text))
		case name == "NUM_INT":
			words = append(words, "i"+hx(text))
		case name == "NUM_FLOAT":
			words = append(words, "f"+hx(text))
		case len(name) == 3 && name[0] == '\'' && name[2] == '\'':
			if text != name[1:2] {
				fatal("C09 lex stream: token %s with text %q", name, text)
			}
			words = append(words, "p"+hx(text))
		case name == "INCLUDE_DIRECTIVE":
			words = append(words, "r"+hx("@include"))
		case name == "" || name == "SKIP" || name == "COMMENT":
			fatal("C09 lex stream: Lex returned token id %d (%q) for %q", t.Id, name, src)
		default:
			words = append(words, "r"+hx(text))
		}
	}
	detail = strings.Join(words, " ")
	if invalid {
		return "none", fmt.Sprintf("none (INVALID at byte %d; the tokens before it: %s)", pos, c09xReadableToks(detail)), ""
	}
	if pos != len(src) {
		fatal("C09 lex stream: the scanner stopped at byte %d of %q without an INVALID token", pos, src)
	}
	return detail, c09xReadableToks(detail), ""
}

// c09xReadableToks turns a lextoks reply into readable text.
func c09xReadableToks(rep string) string {
	ws := strings.Split(rep, " ")
	for i, w := range ws {
		if i > 0 && len(w) > 1 && strings.IndexByte("psifdr", w[0]) >= 0 {
			ws[i] = w[:1] + strconv.Quote(unhx(w[1:]))
		}
	}
	return strings.Join(ws, " ")
}

// c09xLexMismatch: the token-stream comparison for one text, with a single request (shrinking)
func c09xLexMismatch(c *Ctx, text string) (real, model string, mismatch bool) {
	reply, detail, pan := c09xGoLex(text)
	if pan != "" {
		return "panic: " + pan, "", true
	}
	rep := c.Drv.Ask("C09.lextoks", hx(text))
	if rep == "bad-op" {
		fatal("C09 driver: bad-op for lextoks %q", text)
	}
	return detail, c09xReadableToks(rep), reply != rep
}

// c09xLexStream: the real scanner's token stream against the model's lexAll, for every text.
func c09xLexStream(c *Ctx, rp *c09xReporter, texts []string) {
	r := c.Res
	reqs := make([][]string, len(texts))
	for i, t := range texts {
		reqs[i] = []string{"C09.lextoks", hx(t)}
	}
	reps := c.Drv.AskBatch(reqs)
	c09xBadOp(reqs, reps)
	for i, t := range texts {
		reply, _, pan := c09xGoLex(t)
		r.count("lex:"+t, true)
		switch {
		case pan != "":
			r.hist("lex:panic")
		case reply == "none":
			r.hist("lex:invalid")
		default:
			r.hist("lex:accepted")
		}
		if pan == "" && reply == reps[i] {
			continue
		}
		r.hist("lex:mismatch")
		if !rp.want("C09:lex-mismatch") {
			continue
		}
		min := c09xShrinkText(t, func(s string) bool { _, _, mm := c09xLexMismatch(c, s); return mm })
		real, model, _ := c09xLexMismatch(c, min)
		rp.report(Violation{Kind: "correspondence", Key: "C09:lex-mismatch",
			What:  "the token stream of the real scanner (mmLexInfo.Lex until the end of the input or an INVALID token) differs from the model's lexAll",
			Input: strconv.Quote(min), Impl: real, Model: model,
			Broken: "correspondence C09.lextoks (Martian.FormatExp.lexAll vs mmLexInfo.Lex)"})
	}
}

// c09xCheckTexts runs part B on a batch of texts.
func c09xCheckTexts(c *Ctx, rp *c09xReporter, texts []string, origin string) {
	r := c.Res
	for _, t := range texts {
		if c09xNonASCIIOutsideString(t) {
			r.hist("near:non-ascii-outside-string")
		}
	}
	c09xLexStream(c, rp, texts)
	reqs := make([][]string, len(texts))
	for i, t := range texts {
		reqs[i] = []string{"C09.parseexp", hx(t)}
	}
	reps := c.Drv.AskBatch(reqs)
	c09xBadOp(reqs, reps)

	type acc struct {
		text string
		ast  syntax.Exp
		enc  string
	}
	var accepted []acc
	for i, t := range texts {
		ast, renc, rok, pan := c09xParse(t)
		r.hist("near:" + origin)
		if pan != "" {
			r.count("near:"+t, false)
			r.hist("near:panic")
			if rp.want("C09:exp-parse-panic") {
				min := c09xShrinkText(t, func(s string) bool { _, _, _, p := c09xParse(s); return p != "" })
				_, _, _, p := c09xParse(min)
				rp.report(Violation{Kind: "property", Key: "C09:exp-parse-panic",
					What:  "Parser.ParseValExp panics (it must return an error for every input)",
					Input: strconv.Quote(min), Impl: "panic: " + p, Expect: "a value or an error"})
			}
			continue
		}
		menc, mok := c09xParseReply(reps[i])
		r.count("near:"+t, rok)
		if rok {
			r.hist("near:accepted")
		} else {
			r.hist("near:rejected")
		}
		if rok != mok || (rok && renc != menc) {
			r.hist("near:mismatch")
			if rp.want("C09:exp-parse-mismatch") {
				min := c09xShrinkText(t, func(s string) bool { _, _, mm, _ := c09xTextMismatch(c, s); return mm })
				real, model, _, _ := c09xTextMismatch(c, min)
				rp.report(Violation{Kind: "correspondence", Key: "C09:exp-parse-mismatch",
					What:  "Parser.ParseValExp and the model's reader disagree on this text (" + origin + ")",
					Input: strconv.Quote(min), Impl: real, Model: model,
					Broken: "correspondence C09.parseexp (Martian.FormatExp.parseValExp vs Parser.ParseValExp)"})
			}
			continue
		}
		if rok {
			accepted = append(accepted, acc{t, ast, renc})
		}
	}

	// every text both accept: the parsed value survives print + read (up to the normalisation)
	reqs = reqs[:0]
	for _, a := range accepted {
		reqs = append(reqs, []string{"C09.wfexp", a.enc}, []string{"C09.normexp", a.enc})
	}
	reps = c.Drv.AskBatch(reqs)
	c09xBadOp(reqs, reps)
	// the hypotheses of Props.C09.format_preserves_accepted_exp_partial, evaluated by the driver on the
	// expression the REAL parser returned (floats in their 'g' text = the abstract canonicaliser g):
	// strsValid (no string with invalid UTF-8: F6b) and noNegZero (no float -0: F26).  The theorem
	// parse_produces_wf_partial says that under them the expression is wf.
	hreqs := make([][]string, 0, 2*len(accepted))
	for _, a := range accepted {
		hreqs = append(hreqs, []string{"C09.strsvalid", a.enc}, []string{"C09.noneg0", a.enc})
	}
	hreps := c.Drv.AskBatch(hreqs)
	c09xBadOp(hreqs, hreps)
	for i, a := range accepted {
		sv, nz := hreps[2*i] == "true", hreps[2*i+1] == "true"
		r.hist(fmt.Sprintf("near:accepted:strsvalid=%v,noneg0=%v", sv, nz))
		wfm := strings.Contains(reps[2*i], "wf=true")
		if sv && nz && !wfm && rp.want("C09:accepted-text-not-wf") {
			rp.report(Violation{Kind: "correspondence", Key: "C09:accepted-text-not-wf",
				What:   "the real parser returned an expression that satisfies strsValid and noNegZero but not the model's wf (the range lemma of the reader does not hold for the real parser)",
				Input:  map[string]string{"text": strconv.Quote(a.text), "enc": a.enc}, Model: reps[2*i],
				Broken: "Props.C09.parse_produces_wf_partial"})
		}
		if !wfm {
			r.hist("near:accepted-not-wf")
			continue
		}
		r.hist("near:roundtrip-checked")
		want := c09xCanonFloats(reps[2*i+1])
		text2, pan := c09xFormat(a.ast, "")
		in := map[string]string{"text": strconv.Quote(a.text), "enc": a.enc, "printed": text2}
		if pan != "" {
			rp.report(Violation{Kind: "property", Key: "C09:exp-format-panic",
				What: "syntax.FormatExp panics on a parsed expression", Input: in, Impl: pan})
			continue
		}
		ast2, enc2, ok2, pan2 := c09xParse(text2)
		switch {
		case pan2 != "":
			rp.report(Violation{Kind: "property", Key: "C09:exp-parse-panic",
				What: "Parser.ParseValExp panics on a text printed by FormatExp", Input: in, Impl: pan2})
		case !ok2:
			rp.report(Violation{Kind: "property", Key: "C09:exp-reparse",
				What:  "the text FormatExp prints for a parsed value expression is rejected by ParseValExp",
				Input: in, Impl: "parse error", Expect: "some " + want, Broken: "Props.C09.parse_format_exp"})
		case enc2 != want:
			rp.report(Violation{Kind: "property", Key: "C09:exp-ast-changed",
				What:  "print + read of a parsed value expression gives a different expression",
				Input: in, Impl: enc2, Expect: want, Broken: "Props.C09.parse_format_exp"})
		default:
			if text3, pan3 := c09xFormat(ast2, ""); pan3 != "" || text3 != text2 {
				rp.report(Violation{Kind: "property", Key: "C09:exp-not-idempotent",
					What:  "printing the re-read expression does not give the first text again",
					Input: in, Impl: text3 + pan3, Expect: text2, Broken: "Props.C09.format_exp_idem"})
			}
		}
	}
}

// c09xSweep: every byte >= 0x80 and every rune around the non-ASCII white space of
// unicode.IsSpace (and U+FFFD, the surrogate gap, the ends of the planes), each before a token,
// after a token, and inside a comment that is followed by a token.
func c09xSweep() []string {
	var units []string
	for b := 0x80; b <= 0xff; b++ {
		units = append(units, string([]byte{byte(b)}))
	}
	ranges := [][2]rune{{0x80, 0xff}, {0x167e, 0x1682}, {0x180d, 0x180f}, {0x1ffe, 0x2070}, {0x2ffe, 0x3002}, {0xd7fe, 0xd7ff},
		{0xe000, 0xe001}, {0xfefe, 0xff00}, {0xfff0, 0xffff}, {0x10000, 0x10001}, {0x10fffe, 0x10ffff}}
	for _, rg := range ranges {
		for r := rg[0]; r <= rg[1]; r++ {
			units = append(units, string(r))
		}
	}
	var out []string
	for _, u := range units {
		out = append(out, u+"1", "[1"+u+"]", "#"+u+"\n1", "1 # "+u)
	}
	return out
}

// ---------- entry point ----------

func c09Exprs(c *Ctx) {
	r := c.Res
	rp := &c09xReporter{c: c, reported: map[string]int{}, inputs: map[string]bool{}}

	// corpus first
	var corpus []string
	for _, s := range readCorpusLines(c.Corpus) {
		if strings.HasPrefix(s, "exp:") {
			corpus = append(corpus, strings.TrimPrefix(s, "exp:"))
		}
	}
	c09xCheckTexts(c, rp, corpus, "corpus")

	// a map expression without a value (MapExp{Value: nil}) is printed like the other absent
	// values, as `null` (not modelled: the model's maps always have a value); monitored on the
	// real code: the text must be accepted by ParseValExp and read back as null
	for _, kind := range []syntax.ExpKind{syntax.KindMap, syntax.KindStruct} {
		text, pan := c09xFormat(&syntax.MapExp{Kind: kind}, "")
		r.count("exp:nil-map:"+string(kind), true)
		r.hist("exp:nil-map")
		ok := false
		if pan == "" {
			var ps syntax.Parser
			if ast, err := ps.ParseValExp([]byte(text)); err == nil {
				_, ok = ast.(*syntax.NullExp)
			}
		}
		if !ok {
			r.violate(Violation{Kind: "property", Key: "C09:exp-reparse:nil-map",
				What:   "FormatExp of a map expression without a value (MapExp{Value: nil}) prints a text ParseValExp does not read back as null",
				Input:  map[string]string{"exp": "&syntax.MapExp{Kind: \"" + string(kind) + "\"}", "prefix": ""},
				Impl:   text + pan, Expect: "null", Broken: "C09 monitor: printed value expressions re-parse"})
		}
	}

	// ---- A. generated expressions ----
	nA, nB := 2500, 9000
	if c.Thorough {
		nA, nB = 60000, 150000
	}
	var pool []string
	for done := 0; done < nA; {
		n := nA - done
		if n > 500 {
			n = 500
		}
		cases := make([]*c09xCase, n)
		reqs := make([][]string, 0, 4*n)
		for i := range cases {
			cases[i] = c09xGenCase(c)
			reqs = append(reqs, cases[i].reqs()...)
		}
		reps := c.Drv.AskBatch(reqs)
		c09xBadOp(reqs, reps)
		printed := make([]string, 0, n)
		for _, cs := range cases {
			if cs.fmtPanic == "" {
				printed = append(printed, cs.text)
			}
		}
		c09xLexStream(c, rp, printed)
		for i, cs := range cases {
			fails, wf, val, checked := c09xEval(cs, reps[4*i:4*i+4])
			nontrivial := strings.Contains(cs.text, "\n") || strings.Contains(cs.text, "\\") || c09xHasRef(cs.enc)
			r.count("exp:"+cs.enc+"|"+cs.prefix, nontrivial)
			if wf && val {
				r.hist("exp:wf")
			} else {
				r.hist("exp:illformed")
				if !val {
					r.hist("exp:bare-ref")
				}
			}
			if cs.illStream {
				r.hist("exp:ill-stream")
			}
			r.hist("exp:kind:" + c09xKind(cs.e))
			if checked {
				r.hist("exp:roundtrip-checked")
			}
			if (done+i)%500 == 0 {
				r.sample(map[string]string{"exp": cs.enc, "text": cs.text})
			}
			for _, f := range fails {
				if !rp.want(f.Key) {
					continue
				}
				if _, v := c09xShrinkCase(c, cs, f.Key); v != nil {
					rp.report(*v)
				} else {
					rp.report(f)
				}
			}
			if cs.fmtPanic == "" && len(cs.text) < 1500 {
				pool = append(pool, cs.text)
			}
		}
		done += n
	}

	// ---- B. near-miss texts ----
	texts := append([]string{}, c09xSeeds...)
	c09xCheckTexts(c, rp, texts, "seed")
	c09xCheckTexts(c, rp, c09xSweep(), "sweep")
	for done := len(texts); done < nB; {
		n := nB - done
		if n > 1000 {
			n = 1000
		}
		batch := make([]string, 0, n)
		for len(batch) < n {
			src := c09xSeeds[c.Rng.Intn(len(c09xSeeds))]
			if c.Rng.Intn(4) != 0 && len(pool) > 0 {
				src = pool[c.Rng.Intn(len(pool))]
			}
			batch = append(batch, c09xMutate(c, src))
		}
		c09xCheckTexts(c, rp, batch, "mutant")
		done += n
	}
}
