package main

// C04 / C14: file names whose JSON encoding differs from their bytes.  Stages
// name some of their files with quotes, backslashes, <>&, control characters,
// non-ASCII letters, U+2028; and some stages write their _outs the way
// python's json.dump does by default (ensure_ascii: every non-ASCII character
// as \uXXXX, with surrogate pairs) or with the solidus escaped (\/).  The
// files really exist under those names.

import (
	"regexp"
	"bytes"
	"encoding/json"
	"fmt"
	"math/rand"
	"os"
	"strings"
	"unicode/utf16"
	"unicode/utf8"

	"github.com/martian-lang/martian/martian/syntax"
)

// vdrEscString marshals as a JSON string in a chosen spelling.
type vdrEscString struct {
	S    string
	Mode int // 1: ensure_ascii  2: ensure_ascii and \/  3: \/ only
}

func (e vdrEscString) MarshalJSON() ([]byte, error) {
	var b bytes.Buffer
	b.WriteByte('"')
	for _, r := range e.S {
		switch {
		case r == '"':
			b.WriteString(`\"`)
		case r == '\\':
			b.WriteString(`\\`)
		case r == '/' && e.Mode >= 2:
			b.WriteString(`\/`)
		case r == '\n':
			b.WriteString(`\n`)
		case r == '\t':
			b.WriteString(`\t`)
		case r < 0x20 || r == 0x7f:
			fmt.Fprintf(&b, `\u%04x`, r)
		case r >= 0x80 && e.Mode <= 2:
			if r > 0xffff {
				r1, r2 := utf16.EncodeRune(r)
				fmt.Fprintf(&b, `\u%04x\u%04x`, r1, r2)
			} else {
				fmt.Fprintf(&b, `\u%04x`, r)
			}
		default:
			var buf [4]byte
			n := utf8.EncodeRune(buf[:], r)
			b.Write(buf[:n])
		}
	}
	b.WriteByte('"')
	return b.Bytes(), nil
}

var vdrAwkward = []string{
	" q\"uote", "back\\slash", "lt<gt>&amp", "données", "tab\there", "ctl\x01x",
	"sep x", "wide\U0001F600x", "sp ace", "per%cent", "apo'strophe",
}

// escapeNames renames some of the regular files the job's outputs name to
// names that need JSON escapes, and chooses the spelling of the job's strings.
func (v *vdrRun) escapeNames(job *TAJob, outs map[string]interface{}) {
	rng := rand.New(rand.NewSource(int64(hash64("vdr-esc", job.Key))))
	if rng.Intn(3) != 0 {
		return
	}
	mode := rng.Intn(4) // 0: Go's own spelling
	renamed := map[string]string{}
	prefix := job.FilesPath + "/"
	any := false
	var walk func(x interface{}) interface{}
	walk = func(x interface{}) interface{} {
		switch t := x.(type) {
		case string:
			s := t
			if strings.HasPrefix(s, prefix) {
				nt, ok := renamed[s]
				if !ok {
					nt = s
					if content, written := v.r.Written[s]; written && rng.Intn(2) == 0 {
						if st, err := os.Lstat(s); err == nil && st.Mode().IsRegular() {
							cand := s + "." + vdrAwkward[rng.Intn(len(vdrAwkward))]
							if os.Rename(s, cand) == nil {
								nt = cand
								delete(v.r.Written, s)
								v.r.Written[cand] = content
								if by, ok := v.writtenBy[v.rel(s)]; ok {
									delete(v.writtenBy, v.rel(s))
									v.writtenBy[v.rel(cand)] = by
								} else {
									v.writtenBy[v.rel(cand)] = job.Key
								}
								any = true
							}
						}
					}
					renamed[s] = nt
				}
				s = nt
			}
			if mode > 0 && strings.HasPrefix(s, "/") {
				return vdrEscString{S: s, Mode: mode}
			}
			return s
		case []interface{}:
			for i := range t {
				t[i] = walk(t[i])
			}
			return t
		case map[string]interface{}:
			for k := range t {
				t[k] = walk(t[k])
			}
			return t
		}
		return x
	}
	for k := range outs {
		outs[k] = walk(outs[k])
	}
	if any {
		v.hist("shape-file-name-needing-json-escape")
	}
	if mode > 0 {
		v.hist(fmt.Sprintf("shape-outs-spelling-mode-%d", mode))
	}
	// the encoder must accept what we produce
	if _, err := json.Marshal(outs); err != nil {
		v.hist("esc-marshal-error")
	}
}

var reForkIdx = regexp.MustCompile(`\.fork(\d+)`)

// moreShapes: (a) outputs spelled uncleanly — a directory with a trailing
// separator, a doubled separator or a `/./` inside the path (all accepted by
// lstat); (b) a fork other than the first of a statically forked stage with a
// `retain` returns null for the retained outputs (the forks prune their
// bookkeeping independently); (c) an output nobody binds is a string of more
// than 2 MiB (the fork's _outs exceeds the small read limit of the metadata
// reader, which matters when the bookkeeping is rebuilt from disk after a
// restart).
func (v *vdrRun) moreShapes(job *TAJob, stage *syntax.Stage, params []*syntax.OutParam, outs map[string]interface{}) {
	rng := rand.New(rand.NewSource(int64(hash64("vdr-shapes", job.Key))))
	// (b)
	if stage.Retain != nil && len(stage.Retain.Params) > 0 && job.ShellName != "split" {
		if m := reForkIdx.FindStringSubmatch(job.Fqname); m != nil && m[1] != "0" && m[1] == "1" {
			for _, rp := range stage.Retain.Params {
				if _, ok := outs[rp.Id]; ok {
					outs[rp.Id] = nil
					v.hist("shape-retained-output-null-in-one-static-fork")
				}
			}
		}
	}
	// (c)
	node := job.Fqname
	if i := strings.Index(node, ".fork"); i > 0 {
		node = node[:i]
	}
	if init, ok := v.initView[node]; ok && !(job.ShellName == "main" && stage.Split) {
		for _, p := range params {
			if p.Tname.Tname != syntax.KindString || p.Tname.ArrayDim != 0 || p.Tname.MapDim != 0 {
				continue
			}
			if _, bound := init.FileArgs[p.Id]; bound {
				continue
			}
			if _, ok := outs[p.Id].(string); ok && hash64("vdr-big", job.Key, p.Id)%3 == 0 {
				outs[p.Id] = strings.Repeat("blob0123456789abcdef", 120000) // 2.4 MB
				v.hist("shape-outs-larger-than-2MiB")
			}
		}
	}
	// (a)
	prefix := job.FilesPath + "/"
	var walk func(x interface{}) interface{}
	walk = func(x interface{}) interface{} {
		switch t := x.(type) {
		case string:
			if !strings.HasPrefix(t, prefix) || rng.Intn(6) != 0 {
				return t
			}
			st, err := os.Lstat(t)
			if err != nil || st.Mode()&os.ModeSymlink != 0 || strings.Contains(t[len(prefix):], "_o") && false {
				return t
			}
			i := strings.LastIndex(t, "/")
			switch k := rng.Intn(3); {
			case k <= 1 && st.IsDir():
				v.hist("shape-output-spelled-with-trailing-separator")
				if rng.Intn(3) == 0 {
					return t + "//"
				}
				return t + "/"
			case k == 1:
				v.hist("shape-output-spelled-with-doubled-separator")
				return t[:i] + "//" + t[i+1:]
			default:
				v.hist("shape-output-spelled-with-dot-component")
				return t[:i] + "/./" + t[i+1:]
			}
		case []interface{}:
			for i := range t {
				t[i] = walk(t[i])
			}
			return t
		case map[string]interface{}:
			for k := range t {
				t[k] = walk(t[k])
			}
			return t
		}
		return x
	}
	if vdrAliasFrom == "" { // (a linked root has its own respelling of the paths)
		for k := range outs {
			outs[k] = walk(outs[k])
		}
	}
}
