package main

// C04 / C14: file names whose JSON encoding differs from their bytes.  Stages
// name some of their files with quotes, backslashes, <>&, control characters,
// non-ASCII letters, U+2028; and some stages write their _outs the way
// python's json.dump does by default (ensure_ascii: every non-ASCII character
// as \uXXXX, with surrogate pairs) or with the solidus escaped (\/).  The
// files really exist under those names.

import (
	"bytes"
	"encoding/json"
	"fmt"
	"math/rand"
	"os"
	"strings"
	"unicode/utf16"
	"unicode/utf8"
)

// vdrEscString marshals as a JSON string in a chosen spelling.
type vdrEscString struct {
	S    string
	Mode int // 1: ensure_ascii  2: ensure_ascii and \/  3: \/ only
}

func (e vdrEscString) MarshalJSON() ([]byte, error) {
	var b bytes.Buffer
	b.WriteByte('"')
	for _, r := range e.S {
		switch {
		case r == '"':
			b.WriteString(`\"`)
		case r == '\\':
			b.WriteString(`\\`)
		case r == '/' && e.Mode >= 2:
			b.WriteString(`\/`)
		case r == '\n':
			b.WriteString(`\n`)
		case r == '\t':
			b.WriteString(`\t`)
		case r < 0x20 || r == 0x7f:
			fmt.Fprintf(&b, `\u%04x`, r)
		case r >= 0x80 && e.Mode <= 2:
			if r > 0xffff {
				r1, r2 := utf16.EncodeRune(r)
				fmt.Fprintf(&b, `\u%04x\u%04x`, r1, r2)
			} else {
				fmt.Fprintf(&b, `\u%04x`, r)
			}
		default:
			var buf [4]byte
			n := utf8.EncodeRune(buf[:], r)
			b.Write(buf[:n])
		}
	}
	b.WriteByte('"')
	return b.Bytes(), nil
}

var vdrAwkward = []string{
	" q\"uote", "back\\slash", "lt<gt>&amp", "données", "tab\there", "ctl\x01x",
	"sep x", "wide\U0001F600x", "sp ace", "per%cent", "apo'strophe",
}

// escapeNames renames some of the regular files the job's outputs name to
// names that need JSON escapes, and chooses the spelling of the job's strings.
func (v *vdrRun) escapeNames(job *TAJob, outs map[string]interface{}) {
	rng := rand.New(rand.NewSource(int64(hash64("vdr-esc", job.Key))))
	if rng.Intn(3) != 0 {
		return
	}
	mode := rng.Intn(4) // 0: Go's own spelling
	renamed := map[string]string{}
	prefix := job.FilesPath + "/"
	any := false
	var walk func(x interface{}) interface{}
	walk = func(x interface{}) interface{} {
		switch t := x.(type) {
		case string:
			s := t
			if strings.HasPrefix(s, prefix) {
				nt, ok := renamed[s]
				if !ok {
					nt = s
					if content, written := v.r.Written[s]; written && rng.Intn(2) == 0 {
						if st, err := os.Lstat(s); err == nil && st.Mode().IsRegular() {
							cand := s + "." + vdrAwkward[rng.Intn(len(vdrAwkward))]
							if os.Rename(s, cand) == nil {
								nt = cand
								delete(v.r.Written, s)
								v.r.Written[cand] = content
								if by, ok := v.writtenBy[v.rel(s)]; ok {
									delete(v.writtenBy, v.rel(s))
									v.writtenBy[v.rel(cand)] = by
								} else {
									v.writtenBy[v.rel(cand)] = job.Key
								}
								any = true
							}
						}
					}
					renamed[s] = nt
				}
				s = nt
			}
			if mode > 0 && strings.HasPrefix(s, "/") {
				return vdrEscString{S: s, Mode: mode}
			}
			return s
		case []interface{}:
			for i := range t {
				t[i] = walk(t[i])
			}
			return t
		case map[string]interface{}:
			for k := range t {
				t[k] = walk(t[k])
			}
			return t
		}
		return x
	}
	for k := range outs {
		outs[k] = walk(outs[k])
	}
	if any {
		v.hist("shape-file-name-needing-json-escape")
	}
	if mode > 0 {
		v.hist(fmt.Sprintf("shape-outs-spelling-mode-%d", mode))
	}
	// the encoder must accept what we produce
	if _, err := json.Marshal(outs); err != nil {
		v.hist("esc-marshal-error")
	}
}
