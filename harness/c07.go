package main

// C07 — accepted programs are type-safe at run time; ill-typed bindings are
// rejected.  Runtime half (here): programs the compiler accepts are run at the
// strictest enforcement level with type-conforming stage outputs; any run-time
// failure, panic or self-termination of mrp is a violation.  The compile-time
// half (single-point ill-typed mutations must be rejected with a located
// error; Lean model of IsValidExpression / IsAssignableFrom) lives in
// c07_compile.go and registers itself through c07CompileHook.

import (
	"regexp"
	"strings"
)

var c07CompileHook func(c *Ctx)

func init() { register("C07", runC07) }

var reHex = regexp.MustCompile(`[0-9a-f]{8,}|\d+`)

// classifyRuntimeError gives the failing-input class of a Tier-A run which did
// not complete: the kind of final state, the phase in which the run-time gave
// up, and the innermost cause, normalised so that it does not depend on the
// names, indices, types and paths of the particular program.  The same class
// is used in the keys of C07 (C07:runtime:<class>) and C03
// (C03:not-completed:<class>), so that one known-finding entry per defect can
// list both keys.
func classifyRuntimeError(final, msg string) string {
	f := finalClass(final)
	switch {
	case strings.HasPrefix(f, "panic:"):
		return "panic:" + normRuntimeText(strings.TrimPrefix(f, "panic:"), 80)
	case f == "process-exit":
		return "process-exit"
	case f == "failed":
		// the last '|' field is the log text
		parts := strings.Split(msg, "|")
		text := parts[len(parts)-1]
		var lines []string
		for _, l := range strings.Split(text, "\n") {
			l = strings.TrimSpace(l)
			if l == "" || strings.HasPrefix(l, "at ") {
				continue
			}
			lines = append(lines, l)
		}
		flat := strings.Join(lines, " ")
		phase := "other"
		switch {
		case strings.HasPrefix(flat, "Error resolving input argument bindings"):
			phase = "args"
		case strings.HasPrefix(flat, "resolving forks"):
			phase = "forks"
		case strings.HasPrefix(flat, "Could not evaluate disabled state"):
			phase = "disabled"
		case rePipelineOuts.MatchString(flat):
			phase = "outs"
		case strings.HasPrefix(flat, "parameter "):
			phase = "pipeline-args"
		}
		// the innermost cause is at the end: keep the last three ': ' segments
		segs := strings.Split(normRuntimeText(flat, 0), ": ")
		if len(segs) > 3 {
			segs = segs[len(segs)-3:]
		}
		cause := strings.Join(segs, ": ")
		for len(cause) > 110 && len(segs) > 1 {
			segs = segs[1:]
			cause = strings.Join(segs, ": ")
		}
		if len(cause) > 110 {
			cause = cause[:110]
		}
		return "failed:" + phase + ":" + cause
	}
	return f
}

var (
	rePipelineOuts = regexp.MustCompile(`^ID\.\S+ fork \[`)
	reFqname       = regexp.MustCompile(`ID\.[A-Za-z0-9_.%]+`)
	reForkId       = regexp.MustCompile(`\[[^\[\]]*:[^\[\]]*\]`)
	reCallName     = regexp.MustCompile(`\b[A-Z][A-Z]*[0-9]+(_A[0-9]+)?\b`)
	reBuiltinType  = regexp.MustCompile(`\b(int|float|string|bool|file|path)\b`)
	reQuoted       = regexp.MustCompile(`"[^"]*"`)
	reParamName    = regexp.MustCompile(`\b(parameter|field|key|input|fork part|ID for) [A-Za-z_][A-Za-z0-9_]*`)
	reJSONKind     = regexp.MustCompile(`unmarshal (number|T|array|object)`)
)

// normRuntimeText removes everything program specific from a run-time message.
func normRuntimeText(t string, max int) string {
	t = reFqname.ReplaceAllString(t, "ID")
	t = reForkId.ReplaceAllString(t, "[]")
	t = reQuoted.ReplaceAllString(t, "Q")
	t = reCallName.ReplaceAllString(t, "C")
	t = reHex.ReplaceAllString(t, "N")
	t = reBuiltinType.ReplaceAllString(t, "T")
	t = strings.ReplaceAll(t, "C as C", "C")
	t = strings.ReplaceAll(t, "ID unless ID", "ID")
	t = reParamName.ReplaceAllString(t, "$1 P")
	t = reJSONKind.ReplaceAllString(t, "unmarshal V")
	t = strings.Join(strings.Fields(t), " ")
	if max > 0 && len(t) > max {
		t = t[:max]
	}
	return t
}

func runC07(c *Ctx) {
	r := c.Res
	r.Histogram = map[string]int{}
	r.Rule = "runtime half: PRNG-generated programs over the type language (builtins, user file types, structs incl. struct->narrower struct, arrays up to 2 dims, typed maps of arrays, untyped maps, int->float) that the REAL compiler accepts are run in Tier A at enforcement level 'error' with type-conforming fake stage outputs under 2 schedules; any final state other than complete (run-time type/resolution error, panic, mrp exiting) is a violation; compile-time half: see c07_compile.go; non-trivial = program has a projection, a narrowing, a mapped call or a coercion; distinct = program text"
	n := 150
	if c.Thorough {
		n = 3000
	}
	progs := rtPrograms(c, n, GenOpts{Files: true})
	cases := runCases(c, progs, 2, TASpec{})
	for _, cs := range cases {
		res := cs.res
		r.hist("final_" + finalClass(res.Final))
		src := cs.prog.Src
		st := cs.prog.Stats
		nontriv := cs.prog.Corpus || st["bind_projection"] > 0 || st["narrow_return"] > 0 || st["map_call_array"]+st["map_call_map"] > 0
		r.count(src, nontriv)
		if len(r.Samples) < 3 && nontriv && res.Final == "complete" {
			r.sample(map[string]interface{}{"program": src, "final": res.Final})
		}
		switch {
		case res.Final == "complete":
		case res.Final == "compile-error":
			// compileProgram accepted it but invocation rejected it
			r.violate(Violation{Kind: "property", Key: "C07:invoke-rejects-compiled:" + firstLine(res.Compile),
				What: "program compiles but cannot be invoked: " + firstLine(res.Compile), Input: map[string]interface{}{"program": src}})
		default:
			key := "C07:runtime:" + classifyRuntimeError(res.Final, res.ErrMsg)
			r.violate(Violation{Kind: "property", Key: key,
				What:  "a program accepted by the compiler, run with type-conforming stage outputs, ended " + finalClass(res.Final) + ": " + firstLine(res.ErrMsg),
				Input: map[string]interface{}{"program": src, "spec": cs.spec.Name, "seed": cs.spec.Seed, "error": res.ErrMsg, "history": excerpt(res.Events, 120)}})
		}
	}
	for _, cp := range compilePanics {
		r.violate(Violation{Kind: "property", Key: "C07:compile-panic:" + reHex.ReplaceAllString(firstLine(cp["panic"]), "N"),
			What:  "the compiler / call-graph resolver panicked on a generated program: " + cp["panic"],
			Input: cp})
	}
	if c07CompileHook != nil {
		c07CompileHook(c)
	} else {
		r.note("compile-time half (c07_compile.go) not linked")
	}
}
