package main

// C07 — accepted programs are type-safe at run time; ill-typed bindings are
// rejected.  Runtime half (here): programs the compiler accepts are run at the
// strictest enforcement level with type-conforming stage outputs; any run-time
// failure, panic or self-termination of mrp is a violation.  The compile-time
// half (single-point ill-typed mutations must be rejected with a located
// error; Lean model of IsValidExpression / IsAssignableFrom) lives in
// c07_compile.go and registers itself through c07CompileHook.

import (
	"regexp"
	"strings"
)

var c07CompileHook func(c *Ctx)

func init() { register("C07", runC07) }

var reHex = regexp.MustCompile(`[0-9a-f]{8,}|\d+`)

func classifyRuntimeError(final, msg string) string {
	f := finalClass(final)
	switch {
	case strings.HasPrefix(f, "panic:"):
		return "panic:" + reHex.ReplaceAllString(strings.TrimPrefix(f, "panic:"), "N")
	case f == "process-exit":
		return "process-exit"
	case f == "failed":
		// the last '|' field is the log text
		parts := strings.Split(msg, "|")
		t := firstLine(parts[len(parts)-1])
		t = reHex.ReplaceAllString(t, "N")
		if len(t) > 80 {
			t = t[:80]
		}
		return "failed:" + t
	}
	return f
}

func runC07(c *Ctx) {
	r := c.Res
	r.Histogram = map[string]int{}
	r.Rule = "runtime half: PRNG-generated programs over the type language (builtins, user file types, structs incl. struct->narrower struct, arrays up to 2 dims, typed maps of arrays, untyped maps, int->float) that the REAL compiler accepts are run in Tier A at enforcement level 'error' with type-conforming fake stage outputs under 2 schedules; any final state other than complete (run-time type/resolution error, panic, mrp exiting) is a violation; compile-time half: see c07_compile.go; non-trivial = program has a projection, a narrowing, a mapped call or a coercion; distinct = program text"
	n := 150
	if c.Thorough {
		n = 3000
	}
	progs := rtPrograms(c, n, GenOpts{Files: true})
	cases := runCases(c, progs, 2, TASpec{})
	for _, cs := range cases {
		res := cs.res
		r.hist("final_" + finalClass(res.Final))
		src := cs.prog.Src
		st := cs.prog.Stats
		nontriv := cs.prog.Corpus || st["bind_projection"] > 0 || st["narrow_return"] > 0 || st["map_call_array"]+st["map_call_map"] > 0
		r.count(src, nontriv)
		if len(r.Samples) < 3 && nontriv && res.Final == "complete" {
			r.sample(map[string]interface{}{"program": src, "final": res.Final})
		}
		switch {
		case res.Final == "complete":
		case res.Final == "compile-error":
			// compileProgram accepted it but invocation rejected it
			r.violate(Violation{Kind: "property", Key: "C07:invoke-rejects-compiled:" + firstLine(res.Compile),
				What: "program compiles but cannot be invoked: " + firstLine(res.Compile), Input: map[string]interface{}{"program": src}})
		default:
			key := "C07:runtime:" + classifyRuntimeError(res.Final, res.ErrMsg)
			r.violate(Violation{Kind: "property", Key: key,
				What:  "a program accepted by the compiler, run with type-conforming stage outputs, ended " + finalClass(res.Final) + ": " + firstLine(res.ErrMsg),
				Input: map[string]interface{}{"program": src, "spec": cs.spec.Name, "seed": cs.spec.Seed, "error": res.ErrMsg, "history": excerpt(res.Events, 120)}})
		}
	}
	for _, cp := range compilePanics {
		r.violate(Violation{Kind: "property", Key: "C07:compile-panic:" + reHex.ReplaceAllString(firstLine(cp["panic"]), "N"),
			What:  "the compiler / call-graph resolver panicked on a generated program: " + cp["panic"],
			Input: cp})
	}
	if c07CompileHook != nil {
		c07CompileHook(c)
	} else {
		r.note("compile-time half (c07_compile.go) not linked")
	}
}
