package main

// C12, part 4: cluster mode across an mrp restart.  The real
// RemoteJobManager (with --maxjobs = N and a submit command that just prints
// a job id) runs the chunk phase of a stage: N chunks get a slot and are
// submitted (execJob -> MaxJobsSemaphore.Acquire -> sendJob), the others block
// inside mrp.  Then mrp "restarts": resetMaxJobs, the fork is loaded again from
// what is on disk, Node.reattachJobs.  Checked on the real code:
//   * after re-attaching the semaphore counts exactly the jobs that are in
//     flight on the cluster (the model: MJ.run of one non-blocking attempt per
//     in-flight job, theorem Props.C12.reattach_restores_count),
//   * when the reset chunks are queued again, and as jobs finish one by one in
//     a PRNG order, never more than N jobs are outstanding,
//   * every chunk is eventually submitted (no stall).
// Which chunks get the N slots is chosen by the PRNG (they are queued one at a
// time), so "a waiting chunk with a lower index than a submitted one" occurs
// in most rounds.

import (
	"fmt"
	"os"
	"path/filepath"
	"sort"
	"strconv"
	"strings"
	"time"

	"github.com/martian-lang/martian/martian/core"
)

type c12ClusterOutcome struct {
	key, what string
	extra     interface{}
}

func c12FileExists(p string) bool { _, err := os.Stat(p); return err == nil }

// state of a chunk as a restarted mrp would read it from disk
func c12ChunkDisk(dir string, i int) (submitted, waiting, complete bool) {
	d := filepath.Join(dir, fmt.Sprintf("chnk%d", i))
	complete = c12FileExists(filepath.Join(d, "_complete"))
	waiting = c12FileExists(filepath.Join(d, "_queued_locally"))
	submitted = c12FileExists(filepath.Join(d, "_jobid")) && !waiting
	return
}

func c12ClusterRound(c *Ctx, round int, n, k int, order []int, finishBefore int, freshJM bool, doneOrder []int, startedMask []bool) *c12ClusterOutcome {
	dir := filepath.Join(c.Scratch, fmt.Sprintf("cluster%d", round))
	os.MkdirAll(dir, 0o755)
	fq := "ID.c12.PIPE.STAGE"
	input := map[string]interface{}{"maxjobs": n, "chunks": k, "queue_order": order, "finished_before_restart": finishBefore,
		"fresh_job_manager_after_restart": freshJM, "seed": c.Seed, "round": round}
	fail := func(key, f string, a ...interface{}) *c12ClusterOutcome {
		return &c12ClusterOutcome{key, fmt.Sprintf(f, a...), input}
	}
	submitCmd := []string{"-c", "cat > /dev/null; echo job$$"}
	jm := core.VerifNewClusterJobManager(n, "/bin/sh", submitCmd)
	fork, err := core.VerifLoadClusterFork(jm, fq, dir, k)
	if err != nil {
		return nil
	}
	split, _, chunks := fork.Metadatas()
	// the split has completed
	os.WriteFile(filepath.Join(dir, "split", "_jobinfo"), []byte("{}"), 0o644)
	os.WriteFile(filepath.Join(dir, "split", "_log"), []byte(""), 0o644)
	os.WriteFile(filepath.Join(dir, "split", "_complete"), []byte(""), 0o644)
	_ = split
	res := &core.JobResources{Threads: 1, MemGB: 1}
	// Progress-based: when every goroutine that is inside the job manager / the semaphore is parked
	// in cond.Wait (nobody is submitting, nobody is between two steps), nothing can change any more
	// without the harness doing something — the condition is then false for good and there is no
	// point in waiting for the load-scaled deadline.
	wait := func(cond func() bool) bool {
		dl := time.Now().Add(c12Wait)
		still := 0
		for !cond() {
			if time.Now().After(dl) {
				return false
			}
			if mjParkDetection && mjAllParked() {
				if still++; still >= 5 {
					return cond()
				}
			} else {
				still = 0
			}
			time.Sleep(2 * time.Millisecond)
		}
		return true
	}
	countSubmitted := func() int {
		m := 0
		for i := 0; i < k; i++ {
			if s, _, _ := c12ChunkDisk(dir, i); s {
				m++
			}
		}
		return m
	}
	parked0 := mjParked()
	// ---- first incarnation: queue the chunks one at a time in the PRNG order ----
	for pos, ci := range order {
		if err := core.VerifQueueJob(jm, chunks[ci], res, fmt.Sprintf("%s.fork0.chnk%d", fq, ci)); err != nil {
			return nil
		}
		want := pos + 1
		if want > n {
			want = n
		}
		blocked := pos + 1 - want
		if !wait(func() bool { return countSubmitted() == want && mjParked()-parked0 == blocked }) {
			return fail("C12:cluster:first-run", "after queueing %d chunks with --maxjobs=%d: %d submitted, %d blocked in Acquire (expected %d and %d)",
				pos+1, n, countSubmitted(), mjParked()-parked0, want, blocked)
		}
	}
	if jm.VerifJobSemCurrent() > n {
		return fail("C12:cluster:over-maxjobs", "%d jobs hold a --maxjobs slot with --maxjobs=%d", jm.VerifJobSemCurrent(), n)
	}
	// some submitted jobs finish before the restart: their slot goes to a blocked chunk
	finished := map[int]bool{}
	for f := 0; f < finishBefore && f < n; f++ {
		ci := order[f]
		os.WriteFile(filepath.Join(dir, fmt.Sprintf("chnk%d", ci), "_log"), []byte(""), 0o644)
		os.WriteFile(filepath.Join(dir, fmt.Sprintf("chnk%d", ci), "_complete"), []byte(""), 0o644)
		core.VerifSetMetadataState(chunks[ci], "complete")
		core.VerifEndJob(jm, chunks[ci])
		finished[ci] = true
		want := n + f + 1
		if want > k {
			want = k
		}
		if !wait(func() bool { return countSubmitted() == want }) {
			return fail("C12:cluster:stall", "a job finished and released its slot but no blocked chunk was submitted (%d submitted, expected %d)", countSubmitted(), want)
		}
	}
	// ---- mrp restarts ----
	var inflight, waitingIdx []int
	for i := 0; i < k; i++ {
		s, w, done := c12ChunkDisk(dir, i)
		switch {
		case done:
		case s:
			inflight = append(inflight, i)
		case w:
			waitingIdx = append(waitingIdx, i)
		}
	}
	// some of the jobs in flight have started on the cluster (the normal in-flight state):
	// the job itself writes _log, a restarted mrp reads the state Running from disk
	var runningIdx []int
	for _, i := range inflight {
		if startedMask[i] {
			os.WriteFile(filepath.Join(dir, fmt.Sprintf("chnk%d", i), "_log"), []byte(""), 0o644)
			runningIdx = append(runningIdx, i)
		}
	}
	input["in_flight_at_restart"] = inflight
	input["of_which_running_(_log_written)"] = runningIdx
	input["waiting_at_restart"] = waitingIdx
	jm.VerifResetMaxJobs() // cancels the blocked submissions of the old incarnation
	if !wait(func() bool { return mjParked() == parked0 }) {
		return fail("C12:cluster:stall", "callers still blocked in the old semaphore after resetMaxJobs")
	}
	jm2 := jm
	if freshJM {
		jm2 = core.VerifNewClusterJobManager(n, "/bin/sh", submitCmd)
	}
	fork2, err := core.VerifLoadClusterFork(jm2, fq, dir, k)
	if err != nil {
		return nil
	}
	if err := fork2.Reattach(); err != nil {
		return fail("C12:cluster:reattach-error", "reattachJobs: %v", err)
	}
	_, _, chunks2 := fork2.Metadatas()
	// model: one non-blocking attempt per in-flight job on a fresh semaphore
	var mops []string
	for _, i := range inflight {
		if startedMask[i] {
			mops = append(mops, fmt.Sprintf("t%d:r:1", i))
		} else {
			mops = append(mops, fmt.Sprintf("t%d:q:1", i))
		}
	}
	modelLen := 0
	if len(mops) > 0 {
		rep := c.Drv.Ask("C12.mj", strconv.Itoa(n), strings.Join(mops, ","))
		parts := strings.Split(rep, ";")
		f := strings.Split(parts[len(parts)-1], ":")
		if len(f) == 4 {
			modelLen, _ = strconv.Atoi(f[1])
		}
	}
	var countMismatch *c12ClusterOutcome
	if cur := jm2.VerifJobSemCurrent(); cur != len(inflight) || cur != modelLen {
		countMismatch = fail("C12:cluster:reattach-count",
			"after resetMaxJobs + reattachJobs the --maxjobs semaphore accounts for %d jobs, but %d jobs (chunks %v) are in flight on the cluster (model: %d); chunks %v were still waiting for a slot",
			cur, len(inflight), inflight, modelLen, waitingIdx)
	}
	// the chunks that were waiting have been reset
	for _, i := range waitingIdx {
		if _, w, _ := c12ChunkDisk(dir, i); w {
			return fail("C12:cluster:not-reset", "chunk %d was waiting for a slot at the restart and was not reset", i)
		}
	}
	// ---- second incarnation: the reset chunks are queued again; jobs finish one by one ----
	parked1 := mjParked()
	outstanding := map[int]bool{}
	for _, i := range inflight {
		outstanding[i] = true
	}
	requeue := append([]int{}, waitingIdx...)
	sort.Slice(requeue, func(a, b int) bool {
		return doneOrder[requeue[a]%len(doneOrder)] < doneOrder[requeue[b]%len(doneOrder)]
	})
	for _, ci := range requeue {
		if err := core.VerifQueueJob(jm2, chunks2[ci], res, fmt.Sprintf("%s.fork0.chnk%d", fq, ci)); err != nil {
			return nil
		}
	}
	settle := func() (*c12ClusterOutcome, bool) {
		// quiescent when every re-queued chunk is either submitted or parked
		ok := wait(func() bool {
			sub := 0
			for _, ci := range requeue {
				if s, _, _ := c12ChunkDisk(dir, ci); s {
					sub++
				}
			}
			return sub+(mjParked()-parked1) == len(requeue)
		})
		for _, ci := range requeue {
			if s, _, done := c12ChunkDisk(dir, ci); s && !done && !finished[ci] {
				outstanding[ci] = true
			}
		}
		if len(outstanding) > n {
			var o []int
			for i := range outstanding {
				o = append(o, i)
			}
			sort.Ints(o)
			what := ""
			if countMismatch != nil {
				what = "; " + countMismatch.what
			}
			return fail("C12:cluster:over-maxjobs", "%d jobs (chunks %v) are submitted to the cluster at the same time with --maxjobs=%d after the restart%s", len(o), o, n, what), false
		}
		return nil, ok
	}
	for {
		if v, ok := settle(); v != nil {
			return v
		} else if countMismatch != nil {
			return countMismatch
		} else if !ok {
			return fail("C12:cluster:stall", "re-queued chunks neither submitted nor waiting after the restart")
		}
		if len(outstanding) == 0 {
			break
		}
		// the PRNG picks the job that finishes next
		var o []int
		for i := range outstanding {
			o = append(o, i)
		}
		sort.Slice(o, func(a, b int) bool { return doneOrder[o[a]%len(doneOrder)] < doneOrder[o[b]%len(doneOrder)] })
		ci := o[0]
		os.WriteFile(filepath.Join(dir, fmt.Sprintf("chnk%d", ci), "_log"), []byte(""), 0o644)
		os.WriteFile(filepath.Join(dir, fmt.Sprintf("chnk%d", ci), "_complete"), []byte(""), 0o644)
		core.VerifSetMetadataState(chunks2[ci], "complete")
		core.VerifEndJob(jm2, chunks2[ci])
		delete(outstanding, ci)
		finished[ci] = true
		// if somebody is parked, the freed slot must be taken
		if mjParked()-parked1 > 0 {
			before := len(outstanding)
			if !wait(func() bool {
				cnt := 0
				for _, cj := range requeue {
					if s, _, _ := c12ChunkDisk(dir, cj); s && !finished[cj] {
						cnt++
					}
				}
				for _, cj := range inflight {
					if !finished[cj] {
						cnt++
					}
				}
				return cnt > before
			}) {
				return fail("C12:cluster:stall", "a job finished after the restart but no waiting chunk was submitted")
			}
		}
	}
	for i := 0; i < k; i++ {
		if !finished[i] {
			return fail("C12:cluster:stall", "chunk %d never ran", i)
		}
	}
	if cur := jm2.VerifJobSemCurrent(); cur != 0 {
		return fail("C12:cluster:leftover", "all jobs finished but %d --maxjobs slots are still held", cur)
	}
	return nil
}

func runC12Cluster(c *Ctx) {
	r := c.Res
	if !mjParkDetection {
		r.note("cluster restart rounds skipped: no parked-goroutine detection")
		return
	}
	rounds := 8
	if c.Thorough {
		rounds = 120
	}
	reported := map[string]bool{}
	stop := false
	for round := 0; round < rounds && !stop; round++ {
		n := 1 + c.Rng.Intn(3)
		k := n + 1 + c.Rng.Intn(4)
		order := c.Rng.Perm(k)
		doneOrder := c.Rng.Perm(k)
		finishBefore := 0
		if c.Rng.Intn(3) == 0 {
			finishBefore = 1
		}
		freshJM := c.Rng.Intn(2) == 0
		startedMask := make([]bool, k)
		anyStarted := false
		if c.Rng.Intn(4) != 0 {
			for i := range startedMask {
				startedMask[i] = c.Rng.Intn(2) == 0
				anyStarted = anyStarted || startedMask[i]
			}
		}
		if anyStarted {
			r.hist("cluster_rounds_with_running_jobs_at_restart")
		}
		v := c12ClusterRound(c, round, n, k, order, finishBefore, freshJM, doneOrder, startedMask)
		lowerWaiting := false
		for pos, ci := range order {
			if pos >= n {
				for _, cj := range order[:n] {
					if ci < cj {
						lowerWaiting = true
					}
				}
			}
		}
		r.count(fmt.Sprintf("cluster|%d|%d|%v|%d|%v|%v|%v", n, k, order, finishBefore, freshJM, doneOrder, startedMask), lowerWaiting)
		r.hist("cluster_restart_rounds")
		if lowerWaiting {
			r.hist("cluster_rounds_waiting_chunk_below_submitted_one")
		}
		if v == nil || reported[v.key] {
			continue
		}
		// re-execute alone with doubled waits before believing it
		saved := c12Wait
		c12Wait = 2 * saved
		v2 := c12ClusterRound(c, round+100000, n, k, order, finishBefore, freshJM, doneOrder, startedMask)
		c12Wait = saved
		if v2 == nil || v2.key != v.key {
			r.note("cluster round %d: %s (%s) did not reproduce when re-executed alone; not reported", round, v.key, v.what)
			continue
		}
		reported[v.key] = true
		stop = true
		r.violate(Violation{Kind: "property", Key: v2.key, What: "cluster mode, mrp restart: " + v2.what, Input: v2.extra,
			Expect: "semaphore count = jobs in flight after re-attach; never more than --maxjobs outstanding; every chunk runs"})
	}
	if stop {
		r.note("cluster restart rounds stopped after the first confirmed violation")
	}
}
