package main

// C17 — JSON validation and filtering agree with the type system.
//
// Correspondence: types are declared in a generated MRO source, compiled by
// the real parser/compiler and fetched from ast.TypeTable; values are
// type-directed random JSON texts plus near-misses with random whitespace.
// The real IsValidJson / FilterJson / IsAssignableFrom / IsFile / CanFilter
// are compared with the Lean model (driver ops C17.case / C17.assign /
// C17.info); outputs are compared as trees (object members sorted).
// Property monitors on the real code alone: idempotence, only-drops, null
// accepted, filter-valid-of-assignable, assignability reflexive and
// component-wise.

import (
	"bytes"
	"encoding/hex"
	"encoding/json"
	"fmt"
	"math/big"
	"math/rand"
	"sort"
	"strconv"
	"strings"

	"github.com/martian-lang/martian/martian/core"
	"github.com/martian-lang/martian/martian/syntax"
)

func init() { register("C17", runC17) }

// ---------------------------------------------------------------- types

type c17Field struct {
	id string
	t  *c17Ty
}

// kind: 'b' builtin, 'u' user file type, 'a' one array dimension, 'm' typed map, 's' struct
type c17Ty struct {
	kind   byte
	name   string
	elem   *c17Ty
	fields []c17Field
}

var c17Builtins = []string{"string", "int", "float", "bool", "path", "file", "map"}

func (t *c17Ty) typeId() syntax.TypeId {
	switch t.kind {
	case 'a':
		id := t.elem.typeId()
		id.ArrayDim++
		return id
	case 'm':
		id := t.elem.typeId()
		if id.MapDim != 0 {
			panic("map of map")
		}
		return syntax.TypeId{Tname: id.Tname, MapDim: 1 + id.ArrayDim}
	default:
		return syntax.TypeId{Tname: t.name}
	}
}

func (t *c17Ty) mro() string { id := t.typeId(); return id.String() }

// enc is the driver's text encoding of the type.
func (t *c17Ty) enc() string {
	var sb strings.Builder
	t.encTo(&sb)
	return sb.String()
}

func (t *c17Ty) encTo(sb *strings.Builder) {
	switch t.kind {
	case 'b':
		sb.WriteString(t.name)
	case 'u':
		sb.WriteString("U " + hx(t.name))
	case 'a':
		sb.WriteString("A ")
		t.elem.encTo(sb)
	case 'm':
		sb.WriteString("M ")
		t.elem.encTo(sb)
	case 's':
		fmt.Fprintf(sb, "S %s %d", hx(t.name), len(t.fields))
		for _, f := range t.fields {
			sb.WriteString(" " + hx(f.id) + " ")
			f.t.encTo(sb)
		}
	}
}

// isMapInside: may not be the element of a typed map (grammar: map<nonmap_type[]…>)
func (t *c17Ty) isMapInside() bool {
	for t.kind == 'a' {
		t = t.elem
	}
	return t.kind == 'm' || (t.kind == 'b' && t.name == "map")
}

type c17Universe struct {
	src     string
	lookup  *syntax.TypeLookup
	bases   []*c17Ty // builtins, user types, structs (no wrappers)
	structs []*c17Ty
	types   []*c17Ty // bases + a selection of array / map wrappers
}

func (u *c17Universe) real(t *c17Ty) syntax.Type {
	r := u.lookup.Get(t.typeId())
	if r == nil {
		panic("type not found: " + t.mro())
	}
	return r
}

var c17FieldPool = []string{"a", "b", "c", "f1", "xs", "m1", "k", "out_1"}

func c17Wrap(rng *rand.Rand, b *c17Ty) *c17Ty {
	t := b
	k := rng.Intn(10)
	if b.isMapInside() && k >= 7 {
		k -= 3
	}
	switch k {
	case 0, 1, 2, 3: // plain
	case 4, 5:
		t = &c17Ty{kind: 'a', elem: t}
	case 6:
		t = &c17Ty{kind: 'a', elem: &c17Ty{kind: 'a', elem: t}}
	case 7:
		t = &c17Ty{kind: 'm', elem: t}
	case 8:
		t = &c17Ty{kind: 'm', elem: &c17Ty{kind: 'a', elem: t}}
		if rng.Intn(3) == 0 {
			t.elem = &c17Ty{kind: 'a', elem: t.elem}
		}
	default:
		t = &c17Ty{kind: 'a', elem: &c17Ty{kind: 'm', elem: t}}
		if rng.Intn(2) == 0 {
			t.elem.elem = &c17Ty{kind: 'a', elem: b}
		}
	}
	return t
}

// c17Derive returns a struct related to s: members dropped / added / coerced /
// reshaped, so that struct-from-struct assignability is exercised both ways.
func c17Derive(rng *rand.Rand, name string, s *c17Ty, bases []*c17Ty) *c17Ty {
	d := &c17Ty{kind: 's', name: name}
	for _, f := range s.fields {
		if len(s.fields) > 1 && rng.Intn(5) == 0 {
			continue // dropped
		}
		ft := f.t
		switch rng.Intn(8) {
		case 0: // coerce the innermost base
			ft = c17Coerce(rng, ft, bases)
		case 1: // reshape
			ft = c17Wrap(rng, c17Innermost(ft))
		}
		d.fields = append(d.fields, c17Field{f.id, ft})
	}
	if len(d.fields) == 0 {
		d.fields = append(d.fields, s.fields[0])
	}
	if rng.Intn(3) == 0 {
		for _, id := range c17FieldPool {
			used := false
			for _, f := range d.fields {
				used = used || f.id == id
			}
			if !used {
				d.fields = append(d.fields, c17Field{id, c17Wrap(rng, bases[rng.Intn(len(bases))])})
				break
			}
		}
	}
	rng.Shuffle(len(d.fields), func(i, j int) { d.fields[i], d.fields[j] = d.fields[j], d.fields[i] })
	return d
}

func c17Innermost(t *c17Ty) *c17Ty {
	for t.kind == 'a' || t.kind == 'm' {
		t = t.elem
	}
	return t
}

func c17Coerce(rng *rand.Rand, t *c17Ty, bases []*c17Ty) *c17Ty {
	switch t.kind {
	case 'a', 'm':
		e := c17Coerce(rng, t.elem, bases)
		if t.kind == 'm' && e.isMapInside() {
			e = t.elem
		}
		return &c17Ty{kind: t.kind, elem: e}
	}
	// pick a random other base; frequently one of the allowed coercions
	pick := func(names ...string) *c17Ty {
		n := names[rng.Intn(len(names))]
		for _, b := range bases {
			if b.name == n {
				return b
			}
		}
		return t
	}
	switch {
	case t.kind == 'b' && t.name == "int":
		return pick("float", "int", "string")
	case t.kind == 'b' && t.name == "string":
		return pick("file", "path", "txt", "string", "int")
	case t.kind == 'b' && t.name == "file":
		return pick("txt", "bam", "string", "path")
	case t.kind == 'u':
		return pick("file", "string", "txt", "bam", "path")
	case t.kind == 's':
		return pick("map", t.name)
	}
	return bases[rng.Intn(len(bases))]
}

// c17FixedStructs are always declared first: the types of the negative
// witnesses of Props/C17.lean (F9, F10, struct member shape).
const c17FixedSrc = `filetype txt;
filetype bam;

struct A(
    int a,
)

struct B(
    map m1,
)

struct C(
    map<int> m1,
)

struct FS(
    file f1,
    int[] xs,
)

struct SS(
    string f1,
    int[] xs,
    bool c,
)
`

func c17NewUniverse(rng *rand.Rand, nStructs int) (*c17Universe, error) {
	u := &c17Universe{}
	for _, b := range c17Builtins {
		u.bases = append(u.bases, &c17Ty{kind: 'b', name: b})
	}
	u.bases = append(u.bases, &c17Ty{kind: 'u', name: "txt"}, &c17Ty{kind: 'u', name: "bam"})
	byName := func(n string) *c17Ty {
		for _, b := range u.bases {
			if b.name == n {
				return b
			}
		}
		panic(n)
	}
	arr := func(t *c17Ty) *c17Ty { return &c17Ty{kind: 'a', elem: t} }
	tmap := func(t *c17Ty) *c17Ty { return &c17Ty{kind: 'm', elem: t} }
	fixed := []*c17Ty{
		{kind: 's', name: "A", fields: []c17Field{{"a", byName("int")}}},
		{kind: 's', name: "B", fields: []c17Field{{"m1", byName("map")}}},
		{kind: 's', name: "C", fields: []c17Field{{"m1", tmap(byName("int"))}}},
		{kind: 's', name: "FS", fields: []c17Field{{"f1", byName("file")}, {"xs", arr(byName("int"))}}},
		{kind: 's', name: "SS", fields: []c17Field{{"f1", byName("string")}, {"xs", arr(byName("int"))}, {"c", byName("bool")}}},
	}
	u.structs = append(u.structs, fixed...)
	u.bases = append(u.bases, fixed...)
	var src strings.Builder
	src.WriteString(c17FixedSrc)
	for i := 0; i < nStructs; i++ {
		name := fmt.Sprintf("S%d", i)
		var s *c17Ty
		if len(u.structs) > 0 && rng.Intn(2) == 0 {
			s = c17Derive(rng, name, u.structs[rng.Intn(len(u.structs))], u.bases)
		} else {
			s = &c17Ty{kind: 's', name: name}
			ids := append([]string{}, c17FieldPool...)
			rng.Shuffle(len(ids), func(i, j int) { ids[i], ids[j] = ids[j], ids[i] })
			n := 1 + rng.Intn(4)
			for j := 0; j < n; j++ {
				s.fields = append(s.fields, c17Field{ids[j], c17Wrap(rng, u.bases[rng.Intn(len(u.bases))])})
			}
		}
		fmt.Fprintf(&src, "\nstruct %s(\n", name)
		for _, f := range s.fields {
			fmt.Fprintf(&src, "    %s %s,\n", f.t.mro(), f.id)
		}
		src.WriteString(")\n")
		u.structs = append(u.structs, s)
		u.bases = append(u.bases, s)
	}
	u.src = src.String()
	_, _, ast, err := syntax.ParseSourceBytes([]byte(u.src), "c17_types.mro", nil, false)
	if err != nil {
		return u, err
	}
	u.lookup = &ast.TypeTable
	u.types = append(u.types, u.bases...)
	for _, b := range u.bases {
		u.types = append(u.types, arr(b))
		if !b.isMapInside() {
			u.types = append(u.types, tmap(b))
		}
		for k := 0; k < 2; k++ {
			u.types = append(u.types, c17Wrap(rng, b))
		}
	}
	u.types = append(u.types, arr(arr(arr(byName("int")))), tmap(arr(arr(byName("file")))),
		arr(tmap(arr(byName("float")))))
	return u, nil
}

// ---------------------------------------------------------------- JSON trees

// kind: 'n' null, 't' true, 'f' false, 'i' int literal, 'd' float literal
// (mant*10^exp as written), 's' string, 'a' array, 'o' object (source order)
type c17J struct {
	kind byte
	ival *big.Int // 'i' value, 'd' mantissa
	exp  int64
	str  string
	arr  []*c17J
	keys []string
}

func c17Null() *c17J { return &c17J{kind: 'n'} }

// c17ParseNumber splits a JSON number literal as written.
func c17ParseNumber(s string) (*c17J, error) {
	if !strings.ContainsAny(s, ".eE") {
		v, ok := new(big.Int).SetString(s, 10)
		if !ok {
			return nil, fmt.Errorf("bad int %q", s)
		}
		return &c17J{kind: 'i', ival: v}, nil
	}
	mant, exp := s, int64(0)
	if i := strings.IndexAny(s, "eE"); i >= 0 {
		e, err := strconv.ParseInt(s[i+1:], 10, 64)
		if err != nil {
			return nil, err
		}
		mant, exp = s[:i], e
	}
	if i := strings.IndexByte(mant, '.'); i >= 0 {
		exp -= int64(len(mant) - i - 1)
		mant = mant[:i] + mant[i+1:]
	}
	v, ok := new(big.Int).SetString(mant, 10)
	if !ok {
		return nil, fmt.Errorf("bad mantissa %q", s)
	}
	return &c17J{kind: 'd', ival: v, exp: exp}, nil
}

// c17ParseJSON builds the tree of a JSON text (member order and duplicates kept).
func c17ParseJSON(data []byte) (*c17J, error) {
	dec := json.NewDecoder(bytes.NewReader(data))
	dec.UseNumber()
	v, err := c17ParseValue(dec)
	if err != nil {
		return nil, err
	}
	if _, err := dec.Token(); err == nil {
		return nil, fmt.Errorf("trailing data")
	}
	return v, nil
}

func c17ParseValue(dec *json.Decoder) (*c17J, error) {
	tok, err := dec.Token()
	if err != nil {
		return nil, err
	}
	switch t := tok.(type) {
	case nil:
		return c17Null(), nil
	case bool:
		if t {
			return &c17J{kind: 't'}, nil
		}
		return &c17J{kind: 'f'}, nil
	case json.Number:
		return c17ParseNumber(string(t))
	case string:
		return &c17J{kind: 's', str: t}, nil
	case json.Delim:
		switch t {
		case '[':
			v := &c17J{kind: 'a'}
			for dec.More() {
				e, err := c17ParseValue(dec)
				if err != nil {
					return nil, err
				}
				v.arr = append(v.arr, e)
			}
			_, err := dec.Token()
			return v, err
		case '{':
			v := &c17J{kind: 'o'}
			for dec.More() {
				k, err := dec.Token()
				if err != nil {
					return nil, err
				}
				ks, ok := k.(string)
				if !ok {
					return nil, fmt.Errorf("bad key")
				}
				e, err := c17ParseValue(dec)
				if err != nil {
					return nil, err
				}
				v.keys = append(v.keys, ks)
				v.arr = append(v.arr, e)
			}
			_, err := dec.Token()
			return v, err
		}
	}
	return nil, fmt.Errorf("unexpected token %v", tok)
}

// enc is the driver's token encoding; sorted: object members by key (stable).
// enc(true) is the canonical form used for every comparison: last-wins normal
// form (what a decode into a Go map keeps of duplicated keys) with members sorted.
// enc(false) is the raw tree in source order.
func (v *c17J) enc(sorted bool) string {
	var sb strings.Builder
	if sorted {
		v = v.norm()
	}
	v.encTo(&sb, sorted)
	return sb.String()
}

// norm: every object, at every depth, in last-wins normal form (Lean: dedupLast).
func (v *c17J) norm() *c17J {
	c := *v
	c.arr, c.keys = nil, nil
	for i, e := range v.arr {
		if v.kind == 'o' {
			shadowed := false
			for j := i + 1; j < len(v.keys); j++ {
				shadowed = shadowed || v.keys[j] == v.keys[i]
			}
			if shadowed {
				continue
			}
			c.keys = append(c.keys, v.keys[i])
		}
		c.arr = append(c.arr, e.norm())
	}
	return &c
}

func (v *c17J) hasDup() bool {
	for i, e := range v.arr {
		if v.kind == 'o' {
			for j := i + 1; j < len(v.keys); j++ {
				if v.keys[j] == v.keys[i] {
					return true
				}
			}
		}
		if e.hasDup() {
			return true
		}
	}
	return false
}

// encModel: what is handed to the Lean model – the value as the real code decodes it
// (objects in last-wins normal form, member order kept).
func (v *c17J) encModel() string { return v.norm().enc(false) }

func (v *c17J) encTo(sb *strings.Builder, sorted bool) {
	switch v.kind {
	case 'n', 't', 'f':
		sb.WriteByte(v.kind)
	case 'i':
		sb.WriteString("i " + v.ival.String())
	case 'd':
		fmt.Fprintf(sb, "d %s %d", v.ival.String(), v.exp)
	case 's':
		sb.WriteString("s " + hx(v.str))
	case 'a':
		fmt.Fprintf(sb, "a %d", len(v.arr))
		for _, e := range v.arr {
			sb.WriteByte(' ')
			e.encTo(sb, sorted)
		}
	case 'o':
		fmt.Fprintf(sb, "o %d", len(v.arr))
		idx := make([]int, len(v.arr))
		for i := range idx {
			idx[i] = i
		}
		if sorted {
			sort.SliceStable(idx, func(a, b int) bool { return v.keys[idx[a]] < v.keys[idx[b]] })
		}
		for _, i := range idx {
			sb.WriteString(" " + hx(v.keys[i]) + " ")
			v.arr[i].encTo(sb, sorted)
		}
	}
}

// c17ParseEnc parses the driver's token encoding back into a tree.
func c17ParseEnc(toks []string) (*c17J, []string, error) {
	if len(toks) == 0 {
		return nil, nil, fmt.Errorf("empty")
	}
	bad := fmt.Errorf("bad encoding at %v", toks[:1])
	switch toks[0] {
	case "n", "t", "f":
		return &c17J{kind: toks[0][0]}, toks[1:], nil
	case "i":
		if len(toks) < 2 {
			return nil, nil, bad
		}
		v, ok := new(big.Int).SetString(toks[1], 10)
		if !ok {
			return nil, nil, bad
		}
		return &c17J{kind: 'i', ival: v}, toks[2:], nil
	case "d":
		if len(toks) < 3 {
			return nil, nil, bad
		}
		v, ok := new(big.Int).SetString(toks[1], 10)
		e, err := strconv.ParseInt(toks[2], 10, 64)
		if !ok || err != nil {
			return nil, nil, bad
		}
		return &c17J{kind: 'd', ival: v, exp: e}, toks[3:], nil
	case "s":
		if len(toks) < 2 {
			return nil, nil, bad
		}
		return &c17J{kind: 's', str: unhx(toks[1])}, toks[2:], nil
	case "a", "o":
		if len(toks) < 2 {
			return nil, nil, bad
		}
		n, err := strconv.Atoi(toks[1])
		if err != nil {
			return nil, nil, bad
		}
		v := &c17J{kind: toks[0][0]}
		rest := toks[2:]
		for i := 0; i < n; i++ {
			if v.kind == 'o' {
				if len(rest) == 0 {
					return nil, nil, bad
				}
				v.keys = append(v.keys, unhx(rest[0]))
				rest = rest[1:]
			}
			var e *c17J
			e, rest, err = c17ParseEnc(rest)
			if err != nil {
				return nil, nil, err
			}
			v.arr = append(v.arr, e)
		}
		return v, rest, nil
	}
	return nil, nil, bad
}

// ---------------------------------------------------------------- rendering

var c17Spaces = []string{" ", "  ", "\n", "\t", "\r\n", " \n\t "}

type c17Render struct {
	rng *rand.Rand
	ws  int // 0: compact, 1: sparse whitespace, 2: whitespace everywhere
}

func (r *c17Render) sp(sb *strings.Builder) {
	switch r.ws {
	case 1:
		if r.rng.Intn(4) == 0 {
			sb.WriteString(c17Spaces[r.rng.Intn(len(c17Spaces))])
		}
	case 2:
		sb.WriteString(c17Spaces[r.rng.Intn(len(c17Spaces))])
	}
}

func (r *c17Render) str(sb *strings.Builder, s string) {
	mode := r.rng.Intn(4)
	if mode == 1 {
		// raw: escape only what JSON requires; DEL, C1, astral runes and bytes that are
		// not valid UTF-8 are written as they are (the decoder turns the latter into U+FFFD)
		sb.WriteByte('"')
		for i := 0; i < len(s); i++ {
			switch c := s[i]; {
			case c == '"' || c == '\\':
				sb.WriteByte('\\')
				sb.WriteByte(c)
			case c < 0x20:
				fmt.Fprintf(sb, "\\u%04x", c)
			default:
				sb.WriteByte(c)
			}
		}
		sb.WriteByte('"')
		return
	}
	if mode == 0 {
		// escape everything that may be escaped
		sb.WriteByte('"')
		for _, c := range s {
			switch {
			case c == '"' || c == '\\':
				sb.WriteByte('\\')
				sb.WriteRune(c)
			case c == '/' && r.rng.Intn(2) == 0:
				sb.WriteString("\\/")
			case c < 0x20 || (c > 0x7e && c < 0x10000 && r.rng.Intn(2) == 0):
				fmt.Fprintf(sb, "\\u%04x", c)
			default:
				sb.WriteRune(c)
			}
		}
		sb.WriteByte('"')
		return
	}
	b, _ := json.Marshal(s)
	sb.Write(b)
}

// number text is kept verbatim in str for 'i'/'d' nodes built by the generator
func (r *c17Render) render(sb *strings.Builder, v *c17J) {
	switch v.kind {
	case 'n':
		sb.WriteString("null")
	case 't':
		sb.WriteString("true")
	case 'f':
		sb.WriteString("false")
	case 'i', 'd':
		sb.WriteString(v.str)
	case 's':
		r.str(sb, v.str)
	case 'a':
		sb.WriteByte('[')
		for i, e := range v.arr {
			if i > 0 {
				sb.WriteByte(',')
			}
			r.sp(sb)
			r.render(sb, e)
			r.sp(sb)
		}
		if len(v.arr) == 0 {
			r.sp(sb)
		}
		sb.WriteByte(']')
	case 'o':
		sb.WriteByte('{')
		for i, e := range v.arr {
			if i > 0 {
				sb.WriteByte(',')
			}
			r.sp(sb)
			r.str(sb, v.keys[i])
			r.sp(sb)
			sb.WriteByte(':')
			r.sp(sb)
			r.render(sb, e)
			r.sp(sb)
		}
		if len(v.arr) == 0 {
			r.sp(sb)
		}
		sb.WriteByte('}')
	}
}

// ---------------------------------------------------------------- generators

var c17Strings = []string{"", "x", "a b", "null", "1", "1.0", "true", "[]", "/p/a th", "é", "日本", "\U0001F600",
	"q\"uote", "back\\slash", "a/b", "tab\there", "<&>", "file.txt"}
var c17Keys = []string{"a", "b", "k1", "x y", "é", "K", "file.txt", "m1", "xs", "c", "f1", "-", "0"}
var c17BadKeys = []string{"a/b", "", ".", "..", "/", "x/", "nul\x00", "\x01/"}

// c17AdvKeys: legal file names that JSON, Go string literals and naive
// writers quote differently: control characters (JSON needs \u00XX, Go's
// strconv.Quote writes \a \v \x01), DEL, C1 controls, line separators, BOM,
// astral runes (printable and not), quotes / backslashes / HTML characters,
// bytes that are not valid UTF-8 (decoded as U+FFFD by encoding/json).
var c17AdvKeys = []string{"\x01", "bell\a", "vt\vx", "esc\x1b[0m", "us\x1f", "del\x7f", "c1\u0080", "c1\u009f",
	"nl\nk", "tab\tk", "cr\rk", "bs\bff\f", "q\"k", "b\\k", "b\\\"", "<k>&", "ls\u2028ps\u2029", "\ufeffbom",
	"\U0001F600", "tag\U000E0001", "\U0010FFFF", "nb\u00a0sp", "bad\xffbyte", "\xc3(", "\xed\xa0\x80", "\\u0041", "'"}
var c17IntTexts = []string{"0", "-0", "1", "-1", "7", "42", "2147483648", "9007199254740993", "9223372036854775807",
	"-9223372036854775808"}
var c17BigIntTexts = []string{"9223372036854775808", "123456789012345678901234567890", "-123456789012345678901234567890"}
var c17FloatTexts = []string{"1.0", "1e2", "1.5", "-0.0", "120e-1", "2.50", "1E+2", "0.1e1", "1e-1", "0.0", "3.14",
	"-2.5e3", "1e25", "9007199254740992.0", "1e-7", "100e-2", "-7.000", "0e0", "12.0E0", "5e-1"}

func c17Num(text string) *c17J {
	v, err := c17ParseNumber(text)
	if err != nil {
		panic(err)
	}
	v.str = text
	return v
}

func c17RandFloatText(rng *rand.Rand) string {
	var sb strings.Builder
	if rng.Intn(3) == 0 {
		sb.WriteByte('-')
	}
	sb.WriteString(strconv.Itoa(rng.Intn(100000)))
	frac := rng.Intn(3) > 0
	if frac {
		sb.WriteByte('.')
		n := 1 + rng.Intn(4)
		for i := 0; i < n; i++ {
			d := rng.Intn(10)
			if rng.Intn(2) == 0 {
				d = 0
			}
			sb.WriteByte(byte('0' + d))
		}
	}
	if !frac || rng.Intn(2) == 0 {
		sb.WriteByte("eE"[rng.Intn(2)])
		e := rng.Intn(13) - 6
		if e >= 0 && rng.Intn(2) == 0 {
			sb.WriteByte('+')
		}
		sb.WriteString(strconv.Itoa(e))
	}
	return sb.String()
}

func c17GenInt(rng *rand.Rand) *c17J {
	if rng.Intn(3) == 0 {
		return c17Num(c17IntTexts[rng.Intn(len(c17IntTexts))])
	}
	return c17Num(strconv.Itoa(rng.Intn(2000) - 1000))
}

func c17GenFloat(rng *rand.Rand) *c17J {
	switch rng.Intn(4) {
	case 0:
		return c17GenInt(rng)
	case 1:
		return c17Num(c17FloatTexts[rng.Intn(len(c17FloatTexts))])
	default:
		return c17Num(c17RandFloatText(rng))
	}
}

func c17GenString(rng *rand.Rand) *c17J {
	return &c17J{kind: 's', str: c17Strings[rng.Intn(len(c17Strings))]}
}

// arbitrary small JSON (for untyped `map` members and for garbage)
func c17GenAny(rng *rand.Rand, depth int) *c17J {
	k := rng.Intn(8)
	if depth <= 0 && k >= 6 {
		k = rng.Intn(6)
	}
	switch k {
	case 0:
		return c17Null()
	case 1:
		return &c17J{kind: "tf"[rng.Intn(2)]}
	case 2:
		return c17GenInt(rng)
	case 3:
		return c17GenFloat(rng)
	case 4, 5:
		return c17GenString(rng)
	case 6:
		v := &c17J{kind: 'a'}
		for n := rng.Intn(3); n > 0; n-- {
			v.arr = append(v.arr, c17GenAny(rng, depth-1))
		}
		return v
	default:
		return c17GenObj(rng, rng.Intn(3), func() *c17J { return c17GenAny(rng, depth-1) })
	}
}

func c17GenObj(rng *rand.Rand, n int, elem func() *c17J) *c17J {
	v := &c17J{kind: 'o'}
	pool := c17Keys
	if rng.Intn(3) == 0 {
		pool = append(append([]string{}, c17Keys...), c17AdvKeys...)
	}
	perm := rng.Perm(len(pool))
	for i := 0; i < n && i < len(perm); i++ {
		v.keys = append(v.keys, pool[perm[i]])
		v.arr = append(v.arr, elem())
	}
	return v
}

// c17ForceReencode walks type and value together and makes sure FilterJson
// has to rebuild the enclosing containers: int members become integral float
// literals (rewritten, soft) and struct objects get an undeclared member
// (dropped).  The result stays acceptable to the filter (never fatal).
func c17ForceReencode(rng *rand.Rand, t *c17Ty, v *c17J) {
	switch t.kind {
	case 'b':
		if t.name == "int" && v.kind == 'i' && v.ival.IsInt64() && len(v.str) < 12 && rng.Intn(2) == 0 {
			*v = *c17Num(v.str + []string{".0", "e0", ".00", "E+0"}[rng.Intn(4)])
		}
	case 'a':
		if v.kind == 'a' {
			for _, e := range v.arr {
				c17ForceReencode(rng, t.elem, e)
			}
		}
	case 'm':
		if v.kind == 'o' {
			for _, e := range v.arr {
				c17ForceReencode(rng, t.elem, e)
			}
		}
	case 's':
		if v.kind == 'o' {
			for i, k := range v.keys {
				for _, f := range t.fields {
					if f.id == k {
						c17ForceReencode(rng, f.t, v.arr[i])
					}
				}
			}
			if rng.Intn(2) == 0 {
				k := append([]string{"extra", "zz"}, c17AdvKeys...)[rng.Intn(2+len(c17AdvKeys))]
				dup := false
				for _, o := range v.keys {
					dup = dup || o == k
				}
				if !dup {
					v.keys = append(v.keys, k)
					v.arr = append(v.arr, c17GenAny(rng, 1))
				}
			}
		}
	}
}

// c17GenValid: a value the type is supposed to accept cleanly.
func c17GenValid(rng *rand.Rand, t *c17Ty, depth int) *c17J {
	if rng.Intn(12) == 0 {
		return c17Null()
	}
	switch t.kind {
	case 'b':
		switch t.name {
		case "string", "path", "file":
			return c17GenString(rng)
		case "int":
			return c17GenInt(rng)
		case "float":
			return c17GenFloat(rng)
		case "bool":
			return &c17J{kind: "tf"[rng.Intn(2)]}
		default:
			return c17GenObj(rng, rng.Intn(3), func() *c17J { return c17GenAny(rng, 1) })
		}
	case 'u':
		return c17GenString(rng)
	case 'a':
		v := &c17J{kind: 'a'}
		n := rng.Intn(4)
		if depth <= 0 {
			n = rng.Intn(2)
		}
		for ; n > 0; n-- {
			v.arr = append(v.arr, c17GenValid(rng, t.elem, depth-1))
		}
		return v
	case 'm':
		n := rng.Intn(4)
		if depth <= 0 {
			n = rng.Intn(2)
		}
		return c17GenObj(rng, n, func() *c17J { return c17GenValid(rng, t.elem, depth-1) })
	default:
		v := &c17J{kind: 'o'}
		for _, f := range t.fields {
			v.keys = append(v.keys, f.id)
			v.arr = append(v.arr, c17GenValid(rng, f.t, depth-1))
		}
		if rng.Intn(4) == 0 { // undeclared members are tolerated
			for n := 1 + rng.Intn(2); n > 0; n-- {
				k := []string{"extra", "zz", "a/b", "", "x y"}[rng.Intn(5)]
				dup := false
				for _, o := range v.keys {
					dup = dup || o == k
				}
				if !dup {
					v.keys = append(v.keys, k)
					v.arr = append(v.arr, c17GenAny(rng, 1))
				}
			}
		}
		rng.Shuffle(len(v.arr), func(i, j int) {
			v.arr[i], v.arr[j] = v.arr[j], v.arr[i]
			v.keys[i], v.keys[j] = v.keys[j], v.keys[i]
		})
		return v
	}
}

func (v *c17J) clone() *c17J {
	c := *v
	c.arr = make([]*c17J, len(v.arr))
	for i, e := range v.arr {
		c.arr[i] = e.clone()
	}
	c.keys = append([]string{}, v.keys...)
	return &c
}

func (v *c17J) nodes(out *[]*c17J) {
	*out = append(*out, v)
	for _, e := range v.arr {
		e.nodes(out)
	}
}

// c17Mutate applies one near-miss mutation at a random position (in place on a clone).
func c17Mutate(rng *rand.Rand, v *c17J) (*c17J, string) {
	v = v.clone()
	var ns []*c17J
	v.nodes(&ns)
	n := ns[rng.Intn(len(ns))]
	set := func(o *c17J) { *n = *o }
	for try := 0; try < 6; try++ {
		switch rng.Intn(13) {
		case 0:
			if n.kind == 'i' || n.kind == 'd' {
				set(&c17J{kind: 's', str: n.str})
				return v, "number-as-string"
			}
		case 1:
			if n.kind == 'i' {
				txt := n.str + []string{".0", "e0", ".5", ".000", "E+0", ".0e0"}[rng.Intn(6)]
				set(c17Num(txt))
				return v, "float-for-int"
			}
		case 2:
			if n.kind == 'i' || n.kind == 's' {
				set(c17Num([]string{"1.0", "1e2", "1.5", "-0.0", "120e-1", "1e25", "0.5e1"}[rng.Intn(7)]))
				return v, "float-literal"
			}
		case 3:
			c := *n
			set(&c17J{kind: 'a', arr: []*c17J{&c}})
			return v, "deeper"
		case 4:
			if n.kind == 'a' {
				if len(n.arr) > 0 {
					set(n.arr[0])
				} else {
					set(c17GenInt(rng))
				}
				return v, "shallower"
			}
		case 5:
			if n.kind == 'o' && len(n.arr) > 0 {
				i := rng.Intn(len(n.arr))
				n.arr = append(n.arr[:i], n.arr[i+1:]...)
				n.keys = append(n.keys[:i], n.keys[i+1:]...)
				return v, "missing-member"
			}
		case 6:
			if n.kind == 'o' {
				k := []string{"extra", "zz", "Q"}[rng.Intn(3)]
				if rng.Intn(2) == 0 {
					k = c17BadKeys[rng.Intn(len(c17BadKeys))]
				}
				dup := false
				for _, o := range n.keys {
					dup = dup || o == k
				}
				if !dup {
					var e *c17J
					if len(n.arr) > 0 && rng.Intn(2) == 0 {
						e = n.arr[rng.Intn(len(n.arr))].clone()
					} else {
						e = c17GenAny(rng, 1)
					}
					n.keys = append(n.keys, k)
					n.arr = append(n.arr, e)
					return v, "extra-member"
				}
			}
		case 7:
			set(c17Null())
			return v, "null"
		case 8:
			set(c17GenAny(rng, 1))
			return v, "other-value"
		case 9:
			if n.kind == 's' {
				set(c17GenInt(rng))
				return v, "int-for-string"
			}
		case 12:
			if n.kind == 'o' && len(n.arr) > 0 {
				// duplicate a key: the copy either shadows (appended last) or is shadowed (put first)
				i := rng.Intn(len(n.arr))
				var e *c17J
				if rng.Intn(2) == 0 {
					e = c17GenAny(rng, 1)
				} else {
					e = n.arr[rng.Intn(len(n.arr))].clone()
				}
				if rng.Intn(2) == 0 {
					n.keys = append(n.keys, n.keys[i])
					n.arr = append(n.arr, e)
					return v, "duplicate-key-last"
				}
				n.keys = append([]string{n.keys[i]}, n.keys...)
				n.arr = append([]*c17J{e}, n.arr...)
				return v, "duplicate-key-shadowed"
			}
		case 10:
			if n.kind == 'i' {
				set(c17Num(c17BigIntTexts[rng.Intn(len(c17BigIntTexts))]))
				return v, "int-out-of-range"
			}
		case 11:
			if n.kind == 'a' {
				o := &c17J{kind: 'o'}
				for i, e := range n.arr {
					o.keys = append(o.keys, strconv.Itoa(i))
					o.arr = append(o.arr, e)
				}
				set(o)
				return v, "object-for-array"
			} else if n.kind == 'o' {
				set(&c17J{kind: 'a', arr: n.arr})
				return v, "array-for-object"
			}
		}
	}
	set(&c17J{kind: "tf"[rng.Intn(2)]})
	return v, "bool"
}

// ---------------------------------------------------------------- the real code

type c17Go struct {
	check   string // ok | alarm | error
	ferr    string // ok | soft | fatal
	out     []byte
	outTree *c17J
	check2  string // validation of the filtered value
	out2    []byte
	panic   string
	detail  string
}

func c17Check(t syntax.Type, lk *syntax.TypeLookup, data []byte) (verdict, detail string) {
	var alarms strings.Builder
	err := t.IsValidJson(json.RawMessage(data), &alarms, lk)
	switch {
	case err != nil:
		return "error", err.Error()
	case alarms.Len() > 0:
		return "alarm", alarms.String()
	}
	return "ok", ""
}

func c17Filter(t syntax.Type, lk *syntax.TypeLookup, data []byte) ([]byte, string, string) {
	out, fatal, err := t.FilterJson(json.RawMessage(append([]byte{}, data...)), lk)
	switch {
	case fatal:
		d := "fatal without error"
		if err != nil {
			d = err.Error()
		}
		return out, "fatal", d
	case err != nil:
		return out, "soft", err.Error()
	}
	return out, "ok", ""
}

func c17RunGo(t syntax.Type, lk *syntax.TypeLookup, data []byte) (g c17Go) {
	defer func() {
		if p := recover(); p != nil {
			g.panic = fmt.Sprint(p)
		}
	}()
	g.check, g.detail = c17Check(t, lk, data)
	var d string
	g.out, g.ferr, d = c17Filter(t, lk, data)
	if g.detail == "" {
		g.detail = d
	}
	if tree, err := c17ParseJSON(g.out); err == nil {
		g.outTree = tree
	}
	g.check2, _ = c17Check(t, lk, bytes.TrimSpace(g.out))
	g.out2, _, _ = c17Filter(t, lk, g.out)
	return g
}

// c17Drops: r is v up to dropped (reordered) members and integral floats
// rewritten as int64 literals — computed on trees, independent of the model.
func c17Drops(r, v *c17J) bool {
	switch {
	case r.kind == 'i' && v.kind == 'd':
		// value equality and int64 range
		val := new(big.Int).Set(v.ival)
		if v.exp >= 0 {
			val.Mul(val, new(big.Int).Exp(big.NewInt(10), big.NewInt(v.exp), nil))
		} else {
			d := new(big.Int).Exp(big.NewInt(10), big.NewInt(-v.exp), nil)
			q, m := new(big.Int).QuoRem(val, d, new(big.Int))
			if m.Sign() != 0 {
				return false
			}
			val = q
		}
		return val.Cmp(r.ival) == 0 && r.ival.IsInt64()
	case r.kind != v.kind:
		return false
	}
	switch r.kind {
	case 'i':
		return r.ival.Cmp(v.ival) == 0
	case 'd':
		return r.ival.Cmp(v.ival) == 0 && r.exp == v.exp
	case 's':
		return r.str == v.str
	case 'a':
		if len(r.arr) != len(v.arr) {
			return false
		}
		for i := range r.arr {
			if !c17Drops(r.arr[i], v.arr[i]) {
				return false
			}
		}
		return true
	case 'o':
		for i, k := range r.keys {
			found := false
			for j, k2 := range v.keys {
				if k == k2 && c17Drops(r.arr[i], v.arr[j]) {
					found = true
					break
				}
			}
			if !found {
				return false
			}
		}
		return true
	}
	return true
}

// c17RoundingSensitive: the value contains a number literal on which Go's
// detour through float64 (FilterJson for int; float range) can differ from
// exact decimal arithmetic, which is what the exact-decimal model
// (Martian.Types) uses: EXACTLY the literals that are no float64 value
// (strconv.ParseFloat rounds them, or reports ErrRange) – the complement of
// the model's Num.exact64, with which it is compared on every run (c17Numerals).
// An integer-syntax literal within int64 never takes the detour.  Such cases
// are compared with the rounded-numeral model (Martian.TypesR) only.
func c17RoundingSensitive(v *c17J) bool {
	switch v.kind {
	case 'i':
		if v.ival.IsInt64() {
			return false
		}
		text := v.ival.String()
		f, err := strconv.ParseFloat(text, 64)
		return err != nil || !c17ExactDecimalEq(text, f)
	case 'd':
		if v.ival.Sign() == 0 {
			return false
		}
		if v.exp > 5000 || v.exp < -5000 {
			return true
		}
		text := fmt.Sprintf("%se%d", v.ival.String(), v.exp)
		f, err := strconv.ParseFloat(text, 64)
		return err != nil || !c17ExactDecimalEq(text, f)
	}
	for _, e := range v.arr {
		if c17RoundingSensitive(e) {
			return true
		}
	}
	return false
}

// c17MembersOK: at every struct-typed position of a filtered value the object
// has exactly the declared members (only meaningful for non-fatal results).
func c17MembersOK(t *c17Ty, v *c17J) bool {
	switch t.kind {
	case 'a':
		if v.kind == 'a' {
			for _, e := range v.arr {
				if !c17MembersOK(t.elem, e) {
					return false
				}
			}
		}
	case 'm':
		if v.kind == 'o' {
			for _, e := range v.arr {
				if !c17MembersOK(t.elem, e) {
					return false
				}
			}
		}
	case 's':
		if v.kind == 'o' {
			if len(v.arr) != len(t.fields) {
				return false
			}
			for _, f := range t.fields {
				found := false
				for i, k := range v.keys {
					if k == f.id {
						found = true
						if !c17MembersOK(f.t, v.arr[i]) {
							return false
						}
					}
				}
				if !found {
					return false
				}
			}
		}
	}
	return true
}

func c17RootShape(t *c17Ty, v *c17J) bool {
	switch t.kind {
	case 'a':
		return v.kind == 'a'
	case 'm', 's':
		return v.kind == 'o'
	}
	return false
}

// ---------------------------------------------------------------- the run

type c17Case struct {
	u    *c17Universe
	t    *c17Ty
	v    *c17J
	text []byte
	how  string
	src  *c17Ty // the type the value was generated for (fva stream)
}

func (cs *c17Case) describe() map[string]interface{} {
	m := map[string]interface{}{"type": cs.t.mro(), "type_enc": cs.t.enc(), "json": string(cs.text),
		"json_hex": hex.EncodeToString(cs.text), "generator": cs.how, "mro_source": cs.u.src}
	if cs.src != nil {
		m["valid_for_type"] = cs.src.mro()
	}
	return m
}

func runC17(c *Ctx) {
	r := c.Res
	r.Rule = "types: generated MRO source (2 filetypes, 5 fixed + N random/derived structs; arrays up to 3 dims, typed maps of arrays, arrays of maps, structs of structs) compiled by the real compiler; values: type-directed valid JSON, one or two near-miss mutations at random positions (number-as-string, float-for-int, deeper/shallower nesting, missing/extra member, illegal map key, null, other value, out-of-range int, object/array swap), values valid for an assignable source type; rendered compact or with random whitespace and string escapes. Each case: real IsValidJson/FilterJson (+ second FilterJson, + IsValidJson of the result) vs Lean check/filter (verdict enums, output trees with sorted members); monitors on the real code: idempotence, only-drops, null accepted, filter-valid-of-assignable; assignability: full builtin x user table and all ordered pairs of a universe's types vs Lean, reflexivity, array/map/struct component rules. non-trivial = filter output differs from its input, or validation is not clean although the root has the declared container shape; distinct = distinct (type, JSON text)"
	nUniverses, perUniverse := 16, 5000
	if c.Thorough {
		nUniverses, perUniverse = 100, 14000
	}

	// ---- corpus: lines `<mro type>\t<json text>` evaluated in the fixed universe ----
	fixedU, err := c17NewUniverse(rand.New(rand.NewSource(1)), 0)
	if err != nil {
		r.violate(Violation{Kind: "correspondence", Key: "C17:fixed-universe-does-not-compile",
			What: "the fixed MRO type declarations no longer compile: " + err.Error(), Input: c17FixedSrc,
			Broken: "correspondence C17 (type construction)"})
		return
	}
	var cases []*c17Case
	for _, line := range readCorpusLines(c.Corpus) {
		parts := strings.SplitN(line, "\t", 2)
		if len(parts) != 2 {
			continue
		}
		var id syntax.TypeId
		if id.UnmarshalText([]byte(parts[0])) != nil {
			continue
		}
		t := c17FromTypeId(fixedU, id)
		v, err := c17ParseJSON([]byte(parts[1]))
		if t == nil || err != nil {
			r.note("corpus line skipped: %q", line)
			continue
		}
		cases = append(cases, &c17Case{u: fixedU, t: t, v: v, text: []byte(parts[1]), how: "corpus"})
	}
	c17Witnesses(c, fixedU)
	c17RunCases(c, cases)
	nnum := 6000
	if c.Thorough {
		nnum = 60000
	}
	c17Numerals(c, fixedU, nnum)
	nbytes := 4000
	if c.Thorough {
		nbytes = 60000
	}
	c17ParseBytes(c, nbytes)

	for ui := 0; ui < nUniverses; ui++ {
		u := fixedU
		if ui > 0 {
			u, err = c17NewUniverse(c.Rng, 3+c.Rng.Intn(6))
			if err != nil {
				r.violate(Violation{Kind: "correspondence", Key: "C17:generated-types-do-not-compile",
					What: "generated MRO type declarations rejected: " + err.Error(), Input: u.src,
					Broken: "correspondence C17 (type construction)"})
				continue
			}
		}
		r.hist("universes")
		c17Assignability(c, u)
		c17RunCases(c, c17GenCases(c, u, perUniverse))
	}
}

func c17FromTypeId(u *c17Universe, id syntax.TypeId) *c17Ty {
	var b *c17Ty
	for _, x := range u.bases {
		if x.name == id.Tname {
			b = x
		}
	}
	if b == nil {
		return nil
	}
	t := b
	if id.MapDim > 0 {
		for i := int16(1); i < id.MapDim; i++ {
			t = &c17Ty{kind: 'a', elem: t}
		}
		t = &c17Ty{kind: 'm', elem: t}
	}
	for i := int16(0); i < id.ArrayDim; i++ {
		t = &c17Ty{kind: 'a', elem: t}
	}
	return t
}

func c17GenCases(c *Ctx, u *c17Universe, n int) []*c17Case {
	rng := c.Rng
	var cases []*c17Case
	// assignable (dst, src) pairs of this universe according to the real code
	type pair struct{ d, s *c17Ty }
	var pairs []pair
	for _, d := range u.types {
		for _, s := range u.types {
			if d != s && u.real(d).IsAssignableFrom(u.real(s), u.lookup) == nil {
				pairs = append(pairs, pair{d, s})
			}
		}
	}
	for i := 0; i < n; i++ {
		t := u.types[rng.Intn(len(u.types))]
		cs := &c17Case{u: u, t: t}
		switch k := rng.Intn(22); {
		case k >= 20:
			// a container that must be rebuilt, with adversarial keys
			for try := 0; try < 8 && !(cs.t.kind != 'b' && cs.t.kind != 'u' && u.real(cs.t).CanFilter()); try++ {
				cs.t = u.types[rng.Intn(len(u.types))]
			}
			cs.v, cs.how = c17GenValid(rng, cs.t, 3), "valid-forcing-reencode"
			c17ForceReencode(rng, cs.t, cs.v)
		case k < 8:
			cs.v, cs.how = c17GenValid(rng, t, 3), "valid"
		case k < 14:
			cs.v, cs.how = c17Mutate(rng, c17GenValid(rng, t, 3))
		case k < 16:
			v, h1 := c17Mutate(rng, c17GenValid(rng, t, 3))
			v, h2 := c17Mutate(rng, v)
			cs.v, cs.how = v, h1+"+"+h2
		case k < 19 && len(pairs) > 0:
			p := pairs[rng.Intn(len(pairs))]
			cs.t, cs.src = p.d, p.s
			cs.v, cs.how = c17GenValid(rng, p.s, 3), "valid-for-assignable-source"
		default:
			cs.v, cs.how = c17GenAny(rng, 2), "garbage"
		}
		rd := c17Render{rng: rng, ws: rng.Intn(3)}
		var sb strings.Builder
		rd.render(&sb, cs.v)
		cs.text = []byte(sb.String())
		// single source of truth for the tree: the text
		tree, err := c17ParseJSON(cs.text)
		if err != nil {
			c.Res.note("generator produced unparsable JSON %q: %v", cs.text, err)
			continue
		}
		cs.v = tree
		cases = append(cases, cs)
	}
	return cases
}

func c17RunCases(c *Ctx, cases []*c17Case) {
	const chunk = 2000
	for lo := 0; lo < len(cases); lo += chunk {
		hi := lo + chunk
		if hi > len(cases) {
			hi = len(cases)
		}
		reqs := make([][]string, 0, 2*(hi-lo))
		for _, cs := range cases[lo:hi] {
			reqs = append(reqs, []string{"C17.case", cs.t.enc(), cs.v.encModel()})
			reqs = append(reqs, []string{"C17.caser", cs.t.enc(), cs.v.encModel()})
			reqs = append(reqs, []string{"C17.filterb", cs.t.enc(), hx(string(cs.text))})
		}
		reps := c.Drv.AskBatch(reqs)
		for i, cs := range cases[lo:hi] {
			c17Judge(c, cs, reps[3*i]+"\x01"+reps[3*i+1]+"\x02"+reps[3*i+2], true)
		}
	}
}

// c17AskBoth: the replies of the exact-decimal model and of the rounded-numeral model.
func c17AskBoth(c *Ctx, cs *c17Case) string {
	return c.Drv.Ask("C17.case", cs.t.enc(), cs.v.encModel()) + "\x01" +
		c.Drv.Ask("C17.caser", cs.t.enc(), cs.v.encModel()) + "\x02" +
		c.Drv.Ask("C17.filterb", cs.t.enc(), hx(string(cs.text)))
}

// c17Judge compares one case; returns the keys of the failures found.
func c17Judge(c *Ctx, cs *c17Case, reply string, report bool) []string {
	r := c.Res
	var fails []string
	fail := func(v Violation) {
		fails = append(fails, v.Key)
		if report {
			if v.Input == nil {
				v.Input = cs.describe()
			}
			c17Report(c, cs, v)
		}
	}
	rt := cs.u.real(cs.t)
	g := c17RunGo(rt, cs.u.lookup, cs.text)
	if g.panic != "" {
		fail(Violation{Kind: "property", Key: "C17:panic", What: "IsValidJson/FilterJson panicked: " + g.panic})
		return fails
	}
	replyR, replyB := "", ""
	if i := strings.IndexByte(reply, 2); i >= 0 {
		reply, replyB = reply[:i], reply[i+1:]
	}
	if i := strings.IndexByte(reply, 1); i >= 0 {
		reply, replyR = reply[:i], reply[i+1:]
	}
	toks := strings.Split(reply, " ")
	if len(toks) < 4 {
		fail(Violation{Kind: "correspondence", Key: "C17:driver-reply", What: "driver reply " + reply,
			Broken: "correspondence C17.case"})
		return fails
	}
	mTree, rest, err := c17ParseEnc(toks[3:])
	if err != nil || len(rest) != 0 {
		fail(Violation{Kind: "correspondence", Key: "C17:driver-reply", What: "driver reply " + reply,
			Broken: "correspondence C17.case"})
		return fails
	}
	if report {
		in := cs.v.enc(true)
		changed := g.outTree != nil && g.outTree.enc(true) != in
		nontrivial := changed || (g.check != "ok" && c17RootShape(cs.t, cs.v))
		r.count(cs.t.enc()+"\x00"+string(cs.text), nontrivial)
		r.hist("gen:" + strings.SplitN(cs.how, "+", 2)[0])
		r.hist("check:" + g.check)
		r.hist("filter:" + g.ferr)
		r.hist("root:" + string(cs.t.kind))
		if cs.v.hasDup() {
			r.hist("has-duplicate-key")
		}
		if changed {
			r.hist("filter-changed-value")
		}
		if !bytes.Equal(g.out, bytes.TrimSpace(cs.text)) {
			r.hist("filter-reencoded")
		}
		if r.Evals%1499 == 0 {
			r.sample(map[string]string{"type": cs.t.mro(), "json": string(cs.text), "generator": cs.how,
				"go_check": g.check, "go_filter": g.ferr, "go_filtered": string(g.out)})
		}
	}
	// ---- correspondence ----
	// (skipped where IEEE rounding of a numeral decides: outside the model, see c17RoundingSensitive;
	//  the property monitors below still run, keyed separately)
	sens := c17RoundingSensitive(cs.v)
	sfx := ""
	if sens {
		sfx = ":float64-rounding"
		if report {
			r.hist("float64-rounding-sensitive")
		}
	}
	if g.outTree == nil {
		fail(Violation{Kind: "property", Key: "C17:filter-output-not-json",
			What: "FilterJson returned bytes that do not parse as JSON", Impl: string(g.out)})
		return fails
	}
	if !sens {
		if toks[0] != g.check {
			fail(Violation{Kind: "correspondence", Key: "C17:check-mismatch",
				What: fmt.Sprintf("IsValidJson verdict differs from the model (%s vs %s): %s", g.check, toks[0], g.detail),
				Impl: g.check, Model: toks[0], Broken: "correspondence C17.case (Martian.Types.check)"})
		}
		if toks[1] != g.ferr {
			fail(Violation{Kind: "correspondence", Key: "C17:filter-verdict-mismatch",
				What: fmt.Sprintf("FilterJson error class differs from the model (%s vs %s): %s", g.ferr, toks[1], g.detail),
				Impl: g.ferr, Model: toks[1], Broken: "correspondence C17.case (Martian.Types.filter)"})
		}
		// On a fatal error the returned bytes are unspecified (e.g. StructType.FilterJson returns
		// its input when the member count happens to match although a member is missing): the
		// model's value is compared only for ok / soft results; the error class is always compared.
		if me, ge := mTree.enc(true), g.outTree.enc(true); me != ge && g.ferr != "fatal" {
			fail(Violation{Kind: "correspondence", Key: "C17:filter-output-mismatch",
				What: "FilterJson output differs (as a tree) from the model's",
				Impl: string(g.out), Model: me, Broken: "correspondence C17.case (Martian.Types.filter)"})
		}
		if toks[2] != g.check2 && g.ferr != "fatal" {
			fail(Violation{Kind: "correspondence", Key: "C17:check-of-filtered-mismatch",
				What: fmt.Sprintf("IsValidJson of the filtered value differs from the model (%s vs %s)", g.check2, toks[2]),
				Impl: g.check2, Model: toks[2], Broken: "correspondence C17.case (Martian.Types.check)"})
		}
	}
	// ---- correspondence with the model over numerals as Go reads them (Martian.TypesR):
	//      EVERY case, rounding-sensitive numerals included ----
	if replyR != "" {
		tr := strings.Split(replyR, " ")
		var mTreeR *c17J
		if len(tr) >= 4 {
			var restR []string
			var perr error
			mTreeR, restR, perr = c17ParseEnc(tr[3:])
			if perr != nil || len(restR) != 0 {
				mTreeR = nil
			}
		}
		if mTreeR == nil {
			fail(Violation{Kind: "correspondence", Key: "C17:driver-reply", What: "driver reply " + replyR,
				Broken: "correspondence C17.caser"})
			return fails
		}
		if report && sens {
			r.hist("float64-rounding-sensitive-compared-with-rounded-model")
		}
		if tr[0] != g.check {
			fail(Violation{Kind: "correspondence", Key: "C17:rounded:check-mismatch",
				What: fmt.Sprintf("IsValidJson verdict differs from the rounded-numeral model (%s vs %s): %s", g.check, tr[0], g.detail),
				Impl: g.check, Model: tr[0], Broken: "correspondence C17.caser (Martian.TypesR.check)"})
		}
		if tr[1] != g.ferr {
			fail(Violation{Kind: "correspondence", Key: "C17:rounded:filter-verdict-mismatch",
				What: fmt.Sprintf("FilterJson error class differs from the rounded-numeral model (%s vs %s): %s", g.ferr, tr[1], g.detail),
				Impl: g.ferr, Model: tr[1], Broken: "correspondence C17.caser (Martian.TypesR.filter)"})
		}
		if me, ge := mTreeR.enc(true), g.outTree.enc(true); me != ge && g.ferr != "fatal" {
			fail(Violation{Kind: "correspondence", Key: "C17:rounded:filter-output-mismatch",
				What: "FilterJson output differs (as a tree) from the rounded-numeral model's",
				Impl: string(g.out), Model: me, Broken: "correspondence C17.caser (Martian.TypesR.filter)"})
		}
		if tr[2] != g.check2 && g.ferr != "fatal" {
			fail(Violation{Kind: "correspondence", Key: "C17:rounded:check-of-filtered-mismatch",
				What: fmt.Sprintf("IsValidJson of the filtered value differs from the rounded-numeral model (%s vs %s)", g.check2, tr[2]),
				Impl: g.check2, Model: tr[2], Broken: "correspondence C17.caser (Martian.TypesR.check)"})
		}
	}
	// ---- BYTES: the returned message, byte for byte, vs the byte-level model of the splicing
	//      (Martian.JsonBytes.filterBytes: fast path returns the input slice, otherwise re-encoding) ----
	if replyB != "" {
		c17JudgeBytes(cs, &g, replyB, report, r, fail)
	}
	// ---- martian/core: LazyArgumentMap.Path("", …) = LazyArgumentMap.filter(dest) ----
	// Same value as dest.FilterJson of the object (struct: declared members only; typed
	// map: every member filtered).  Its error is stricter for structs (members whose type
	// cannot filter are still passed through FilterJson), so only `no error => model ok`
	// is compared there; for typed maps the error is compared both ways.
	if !sens && (cs.t.kind == 's' || cs.t.kind == 'm') && cs.v.kind == 'o' && rt.CanFilter() {
		var args core.LazyArgumentMap
		if err := json.Unmarshal(cs.text, &args); err == nil && args != nil {
			res, perr := func() (m json.Marshaler, err error) {
				defer func() {
					if p := recover(); p != nil {
						err = fmt.Errorf("panic: %v", p)
					}
				}()
				return args.Path("", nil, rt, cs.u.lookup)
			}()
			if report {
				r.hist("core-path-filter")
			}
			okModel := toks[1] == "ok"
			var b []byte
			var pt *c17J
			if res != nil {
				var merr, jerr error
				b, merr = res.MarshalJSON()
				pt, jerr = c17ParseJSON(b)
				if perr == nil && (merr != nil || jerr != nil) {
					fail(Violation{Kind: "property", Key: "C17:core-path-invalid-json",
						What: fmt.Sprintf("LazyArgumentMap.Path(\"\") (filter to the type) returns no error but its result does not marshal to valid JSON: %s", b),
						Impl: string(b), Expect: "an error, or valid JSON"})
					pt = nil
				}
			}
			if (perr == nil && !okModel) || (cs.t.kind == 'm' && perr != nil && okModel) {
				fail(Violation{Kind: "correspondence", Key: "C17:core-path-verdict-mismatch",
					What: fmt.Sprintf("LazyArgumentMap.Path(\"\") error (%v) disagrees with the model's filter error class %s", perr, toks[1]),
					Impl: fmt.Sprint(perr), Model: toks[1], Broken: "correspondence C17 core.LazyArgumentMap.filter"})
			}
			if toks[1] != "fatal" && (pt == nil || pt.enc(true) != mTree.enc(true)) {
				fail(Violation{Kind: "correspondence", Key: "C17:core-path-output-mismatch",
					What: "LazyArgumentMap.Path(\"\") result differs (as a tree) from the model's filter",
					Impl: string(b), Model: mTree.enc(true), Broken: "correspondence C17 core.LazyArgumentMap.filter"})
			}
		}
	}
	// ---- property monitors on the real code ----
	if t2, err := c17ParseJSON(g.out2); err != nil || t2.enc(true) != g.outTree.enc(true) {
		fail(Violation{Kind: "property", Key: "C17:idempotence" + sfx,
			What: "filtering the filtered value changes it again", Impl: string(g.out2), Expect: string(g.out)})
	}
	if g.ferr != "fatal" && !c17Drops(g.outTree, cs.v) {
		fail(Violation{Kind: "property", Key: "C17:only-drops" + sfx,
			What: "FilterJson changed more than dropping members / rewriting integral floats",
			Impl: string(g.out), Expect: string(cs.text)})
	}
	if g.ferr != "fatal" && !c17MembersOK(cs.t, g.outTree.norm()) {
		fail(Violation{Kind: "property", Key: "C17:struct-members" + sfx,
			What: "a (non-fatally) filtered value has a struct-typed position whose members are not exactly the declared ones",
			Impl: string(g.out)})
	}
	if g.check == "ok" && g.ferr != "ok" {
		fail(Violation{Kind: "property", Key: "C17:valid-but-filter-error" + sfx,
			What: "a value that validates cleanly is filtered (to the same type) with an error: " + g.detail,
			Impl: g.ferr, Expect: "ok"})
	}
	if g.check == "ok" && g.check2 != "ok" {
		fail(Violation{Kind: "property", Key: "C17:filter-invalidates-valid-value" + sfx,
			What: "a value that validates cleanly does not validate after filtering to the same type",
			Impl: string(g.out)})
	}
	if cs.src != nil {
		rs := cs.u.real(cs.src)
		if sv, _ := c17Check(rs, cs.u.lookup, cs.text); sv == "ok" {
			r.hist("fva-evaluated")
			// narrowing chain on the real code: filter to the source type, then to the
			// destination, versus filtering to the destination directly
			o1, _, _ := c17Filter(rs, cs.u.lookup, cs.text)
			o2, _, _ := c17Filter(rt, cs.u.lookup, o1)
			if t2, err := c17ParseJSON(o2); err != nil || t2.enc(true) != g.outTree.enc(true) {
				rep := c.Drv.Ask("C17.assign", cs.t.enc(), cs.src.enc())
				if f := strings.Split(rep, " "); len(f) == 4 && f[3] == "false" {
					if report {
						r.hist("chain-differs:not-pureNarrow")
					}
				} else {
					fail(Violation{Kind: "property", Key: "C17:narrowing-chain" + sfx,
						What: fmt.Sprintf("value valid for %s: filtering to %s and then to %s differs from filtering to %s directly although the assignment is a pure narrowing",
							cs.src.mro(), cs.src.mro(), cs.t.mro(), cs.t.mro()),
						Impl: string(o2), Expect: string(g.out)})
				}
			} else if report {
				r.hist("chain-agrees")
			}
			if g.check2 != "ok" {
				// classify by the model: is this (dst, src) pair one of the known holes?
				rep := c.Drv.Ask("C17.assign", cs.t.enc(), cs.src.enc())
				f := strings.Split(rep, " ")
				key := "C17:fva:unexpected" + sfx
				if len(f) == 4 && f[1] == "false" {
					key = "C17:fva:F9"
					if strings.Contains(f[2], "F10") {
						key = "C17:fva:F10"
					}
				}
				_, why := c17Check(rt, cs.u.lookup, bytes.TrimSpace(g.out))
				fail(Violation{Kind: "property", Key: key,
					What: fmt.Sprintf("value valid for %s, %s is assignable from it, but the value filtered to %s does not validate: %s",
						cs.src.mro(), cs.t.mro(), cs.t.mro(), why),
					Impl: string(g.out), Expect: "clean validation"})
			}
		}
	}
	return fails
}

// c17Report shrinks the JSON value for unexpected failures, then records the violation.
func c17Report(c *Ctx, cs *c17Case, v Violation) {
	known := strings.HasPrefix(v.Key, "C17:fva:F")
	if !known {
		n := 0
		for _, o := range c.Res.Violations {
			if o.Key == v.Key {
				n++
			}
		}
		if n == 0 { // shrink only the first of a class
			min := c17Shrink(c, cs, v.Key)
			if min != nil {
				v.Input = min.describe()
				v.What += fmt.Sprintf(" (shrunk to %s)", min.text)
			}
		}
	}
	c.Res.violate(v)
}

func c17Shrink(c *Ctx, cs *c17Case, key string) *c17Case {
	fails := func(v *c17J) *c17Case {
		rd := c17Render{rng: c.Rng, ws: 0}
		var sb strings.Builder
		rd.render(&sb, v)
		tree, err := c17ParseJSON([]byte(sb.String()))
		if err != nil {
			return nil
		}
		n := &c17Case{u: cs.u, t: cs.t, v: tree, text: []byte(sb.String()), how: cs.how + "+shrunk", src: cs.src}
		rep := c17AskBoth(c, n)
		for _, k := range c17Judge(c, n, rep, false) {
			if k == key {
				return n
			}
		}
		return nil
	}
	// number nodes need their text: rebuild it from the tree
	var fix func(v *c17J)
	fix = func(v *c17J) {
		if v.kind == 'i' {
			v.str = v.ival.String()
		} else if v.kind == 'd' {
			v.str = v.ival.String() + "e" + strconv.FormatInt(v.exp, 10)
			if v.ival.Sign() == 0 {
				v.str = "0e" + strconv.FormatInt(v.exp, 10)
			}
		}
		for _, e := range v.arr {
			fix(e)
		}
	}
	cur := cs.v.clone()
	fix(cur)
	best := fails(cur)
	if best == nil {
		return nil
	}
	for changed, rounds := true, 0; changed && rounds < 20; rounds++ {
		changed = false
		var ns []*c17J
		cur.nodes(&ns)
		for _, n := range ns {
			// delete children one at a time
			for i := 0; i < len(n.arr); {
				saveA, saveK := n.arr, n.keys
				n.arr = append(append([]*c17J{}, saveA[:i]...), saveA[i+1:]...)
				if n.kind == 'o' {
					n.keys = append(append([]string{}, saveK[:i]...), saveK[i+1:]...)
				}
				if b := fails(cur); b != nil {
					best, changed = b, true
				} else {
					n.arr, n.keys = saveA, saveK
					i++
				}
			}
			if n.kind != 'n' && n != cur {
				save := *n
				*n = *c17Null()
				if b := fails(cur); b != nil {
					best, changed = b, true
				} else {
					*n = save
				}
			}
		}
	}
	return best
}

// c17Witnesses replays the negative witnesses of Props/C17.lean on the real
// code and checks null acceptance (also with padding) for the fixed types.
func c17Witnesses(c *Ctx, u *c17Universe) {
	get := func(s string) *c17Ty {
		var id syntax.TypeId
		if err := id.UnmarshalText([]byte(s)); err != nil {
			panic(err)
		}
		t := c17FromTypeId(u, id)
		if t == nil {
			panic("no type " + s)
		}
		return t
	}
	fva := func(d, s, text string) {
		cs := &c17Case{u: u, t: get(d), src: get(s), text: []byte(text), how: "witness"}
		cs.v, _ = c17ParseJSON(cs.text)
		rep := c17AskBoth(c, cs)
		keys := c17Judge(c, cs, rep, true)
		c.Res.note("witness %s <- %s on %s: real code reports %v", d, s, text, keys)
	}
	fva("map<file>", "map<string>", `{"a/b":"x"}`)                   // F9  (f9_map_file_from_map_string)
	fva("map<int>", "A", `{"a":1,"x":"s"}`)                          // F10 (f10_map_from_struct_extra_member)
	fva("map<FS>", "map<SS>", `{"a/b":{"f1":"x","xs":[],"c":true}}`) // F9 through structs
	fva("FS", "SS", `{"f1":"x","xs":[1,2],"c":true,"zz":1}`)         // no hole: must hold
	fva("map", "A", `{"a":1,"x":null}`)                              // chain_fails_map_from_struct (not a pure narrowing)
	// the compiler guarantees Ty.wf: a struct with a duplicated member name is rejected
	if _, _, _, err := syntax.ParseSourceBytes([]byte("struct DUP(\n    int a,\n    string a,\n)\n"),
		"c17_dup.mro", nil, false); err == nil {
		c.Res.violate(Violation{Kind: "property", Key: "C17:duplicate-member-accepted",
			What:  "the compiler accepts a struct with two members of the same name (the theorems assume Ty.wf)",
			Input: "struct DUP(int a, string a)"})
	} else {
		c.Res.hist("wf:duplicate-member-rejected-by-compiler")
	}
}

// c17Assignability: every ordered pair of the universe's types (and the full
// builtin/user table) against the model, plus the component rules on the real code.
func c17Assignability(c *Ctx, u *c17Universe) {
	r := c.Res
	types := u.types
	asg := func(d, s *c17Ty) bool { return u.real(d).IsAssignableFrom(u.real(s), u.lookup) == nil }
	// info: file kind, CanFilter, TypeId shape; null (plain and padded) accepted
	var reqs [][]string
	for _, t := range types {
		reqs = append(reqs, []string{"C17.info", t.enc()})
	}
	for i, rep := range c.Drv.AskBatch(reqs) {
		t := types[i]
		rt := u.real(t)
		fk := rt.IsFile()
		kind := map[syntax.FileKind]string{syntax.KindIsNotFile: "notFile", syntax.KindMayContainPaths: "mayContainPaths",
			syntax.KindIsFile: "file", syntax.KindIsDirectory: "directory"}[fk]
		id := rt.TypeId()
		want := fmt.Sprintf("%s %v true %d %d", kind, rt.CanFilter(), id.ArrayDim, id.MapDim)
		r.count("info\x00"+t.enc(), false)
		if rep != want {
			r.violate(Violation{Kind: "correspondence", Key: "C17:info-mismatch",
				What:  "IsFile / CanFilter / TypeId shape differ from the model (fileKind canFilter wf arrayDim mapDim)",
				Input: map[string]string{"type": t.mro(), "type_enc": t.enc(), "mro_source": u.src},
				Impl:  want, Model: rep, Broken: "correspondence C17.info (fileKind, canFilter, dims)"})
		}
		if v, d := c17Check(rt, u.lookup, []byte("null")); v != "ok" {
			r.violate(Violation{Kind: "property", Key: "C17:null-rejected", What: "null does not validate cleanly: " + d,
				Input: map[string]string{"type": t.mro(), "json": "null", "mro_source": u.src}})
		}
		for _, padded := range []string{" null", "null\n", "\t null "} {
			if v, d := c17Check(rt, u.lookup, []byte(padded)); v != "ok" {
				key := "C17:padded-null-rejected"
				if t.kind == 's' {
					key = "C17:padded-null-rejected:struct"
				}
				r.violate(Violation{Kind: "property", Key: key,
					What:  "null surrounded by whitespace does not validate cleanly: " + d,
					Input: map[string]string{"type": t.mro(), "json": padded, "mro_source": u.src}})
				break
			}
		}
		if !asg(t, t) {
			r.violate(Violation{Kind: "property", Key: "C17:assign-not-reflexive", What: "type is not assignable from itself",
				Input: map[string]string{"type": t.mro(), "mro_source": u.src}})
		}
	}
	// all ordered pairs vs the model
	reqs = reqs[:0]
	type pr struct{ d, s *c17Ty }
	var prs []pr
	for _, d := range types {
		for _, s := range types {
			prs = append(prs, pr{d, s})
			reqs = append(reqs, []string{"C17.assign", d.enc(), s.enc()})
		}
	}
	arr := func(t *c17Ty) *c17Ty { return &c17Ty{kind: 'a', elem: t} }
	tmap := func(t *c17Ty) *c17Ty { return &c17Ty{kind: 'm', elem: t} }
	for i, rep := range c.Drv.AskBatch(reqs) {
		d, s := prs[i].d, prs[i].s
		got := asg(d, s)
		r.count("assign\x00"+d.enc()+"\x00"+s.enc(), d.kind != 'b' || s.kind != 'b')
		if got {
			r.hist("assignable-pairs")
			if f := strings.Split(rep, " "); len(f) == 4 {
				r.hist("assignable-pairs:noHole=" + f[1])
				r.hist("assignable-pairs:pureNarrow=" + f[3])
			}
		} else {
			r.hist("non-assignable-pairs")
		}
		if f := strings.Split(rep, " "); len(f) != 4 || f[0] != fmt.Sprint(got) {
			r.violate(Violation{Kind: "correspondence", Key: "C17:assign-mismatch",
				What:  "IsAssignableFrom differs from the model",
				Input: map[string]string{"dst": d.mro(), "src": s.mro(), "dst_enc": d.enc(), "src_enc": s.enc(), "mro_source": u.src},
				Impl:  fmt.Sprint(got), Model: rep, Broken: "correspondence C17.assign (Martian.Types.assignable)"})
		}
		// component rules on the real code
		in := map[string]string{"dst": d.mro(), "src": s.mro(), "mro_source": u.src}
		if asg(arr(d), arr(s)) != got {
			r.violate(Violation{Kind: "property", Key: "C17:assign-array-components",
				What: "d[] assignable from s[] differs from d assignable from s", Input: in})
		}
		if !d.isMapInside() && !s.isMapInside() && asg(tmap(d), tmap(s)) != got {
			r.violate(Violation{Kind: "property", Key: "C17:assign-map-components",
				What: "map<d> assignable from map<s> differs from d assignable from s", Input: in})
		}
		if d.kind == 's' && s.kind == 's' {
			comp, shape := true, true
			for _, f := range d.fields {
				var o *c17Ty
				for _, g := range s.fields {
					if g.id == f.id {
						o = g.t
					}
				}
				if o == nil || !asg(f.t, o) {
					comp = false
				} else if a, b := f.t.typeId(), o.typeId(); a.ArrayDim != b.ArrayDim || a.MapDim != b.MapDim {
					shape = false
				}
			}
			switch {
			case got && !comp:
				r.violate(Violation{Kind: "property", Key: "C17:assign-struct-without-components",
					What: "struct assignable although a member is missing or not assignable", Input: in})
			case !got && comp && shape:
				r.violate(Violation{Kind: "property", Key: "C17:assign-struct-components",
					What: "struct not assignable although every member is present, assignable and of the same shape", Input: in})
			case !got && comp && !shape:
				r.violate(Violation{Kind: "property", Key: "C17:assign-struct-member-shape",
					What:  "struct not assignable although every member of the destination is present in the source with an assignable type (member (ArrayDim, MapDim) shapes differ, e.g. map <- map<int>)",
					Input: in, Impl: "not assignable", Expect: "assignable (component-wise)"})
			}
		}
	}
}
