package main

// C09 — formatting is idempotent and preserves the program.
//
//  1. correspondence: quoteString / unquoteBytes (verif exports) vs the Lean
//     model; (*Pipeline).topoSort vs the Lean topoSort on generated call graphs;
//  2. property monitors on the real FormatSrcBytes: output re-parses, second
//     format = first, AST unchanged up to call order, no comment lost (and none
//     duplicated when every comment precedes a node), on the repo's .mro files,
//     generated programs and parsable mutants;
//  3. include graphs (diamond, nested directories): the combined source that
//     ParseSourceBytes returns compiles alone to an equivalent AST.

import (
	"bytes"
	"fmt"
	"math"
	"os"
	"path/filepath"
	"regexp"
	"sort"
	"strconv"
	"strings"
	"time"
	"unicode/utf8"

	"github.com/martian-lang/martian/martian/syntax"
)

func init() { register("C09", runC09) }

// ---------- canonical AST dump (exported fields only; no locations, no comments) ----------

func c09Type(t syntax.TypeId) string {
	return fmt.Sprintf("%s/a%d/m%d", t.Tname, t.ArrayDim, t.MapDim)
}

func c09Exp(e syntax.Exp) string {
	switch x := e.(type) {
	case nil:
		return "<nil>"
	case *syntax.IntExp:
		return "i" + strconv.FormatInt(x.Value, 10)
	case *syntax.FloatExp:
		// an integral float is printed without '.', so it comes back as an int: documented
		if x.Value == math.Trunc(x.Value) && math.Abs(x.Value) < 1e15 {
			return "i" + strconv.FormatInt(int64(x.Value), 10)
		}
		return "f" + strconv.FormatUint(math.Float64bits(x.Value), 16)
	case *syntax.StringExp:
		return "s" + strconv.Quote(x.Value)
	case *syntax.BoolExp:
		return "b" + strconv.FormatBool(x.Value)
	case *syntax.NullExp:
		return "null"
	case *syntax.ArrayExp:
		parts := make([]string, len(x.Value))
		for i, v := range x.Value {
			parts[i] = c09Exp(v)
		}
		return "[" + strings.Join(parts, ",") + "]"
	case *syntax.MapExp:
		keys := make([]string, 0, len(x.Value))
		for k := range x.Value {
			keys = append(keys, k)
		}
		sort.Strings(keys)
		parts := make([]string, len(keys))
		for i, k := range keys {
			parts[i] = strconv.Quote(k) + ":" + c09Exp(x.Value[k])
		}
		return string(x.Kind) + "{" + strings.Join(parts, ",") + "}"
	case *syntax.RefExp:
		return fmt.Sprintf("ref(%s,%s,%s)", x.Kind, x.Id, x.OutputId)
	case *syntax.SplitExp:
		return "split(" + c09Exp(x.Value) + ")"
	default:
		return fmt.Sprintf("<%T>", e)
	}
}

func c09Binds(b *syntax.BindStms) string {
	if b == nil {
		return "-"
	}
	parts := make([]string, len(b.List))
	for i, s := range b.List {
		parts[i] = s.Id + "=" + c09Exp(s.Exp)
	}
	return "(" + strings.Join(parts, ";") + ")"
}

func c09Call(c *syntax.CallStm) string {
	if c == nil {
		return "-"
	}
	m := "-"
	if c.Modifiers != nil {
		// `call local X()` and `call X() using (local = true)` are the same program:
		// the formatter always writes the second form.
		l, p, v := c.Modifiers.Local, c.Modifiers.Preflight, c.Modifiers.Volatile
		var rest []string
		if b := c.Modifiers.Bindings; b != nil {
			for _, s := range b.List {
				if be, ok := s.Exp.(*syntax.BoolExp); ok && (s.Id == "local" || s.Id == "preflight" || s.Id == "volatile") {
					// a binding overrides the keyword (giving both is a compile error)
					switch s.Id {
					case "local":
						l = be.Value
					case "preflight":
						p = be.Value
					default:
						v = be.Value
					}
					continue
				}
				rest = append(rest, s.Id+"="+c09Exp(s.Exp))
			}
		}
		sort.Strings(rest)
		m = fmt.Sprintf("L%v,P%v,V%v,%s", l, p, v, strings.Join(rest, ";"))
	}
	return fmt.Sprintf("call %s as %s map=%v mods[%s] %s", c.DecId, c.Id, c.Mapping != nil, m, c09Binds(c.Bindings))
}

func c09InParams(p *syntax.InParams) string {
	if p == nil {
		return "-"
	}
	parts := make([]string, len(p.List))
	for i, x := range p.List {
		parts[i] = fmt.Sprintf("in %s %s %q", c09Type(x.Tname), x.Id, x.Help)
	}
	return strings.Join(parts, ";")
}

func c09OutParams(p *syntax.OutParams) string {
	if p == nil {
		return "-"
	}
	parts := make([]string, len(p.List))
	for i, x := range p.List {
		parts[i] = fmt.Sprintf("out %s %s %q %q", c09Type(x.Tname), x.Id, x.Help, x.OutName)
	}
	return strings.Join(parts, ";")
}

func c09Dump(a *syntax.Ast, sortCalls bool) []string {
	var out []string
	for _, inc := range a.Includes {
		out = append(out, "include "+strconv.Quote(inc.Value))
	}
	for _, t := range a.UserTypes {
		out = append(out, "filetype "+t.Id)
	}
	for _, s := range a.StructTypes {
		parts := make([]string, len(s.Members))
		for i, m := range s.Members {
			parts[i] = fmt.Sprintf("%s %s %q %q", c09Type(m.Tname), m.Id, m.Help, m.OutName)
		}
		out = append(out, "struct "+s.Id+"("+strings.Join(parts, ";")+")")
	}
	for _, s := range a.Stages {
		var sb strings.Builder
		fmt.Fprintf(&sb, "stage %s(%s|%s)", s.Id, c09InParams(s.InParams), c09OutParams(s.OutParams))
		if s.Src != nil {
			fmt.Fprintf(&sb, " src %s %q", s.Src.Lang, append([]string{s.Src.Path}, s.Src.Args...))
		}
		fmt.Fprintf(&sb, " split=%v(%s|%s)", s.Split, c09InParams(s.ChunkIns), c09OutParams(s.ChunkOuts))
		if r := s.Resources; r != nil {
			fmt.Fprintf(&sb, " using(t=%v%g,m=%v%g,v=%v%g,s=%v%q,vol=%v%v)", r.ThreadNode != nil, r.Threads, r.MemNode != nil, r.MemGB,
				r.VMemNode != nil, r.VMemGB, r.SpecialNode != nil, r.Special, r.VolatileNode != nil, r.StrictVolatile)
		}
		if s.Retain != nil {
			sb.WriteString(" retain(")
			for _, p := range s.Retain.Params {
				sb.WriteString(p.Id + ",")
			}
			sb.WriteString(")")
		}
		out = append(out, sb.String())
	}
	for _, p := range a.Pipelines {
		var sb strings.Builder
		fmt.Fprintf(&sb, "pipeline %s(%s|%s){", p.Id, c09InParams(p.InParams), c09OutParams(p.OutParams))
		calls := make([]string, len(p.Calls))
		for i, c := range p.Calls {
			calls[i] = c09Call(c)
		}
		if sortCalls {
			sort.Strings(calls)
		}
		sb.WriteString(strings.Join(calls, " || "))
		if p.Ret != nil {
			sb.WriteString(" return" + c09Binds(p.Ret.Bindings))
		}
		if p.Retain != nil {
			sb.WriteString(" retain(")
			for _, r := range p.Retain.Refs {
				sb.WriteString(c09Exp(r) + ",")
			}
			sb.WriteString(")")
		}
		sb.WriteString("}")
		out = append(out, sb.String())
	}
	if a.Call != nil {
		out = append(out, "TOP "+c09Call(a.Call))
	}
	return out
}

func c09DiffDump(a, b []string) string {
	for i := 0; i < len(a) || i < len(b); i++ {
		var x, y string
		if i < len(a) {
			x = a[i]
		}
		if i < len(b) {
			y = b[i]
		}
		if x != y {
			return fmt.Sprintf("entry %d:\n  before: %s\n  after:  %s", i, x, y)
		}
	}
	return ""
}

// comments of a source text, via the real tokenizer
func c09Comments(src []byte) []string {
	var out []string
	pos := 0
	for pos < len(src) {
		id, v := syntax.VerifNextToken(src[pos:])
		if len(v) == 0 {
			break
		}
		if id == syntax.VerifTokCOMMENT {
			out = append(out, string(bytes.TrimSpace(v)))
		}
		pos += len(v)
	}
	sort.Strings(out)
	return out
}

func c09Parse(src []byte, path string) (ast *syntax.Ast, err error, panicked string) {
	defer func() {
		if p := recover(); p != nil {
			panicked = fmt.Sprint(p)
		}
	}()
	var ps syntax.Parser
	ast, err = ps.UncheckedParse(src, path)
	return
}

func c09Format(src []byte, path string) (out string, err error, panicked string) {
	defer func() {
		if p := recover(); p != nil {
			panicked = fmt.Sprint(p)
		}
	}()
	out, err = syntax.FormatSrcBytes(src, path, false, nil)
	return
}

// c09CheckFormat runs the formatter monitors on one source; returns violation keys.
// strictComments: every comment of the source precedes a node in its scope, so none may be duplicated either.
func c09CheckFormat(c *Ctx, src []byte, path, origin string, strictComments bool, report bool) []string {
	r := c.Res
	var keys []string
	add := func(key, what string, extra map[string]interface{}) {
		keys = append(keys, key)
		if !report {
			return
		}
		in := map[string]interface{}{"source": string(src), "source_go_quoted": strconv.Quote(string(src)), "origin": origin}
		for k, v := range extra {
			in[k] = v
		}
		r.violate(Violation{Kind: "property", Key: key, What: what, Input: in,
			Expect: "formatter output parses, is a fixed point, denotes the same program, keeps every comment"})
	}
	ast0, err, pan := c09Parse(src, path)
	if pan != "" || err != nil || ast0 == nil {
		r.hist("format:input-rejected")
		return nil
	}
	d0 := c09Dump(ast0, true)
	out1, err, pan := c09Format(src, path)
	if pan != "" {
		add("C09:format-panic:"+c08Norm(pan), "FormatSrcBytes panicked on a source the parser accepts: "+pan, nil)
		return keys
	}
	if err != nil {
		add("C09:format-error", "FormatSrcBytes failed on a source UncheckedParse accepts: "+err.Error(), nil)
		return keys
	}
	r.hist("format:formatted")
	ast1, err, pan := c09Parse([]byte(out1), path)
	if pan != "" || err != nil || ast1 == nil {
		msg := pan
		if err != nil {
			msg = err.Error()
		}
		cls := c09Class(ast0)
		if cls != "other" {
			// known special class decides
		} else if strings.Contains(string(src), "src ") && (bytes.Contains(src, []byte(`\"`)) || bytes.Contains(src, []byte(`\\`))) {
			cls = "escape-in-src-or-include"
		} else if bytes.Contains(src, []byte("@include")) {
			cls = "escape-in-src-or-include"
		}
		add("C09:reparse:"+cls, "formatter output is rejected by the parser: "+msg, map[string]interface{}{"formatted": out1})
		return keys
	}
	d1 := c09Dump(ast1, true)
	if diff := c09DiffDump(d0, d1); diff != "" {
		cls := c09Class(ast0)
		add("C09:ast-changed:"+cls, "formatting changed the program: "+diff, map[string]interface{}{"formatted": out1})
	}
	out2, err, pan := c09Format([]byte(out1), path)
	if pan != "" || err != nil {
		add("C09:second-format-failed", "formatting the formatter's output failed: "+pan+fmt.Sprint(err), map[string]interface{}{"formatted": out1})
	} else if out2 != out1 {
		cls := c09Class(ast0)
		if cls == "other" && c09NoBlank(out1) == c09NoBlank(out2) {
			cls = "blank-lines-only"
		} else if cls == "other" && !strictComments && len(c09Comments(src)) > 0 {
			cls = "comments"
		}
		add("C09:not-idempotent:"+cls, "format(format(x)) differs from format(x)", map[string]interface{}{"formatted": out1, "formatted_twice": out2})
	}
	c0, c1 := c09Comments(src), c09Comments([]byte(out1))
	// multiset inclusion c0 ⊆ c1
	j := 0
	var lost []string
	for _, x := range c0 {
		for j < len(c1) && c1[j] < x {
			j++
		}
		if j < len(c1) && c1[j] == x {
			j++
		} else {
			lost = append(lost, x)
		}
	}
	if len(lost) > 0 {
		key := "C09:comment-lost"
		if c09EmptyUsingRe.Match(src) {
			key = "C09:comment-lost:empty-using-block"
		}
		add(key, fmt.Sprintf("comment text lost by the formatter: %q", lost), map[string]interface{}{"formatted": out1})
	} else if strictComments && len(c1) != len(c0) {
		add("C09:comment-duplicated", fmt.Sprintf("%d comments in, %d comments out", len(c0), len(c1)), map[string]interface{}{"formatted": out1})
	}
	return keys
}

// c09Class names the known special class a program falls in (used in violation keys)
func c09Class(a *syntax.Ast) string {
	// first: the only known class whose output does not re-parse (a program can hold a huge
	// resource value AND e.g. an invalid-UTF-8 string)
	for _, st := range a.Stages {
		if r := st.Resources; r != nil {
			for _, v := range []float32{r.Threads, r.MemGB, r.VMemGB} {
				if v > 1e12 || v < -1e12 || v != v {
					return "huge-resource"
				}
			}
		}
	}
	if c09HasInvalidString(a) {
		return "invalid-utf8-string"
	}
	negZero := false
	var walk func(e syntax.Exp)
	walk = func(e syntax.Exp) {
		switch x := e.(type) {
		case *syntax.FloatExp:
			if x.Value == 0 && math.Signbit(x.Value) {
				negZero = true
			}
		case *syntax.ArrayExp:
			for _, v := range x.Value {
				walk(v)
			}
		case *syntax.MapExp:
			for _, v := range x.Value {
				walk(v)
			}
		case *syntax.SplitExp:
			walk(x.Value)
		}
	}
	binds := func(b *syntax.BindStms) {
		if b != nil {
			for _, s := range b.List {
				walk(s.Exp)
			}
		}
	}
	calls := append([]*syntax.CallStm{}, a.Call)
	for _, p := range a.Pipelines {
		calls = append(calls, p.Calls...)
		if p.Ret != nil {
			binds(p.Ret.Bindings)
		}
	}
	for _, c := range calls {
		if c != nil {
			binds(c.Bindings)
			if c.Modifiers != nil {
				binds(c.Modifiers.Bindings)
			}
		}
	}
	if negZero {
		return "negative-zero"
	}
	return "other"
}

var c09EmptyUsingRe = regexp.MustCompile(`using\s*\(\s*(#[^\n]*\n\s*)+\)`)

func c09NoBlank(s string) string {
	var out []string
	for _, l := range strings.Split(s, "\n") {
		if strings.TrimSpace(l) != "" {
			out = append(out, l)
		}
	}
	return strings.Join(out, "\n")
}

func c09HasInvalidString(a *syntax.Ast) bool {
	for _, l := range c09Dump(a, false) {
		if !utf8.ValidString(l) || strings.Contains(l, `\x`) {
			// strconv.Quote writes invalid bytes as \xNN
			return true
		}
	}
	return false
}

// ---------- program generator ----------

var c09StrVals = []string{`""`, `"a"`, `"a b"`, `"x\ty"`, `"q\"uote"`, `"back\\slash"`, `"new\nline"`, `"\u00e9"`, `"é"`, `"😀"`,
	`"\U0001F600"`, `"\x41"`, `"\101"`, `"\a\b\f\r\v"`, `"\u2028"`, `"\u0001"`, `"/path/to/x.txt"`, `"#not a comment"`, `"\u007f"`, `"tab	raw"`}

var c09NumVals = []string{"0", "1", "-1", "42", "9223372036854775807", "-9223372036854775808", "1.5", "-0.25", "1e3", "1.0", "2.50",
	"1e21", "1e-7", "1.7976931348623157e308", "4.9e-324", "0.1", "123456789.125", "1e15", "1e16", "100.0", "-0.0", "0.0"}

type c09Gen struct {
	c  *Ctx
	sb strings.Builder
}

func (g *c09Gen) pick(xs []string) string { return xs[g.c.Rng.Intn(len(xs))] }

func (g *c09Gen) comment(indent string) {
	for g.c.Rng.Intn(4) == 0 {
		fmt.Fprintf(&g.sb, "%s# c%d %s\n", indent, g.c.Rng.Intn(1000), g.pick([]string{"note", "é", "\"quoted\"", "# double", "trailing  ", ""}))
	}
}

func (g *c09Gen) val(depth int) string {
	switch k := g.c.Rng.Intn(10); {
	case k < 3:
		return g.pick(c09NumVals)
	case k < 5:
		return g.pick(c09StrVals)
	case k == 5:
		return g.pick([]string{"true", "false", "null"})
	case k == 6 && depth < 3:
		n := g.c.Rng.Intn(4)
		parts := make([]string, n)
		for i := range parts {
			parts[i] = g.val(depth + 1)
		}
		s := "[" + strings.Join(parts, ", ")
		if n > 0 && g.c.Rng.Intn(2) == 0 {
			s += ","
		}
		return s + "]"
	case k == 7 && depth < 3:
		n := g.c.Rng.Intn(3)
		parts := make([]string, n)
		for i := range parts {
			parts[i] = fmt.Sprintf("%s: %s", strings.Replace(g.pick(c09StrVals), `""`, fmt.Sprintf(`"k%d"`, i), 1), g.val(depth+1))
		}
		return "{" + strings.Join(parts, ", ") + "}"
	case k == 8 && depth < 3:
		n := 1 + g.c.Rng.Intn(2)
		parts := make([]string, n)
		for i := range parts {
			parts[i] = fmt.Sprintf("f%d: %s", i, g.val(depth+1))
		}
		return "{" + strings.Join(parts, ", ") + "}"
	default:
		return g.pick([]string{"self.a", "self.a.b", "S0", "S0.o", "S0.o.x", "S1.default"})
	}
}

func (g *c09Gen) typ() string {
	t := g.pick([]string{"int", "float", "string", "bool", "path", "map", "file", "txt", "json.gz", "PAIR", "map<int>", "map<txt[]>"})
	return t + strings.Repeat("[]", g.c.Rng.Intn(3)/2*(1+g.c.Rng.Intn(2)))
}

func (g *c09Gen) params(nIn, nOut int, prefix string) {
	for i := 0; i < nIn; i++ {
		g.comment("    ")
		help := ""
		if g.c.Rng.Intn(3) == 0 {
			help = " " + g.pick(c09StrVals)
		}
		fmt.Fprintf(&g.sb, "    in  %s %s%d%s,\n", g.typ(), prefix, i, help)
	}
	for i := 0; i < nOut; i++ {
		g.comment("    ")
		switch g.c.Rng.Intn(5) {
		case 0:
			fmt.Fprintf(&g.sb, "    out %s,\n", g.typ())
		case 1:
			fmt.Fprintf(&g.sb, "    out %s o%s%d %s %s,\n", g.typ(), prefix, i, g.pick(c09StrVals), g.pick([]string{`"out.txt"`, `"o\"x"`, `"é.bin"`, `""`}))
		case 2:
			fmt.Fprintf(&g.sb, "    out %s o%s%d %s,\n", g.typ(), prefix, i, g.pick(c09StrVals))
		default:
			fmt.Fprintf(&g.sb, "    out %s o%s%d,\n", g.typ(), prefix, i)
		}
	}
}

func (g *c09Gen) program() string {
	g.sb.Reset()
	rng := g.c.Rng
	g.comment("")
	if rng.Intn(3) == 0 {
		g.sb.WriteString("filetype txt;\nfiletype json.gz;\n\n")
	}
	if rng.Intn(3) == 0 {
		g.comment("")
		g.sb.WriteString("struct PAIR(\n")
		g.comment("    ")
		fmt.Fprintf(&g.sb, "    int a %s,\n    string b,\n)\n\n", g.pick(c09StrVals))
	}
	nStages := 1 + rng.Intn(3)
	for s := 0; s < nStages; s++ {
		g.comment("")
		fmt.Fprintf(&g.sb, "stage S%d(\n", s)
		g.params(1+rng.Intn(3), rng.Intn(3), "x")
		g.comment("    ")
		fmt.Fprintf(&g.sb, "    src %s %s,\n", g.pick([]string{"py", "exec", "comp"}), g.pick([]string{`"stages/s"`, `"bin/s -v --k=v"`, `"s   a    b"`, `"é"`}))
		if rng.Intn(3) == 0 {
			g.sb.WriteString(") split using (\n")
			g.params(rng.Intn(2), rng.Intn(2), "c")
		}
		if rng.Intn(2) == 0 {
			g.sb.WriteString(") using (\n")
			if rng.Intn(2) == 0 {
				g.comment("    ")
				fmt.Fprintf(&g.sb, "    mem_gb = %s,\n", g.pick([]string{"1", "2.5", "0.001", "0.5", "16", "1e2", "3.3", "0", "1000000"}))
			}
			if rng.Intn(2) == 0 {
				fmt.Fprintf(&g.sb, "    threads = %s,\n", g.pick([]string{"1", "2", "0.5", "1.25", "0.009", "16"}))
			}
			if rng.Intn(3) == 0 {
				fmt.Fprintf(&g.sb, "    vmem_gb = %s,\n", g.pick([]string{"4", "0.7", "12.125"}))
			}
			if rng.Intn(3) == 0 {
				fmt.Fprintf(&g.sb, "    special = %s,\n", g.pick(c09StrVals))
			}
			if rng.Intn(3) == 0 {
				fmt.Fprintf(&g.sb, "    volatile = %s,\n", g.pick([]string{"strict", "false"}))
			}
		}
		if rng.Intn(4) == 0 {
			g.sb.WriteString(") retain (\n    ox0,\n")
		}
		g.sb.WriteString(")\n\n")
	}
	if rng.Intn(5) != 0 {
		g.comment("")
		g.sb.WriteString("pipeline P(\n")
		g.params(1+rng.Intn(2), 1+rng.Intn(2), "p")
		g.sb.WriteString(")\n{\n")
		nCalls := 1 + rng.Intn(4)
		for k := 0; k < nCalls; k++ {
			g.comment("    ")
			mods := ""
			for _, m := range []string{" local", " preflight", " volatile"} {
				if rng.Intn(6) == 0 {
					mods += m
				}
			}
			isMap := rng.Intn(4) == 0
			head := "call"
			if isMap {
				head = "map call"
			}
			fmt.Fprintf(&g.sb, "    %s%s S%d as K%d(\n", head, mods, rng.Intn(nStages), k)
			nb := 1 + rng.Intn(3)
			for b := 0; b < nb; b++ {
				g.comment("        ")
				v := g.val(0)
				if k+1 < nCalls && rng.Intn(3) == 0 {
					v = fmt.Sprintf("K%d.o", k+1+rng.Intn(nCalls-k-1)) // forward reference: forces reordering
				}
				if isMap && b == 0 {
					v = "split " + g.pick([]string{"[1, 2]", `{"a": 1}`, "self.p0", "K0.o"})
				}
				fmt.Fprintf(&g.sb, "        x%d = %s,\n", b, v)
			}
			if rng.Intn(5) == 0 {
				g.sb.WriteString("        *  = self,\n")
			}
			g.sb.WriteString("    )")
			if rng.Intn(4) == 0 {
				g.sb.WriteString(" using (\n")
				g.comment("        ")
				fmt.Fprintf(&g.sb, "        %s,\n    )", g.pick([]string{"local = true", "volatile = false", "preflight = true", "disabled = self.p0", "disabled = K0.flag"}))
			}
			g.sb.WriteString("\n")
		}
		g.comment("    ")
		g.sb.WriteString("    return (\n")
		g.comment("        ")
		fmt.Fprintf(&g.sb, "        op0 = %s,\n    )\n", g.val(1))
		if rng.Intn(4) == 0 {
			g.sb.WriteString("    retain (\n        K0.o,\n    )\n")
		}
		g.sb.WriteString("}\n\n")
	}
	if rng.Intn(2) == 0 {
		g.comment("")
		fmt.Fprintf(&g.sb, "call %s(\n", g.pick([]string{"P", "S0"}))
		g.comment("    ")
		fmt.Fprintf(&g.sb, "    xp0 = %s,\n", g.val(0))
		if rng.Intn(2) == 0 {
			fmt.Fprintf(&g.sb, "    y = %s,\n", g.val(0))
		}
		g.sb.WriteString(")\n")
	}
	return g.sb.String()
}

// ---------- main ----------

func runC09(c *Ctx) {
	r := c.Res
	r.Rule = "(1) strings: corpus + every single byte + PRNG mixes of escapes-worthy ASCII, control bytes, multi-byte runes (incl. U+2028/9, surrogate-range and >U+10FFFF encodings) and invalid bytes: Go quoteString vs Lean quoteString (bytes), and unquoteBytes(quoteString s) = s on the real code for valid UTF-8 (non-trivial = has a byte that is escaped or non-ASCII). (2) topoSort: pipelines of 1..9 calls over random dependency graphs (DAGs, forward/backward references, occasional cycles): real (*Pipeline).topoSort order vs Lean topoSort, plus permutation / dependency order / second-run-is-identity monitors (non-trivial = at least one call must move). (3) FormatSrcBytes on the repo's .mro files, generated programs (comments before declarations/params/bindings/calls, every literal form, modifiers, resources, retains, map calls, forward references) and parsable C08-style mutants: re-parse, fixed point, AST dump equal up to call order, comment multiset (non-trivial = formatter changed the text). (4) include graphs: diamond + nested directories, combined source compiles alone to an equivalent AST. (5) value expressions: generated expression ASTs (depth <= 4, about 80% well-formed, the rest with NaN/Inf/-0, invalid UTF-8, reserved or non-identifier keys and references, nil arrays; prefix \"\", four spaces or blanks+tab): syntax.FormatExp vs the Lean printer for all of them, Parser.ParseValExp on the printed text vs the Lean reader for all of them, and for those the model calls well-formed the real text re-parses to the normalised AST (nil array -> null, integral float -> int) and prints to the same text again (non-trivial = the text has a line break, an escape or a reference); then near-miss texts (printed texts and hand-written seeds mutated by 1-3 byte/line/comma/comment edits, ASCII outside string literals): ParseValExp vs the Lean reader (both reject or same AST), the parser never panics, every accepted well-formed value survives print + read."
	if c.Drv == nil {
		fatal("C09 needs the Lean driver")
	}
	reported := map[string]bool{}
	check := func(src []byte, path, origin string, strict bool) {
		keys := c09CheckFormat(c, src, path, origin, strict, false)
		for _, k := range keys {
			if reported[k] {
				continue
			}
			reported[k] = true
			min := c09Shrink(c, src, path, strict, k)
			c09CheckFormatReportOnly(c, min, path, origin, strict, k)
		}
	}

	// ---- 0. corpus ----
	for _, s := range readCorpusLines(c.Corpus) {
		if strings.HasPrefix(s, "exp:") {
			continue // value-expression texts: c09Exprs
		}
		r.hist("corpus")
		r.count("corpus:"+s, true)
		check([]byte(s), filepath.Join(c.Scratch, "corpus.mro"), "corpus", false)
	}

	// ---- 1. quoteString ----
	c09Strings(c)

	// ---- 2. topoSort ----
	c09Topo(c)
	c09Exprs(c) // ---- 2b. value expressions: FormatExp / ParseValExp (c09exp.go)
	c09Calls(c) // ---- 2c. call statements: CallStm.format / call_stm (c09call.go)
	c09Decl(c)  // ---- 2d. type names, parameter lists, struct and filetype declarations (c09decl.go)

	c09Call2(c) // ---- 2d. full call statements, return, retain, pipeline bodies (c09call2.go)
	c09Pipe(c)  // ---- 2e. whole pipeline declarations incl. the reordering of calls (c09pipe.go)

	// ---- 3. formatter monitors ----
	progSeeds, _ := c08LoadSeeds(c)
	for _, s := range progSeeds {
		r.hist("seed")
		out, _, _ := c09Format(s.src, s.path)
		r.count("seed:"+s.name, out != string(s.src))
		check(s.src, s.path, "seed:"+s.name, false)
	}
	g := &c09Gen{c: c}
	n := 1500
	if c.Thorough {
		n = 60000
	}
	for i := 0; i < n; i++ {
		src := g.program()
		out, _, _ := c09Format([]byte(src), "gen.mro")
		r.count("gen:"+src, out != src)
		r.hist("generated-program")
		if i%401 == 0 {
			r.sample(map[string]string{"generated_program": src})
		}
		check([]byte(src), filepath.Join(c.Scratch, "gen.mro"), "generated", true)
	}
	m := 3000
	if c.Thorough {
		m = 100000
	}
	parsable := 0
	for i := 0; i < m; i++ {
		seed := progSeeds[c.Rng.Intn(len(progSeeds))]
		mut, names := c08Mutate(c, seed.src, progSeeds)
		if a, err, pan := c09Parse(mut, seed.path); pan != "" || err != nil || a == nil {
			continue
		}
		parsable++
		r.count("mut:"+string(mut), true)
		r.hist("parsable-mutant")
		check(mut, seed.path, "mutant("+names+"):"+seed.name, false)
	}
	r.note("parsable mutants formatted: %d of %d", parsable, m)

	// ---- 4. include graphs ----
	c09Includes(c)

	// ---- 5. expanded rendering of COMPILED programs (what mrp records as _mrosource) ----
	c09Expanded(c)
}

func c09CheckFormatReportOnly(c *Ctx, src []byte, path, origin string, strict bool, key string) {
	// run once more with reporting, keeping only the requested key
	before := len(c.Res.Violations)
	c09CheckFormat(c, src, path, origin, strict, true)
	kept := c.Res.Violations[:before]
	for _, v := range c.Res.Violations[before:] {
		if v.Key == key {
			kept = append(kept, v)
		}
	}
	c.Res.Violations = kept
}

func c09Shrink(c *Ctx, src []byte, path string, strict bool, key string) []byte {
	cur := append([]byte{}, src...)
	tries := 0
	has := func(b []byte) bool {
		tries++
		for _, k := range c09CheckFormat(c, b, path, "", strict, false) {
			if k == key {
				return true
			}
		}
		return false
	}
	// line-wise first, then byte chunks
	for changed := true; changed && tries < 3000; {
		changed = false
		lines := bytes.SplitAfter(cur, []byte("\n"))
		for i := 0; i < len(lines) && tries < 3000; i++ {
			cand := bytes.Join(append(append([][]byte{}, lines[:i]...), lines[i+1:]...), nil)
			if len(cand) < len(cur) && has(cand) {
				cur = cand
				changed = true
				break
			}
		}
	}
	for chunk := 8; chunk >= 1 && tries < 6000; chunk /= 2 {
		for i := 0; i+chunk <= len(cur) && tries < 6000; {
			cand := append(append([]byte{}, cur[:i]...), cur[i+chunk:]...)
			if has(cand) {
				cur = cand
			} else {
				i += chunk
			}
		}
	}
	return cur
}

// ---------- strings ----------

func c09GenString(c *Ctx) string {
	pieces := []string{"a", " ", "\"", "\\", "\n", "\t", "\r", "\b", "\f", "\x00", "\x01", "\x1f", "\x7f", "/", "é", "ÿ", "߿", "ࠀ", "￿",
		"\u2028", "\u2029", "\u2027", "\u202a", "😀", "\U0010FFFF", "\\n", "\\u0041", "\\x", "#", "'"}
	bad := []string{"\xff", "\xc3", "\xe2\x80", "\xed\xa0\x80", "\xf4\x90\x80\x80", "\x80", "\xc0\x80", "\xe2\x28\xa1"}
	var sb strings.Builder
	n := c.Rng.Intn(7)
	for i := 0; i < n; i++ {
		if c.Rng.Intn(12) == 0 {
			sb.WriteString(bad[c.Rng.Intn(len(bad))])
		} else if c.Rng.Intn(6) == 0 {
			sb.WriteByte(byte(c.Rng.Intn(256)))
		} else {
			sb.WriteString(pieces[c.Rng.Intn(len(pieces))])
		}
	}
	return sb.String()
}

func c09Strings(c *Ctx) {
	r := c.Res
	var strs []string
	for b := 0; b < 256; b++ {
		strs = append(strs, string([]byte{byte(b)}), "a"+string([]byte{byte(b)})+"b")
	}
	n := 4000
	if c.Thorough {
		n = 200000
	}
	for i := 0; i < n; i++ {
		strs = append(strs, c09GenString(c))
	}
	reqs := make([][]string, 0, len(strs))
	for _, s := range strs {
		reqs = append(reqs, []string{"C09.quote", hx(s)})
	}
	reps := c.Drv.AskBatch(reqs)
	for i, s := range strs {
		q := syntax.VerifQuoteString(s)
		nontriv := q != `"`+s+`"` || !isASCII(s)
		r.count("str:"+s, nontriv)
		if i%997 == 0 {
			r.sample(map[string]string{"string": strconv.Quote(s), "go_quoted": q})
		}
		if m := unhx(reps[i]); m != q {
			r.violate(Violation{Kind: "correspondence", Key: "C09:quote-model-mismatch", What: "quoteString differs from the Lean model",
				Input: strconv.Quote(s), Impl: strconv.Quote(q), Model: strconv.Quote(m), Broken: "correspondence C09.quote (Martian.Format.quoteString)"})
		}
		// property on the real code: the lexer accepts the quoted form as one token and unquoting returns s
		tok := syntax.VerifTokString([]byte(q))
		var back string
		ok := tok != nil && len(tok) == len(q)
		if ok {
			back = c08Try(func() string { return string(syntax.VerifUnquoteBytes(tok)) })
		}
		if ok && back == s {
			r.hist("string-roundtrip-ok")
			continue
		}
		if !utf8.ValidString(s) {
			r.hist("string-roundtrip-invalid-utf8")
			r.violate(Violation{Kind: "property", Key: "C09:string-roundtrip:invalid-utf8",
				What:  "a string value that is not valid UTF-8 (reachable with \\x / octal escapes) is printed with \\ufffd in place of the byte",
				Input: map[string]string{"string": strconv.Quote(s), "hex": hx(s)}, Impl: strconv.Quote(back), Expect: strconv.Quote(s)})
			continue
		}
		r.violate(Violation{Kind: "property", Key: "C09:string-roundtrip:" + hx(s),
			What:  "unquote(quoteString(s)) differs from s for a valid UTF-8 string",
			Input: map[string]string{"string": strconv.Quote(s), "hex": hx(s), "quoted": q}, Impl: strconv.Quote(back), Expect: strconv.Quote(s),
			Broken: "Props.C09.unquote_quote"})
	}
}

func isASCII(s string) bool {
	for i := 0; i < len(s); i++ {
		if s[i] >= 0x80 {
			return false
		}
	}
	return true
}

// ---------- topoSort ----------

func c09Topo(c *Ctx) {
	r := c.Res
	n := 1500
	if c.Thorough {
		n = 50000
	}
	type tcase struct {
		n         int
		edges     [][2]int
		order     []int
		err       bool
		src       string
		closed    string
		closedErr bool
	}
	var cases []tcase
	var reqs, creqs [][]string
	for i := 0; i < n; i++ {
		k := 1 + c.Rng.Intn(9)
		var edges [][2]int
		seen := map[[2]int]bool{}
		ne := c.Rng.Intn(2 * k)
		mode := c.Rng.Intn(5) // 0: backward refs only (sorted), 1: forward only, else mixed
		for j := 0; j < ne; j++ {
			a, b := c.Rng.Intn(k), c.Rng.Intn(k)
			if a == b {
				continue
			}
			if mode == 0 && a < b {
				a, b = b, a
			}
			if mode == 1 && a > b {
				a, b = b, a
			}
			if mode >= 2 && c.Rng.Intn(6) != 0 && a > b && c.Rng.Intn(2) == 0 {
				a, b = b, a
			}
			e := [2]int{a, b}
			if !seen[e] {
				seen[e] = true
				edges = append(edges, e)
			}
		}
		var sb strings.Builder
		sb.WriteString("stage S(in int[] z, out int o, src py \"s\",)\npipeline P(in int a, out int r,)\n{\n")
		for a := 0; a < k; a++ {
			var refs []string
			for _, e := range edges {
				if e[0] == a {
					refs = append(refs, fmt.Sprintf("C%d.o", e[1]))
				}
			}
			fmt.Fprintf(&sb, "    call S as C%d(z = [%s],)\n", a, strings.Join(refs, ", "))
		}
		sb.WriteString("    return (r = C0.o,)\n}\n")
		src := sb.String()
		ast, err, pan := c09Parse([]byte(src), "topo.mro")
		if pan != "" || err != nil || ast == nil || len(ast.Pipelines) != 1 {
			r.note("topoSort case did not parse: %v %s", err, pan)
			continue
		}
		p := ast.Pipelines[0]
		tc := tcase{n: k, edges: edges, src: src}
		// the dependency map the loop is run on: must be transitively closed (hypothesis of
		// Props.C09.topoSort_respects_deps), and equal to the model's closure
		closed, cerr := syntax.VerifClosedDeps(p)
		tc.closedErr = cerr != nil
		if cerr == nil {
			has := func(a, b string) bool {
				for _, x := range closed[a] {
					if x == b {
						return true
					}
				}
				return false
			}
			var pairs []string
			for a, ds := range closed {
				for _, b := range ds {
					pairs = append(pairs, strings.TrimPrefix(a, "C")+"-"+strings.TrimPrefix(b, "C"))
					for _, e := range closed[b] {
						if !has(a, e) {
							r.violate(Violation{Kind: "property", Key: "C09:deps-not-transitive",
								What:  fmt.Sprintf("the dependency map handed to the reordering loop is not transitively closed: %s -> %s -> %s but not %s -> %s", a, b, e, a, e),
								Input: src, Broken: "hypothesis transOn of Props.C09.topoSort_respects_deps"})
						}
					}
				}
			}
			sort.Slice(pairs, func(i, j int) bool {
				var a1, b1, a2, b2 int
				fmt.Sscanf(pairs[i], "%d-%d", &a1, &b1)
				fmt.Sscanf(pairs[j], "%d-%d", &a2, &b2)
				return a1 < a2 || (a1 == a2 && b1 < b2)
			})
			tc.closed = "."
			if len(pairs) > 0 {
				tc.closed = strings.Join(pairs, ",")
			}
		}
		func() {
			defer func() {
				if x := recover(); x != nil {
					tc.err = true
					r.violate(Violation{Kind: "property", Key: "C09:toposort-panic", What: fmt.Sprint("topoSort panicked: ", x), Input: src})
				}
			}()
			tc.err = syntax.VerifTopoSort(p) != nil
		}()
		for _, cl := range p.Calls {
			id, _ := strconv.Atoi(strings.TrimPrefix(cl.Id, "C"))
			tc.order = append(tc.order, id)
		}
		// monitors on the real result
		moved := false
		pos := make(map[int]int, k)
		for i, id := range tc.order {
			pos[id] = i
			if id != i {
				moved = true
			}
		}
		r.count("topo:"+src, moved)
		if len(pos) != k || len(tc.order) != k {
			r.violate(Violation{Kind: "property", Key: "C09:toposort-not-permutation", What: "topoSort lost or duplicated a call", Input: src, Impl: fmt.Sprint(tc.order)})
		}
		if !tc.err {
			r.hist("topo:acyclic")
			for _, e := range edges {
				if pos[e[0]] < pos[e[1]] {
					r.violate(Violation{Kind: "property", Key: "C09:toposort-order", What: fmt.Sprintf("call C%d is placed before its dependency C%d", e[0], e[1]),
						Input: src, Impl: fmt.Sprint(tc.order)})
					break
				}
			}
			// second run is the identity
			before := fmt.Sprint(tc.order)
			syntax.VerifTopoSort(p)
			var again []int
			for _, cl := range p.Calls {
				id, _ := strconv.Atoi(strings.TrimPrefix(cl.Id, "C"))
				again = append(again, id)
			}
			if fmt.Sprint(again) != before {
				r.violate(Violation{Kind: "property", Key: "C09:toposort-not-idempotent", What: "sorting a sorted pipeline changed the order", Input: src, Impl: before + " -> " + fmt.Sprint(again)})
			}
		} else {
			r.hist("topo:cycle-error")
		}
		cases = append(cases, tc)
		es := "."
		if len(edges) > 0 {
			parts := make([]string, len(edges))
			for i, e := range edges {
				parts[i] = fmt.Sprintf("%d-%d", e[0], e[1])
			}
			es = strings.Join(parts, ",")
		}
		reqs = append(reqs, []string{"C09.toposort", strconv.Itoa(k), es})
		creqs = append(creqs, []string{"C09.closure", strconv.Itoa(k), es})
	}
	reps := c.Drv.AskBatch(reqs)
	creps := c.Drv.AskBatch(creqs)
	for i, tc := range cases {
		cf := strings.Fields(creps[i])
		if len(cf) == 3 {
			mcyc := cf[0] == "cycle=true"
			if mcyc != tc.closedErr {
				r.violate(Violation{Kind: "correspondence", Key: "C09:closure-cycle-mismatch", What: "cycle detection of addNextDeps differs from the Lean closure",
					Input: tc.src, Impl: fmt.Sprint(tc.closedErr), Model: creps[i], Broken: "correspondence C09.closure (Martian.Format.closedDeps / hasCycle)"})
			} else if !mcyc {
				r.hist("closure:compared")
				if cf[2] != tc.closed {
					r.violate(Violation{Kind: "correspondence", Key: "C09:closure-model-mismatch", What: "the closed dependency map differs from the Lean closedDeps",
						Input: tc.src, Impl: tc.closed, Model: cf[2], Broken: "correspondence C09.closure (Martian.Format.closedDeps)"})
				}
				if cf[1] != "trans=true" {
					r.violate(Violation{Kind: "correspondence", Key: "C09:model-closure-not-transitive",
						What:  "the Lean closedDeps is not transitive on this graph: the hypothesis of topoSort_respects_deps / topoSort_idem fails",
						Input: tc.src, Model: creps[i], Broken: "hypothesis transOn of Props.C09.topoSort_respects_deps"})
				}
			}
		}
		parts := make([]string, len(tc.order))
		for j, id := range tc.order {
			parts[j] = strconv.Itoa(id)
		}
		if g := strings.Join(parts, " "); g != reps[i] {
			r.violate(Violation{Kind: "correspondence", Key: "C09:toposort-model-mismatch", What: "(*Pipeline).topoSort order differs from the Lean topoSort",
				Input: map[string]interface{}{"n": tc.n, "edges(a uses b)": tc.edges, "source": tc.src}, Impl: g, Model: reps[i],
				Broken: "correspondence C09.toposort (Martian.Format.topoSort)"})
		}
		if i%293 == 0 {
			r.sample(map[string]interface{}{"toposort_edges": tc.edges, "order": tc.order, "cycle_error": tc.err})
		}
	}
}

// ---------- include graphs ----------

func c09Includes(c *Ctx) {
	r := c.Res
	dir := filepath.Join(c.Scratch, "inc")
	write := func(rel, content string) string {
		p := filepath.Join(dir, rel)
		os.MkdirAll(filepath.Dir(p), 0o755)
		os.WriteFile(p, []byte(content), 0o644)
		return p
	}
	type graph struct {
		name  string
		files map[string]string
		top   string
	}
	graphs := []graph{
		{"diamond", map[string]string{
			"common.mro": "filetype txt;\n# the pair\nstruct PAIR(\n    int a \"help \\\"a\\\"\",\n    txt b,\n)\n",
			"left.mro":   "@include \"common.mro\"\n\nstage LEFT(\n    in  PAIR p,\n    out txt  o \"left out\" \"left.txt\",\n    src py   \"stages/left\",\n) using (\n    mem_gb = 2.5,\n)\n",
			"right.mro":  "@include \"common.mro\"\n\nstage RIGHT(\n    in  txt  i,\n    out PAIR q,\n    src comp \"bin/right --flag\",\n)\n",
			"top.mro":    "@include \"left.mro\"\n@include \"right.mro\"\n\n# top pipeline\npipeline TOP(\n    in  PAIR p,\n    out PAIR q,\n)\n{\n    call RIGHT(\n        i = LEFT.o,\n    )\n    call LEFT(\n        p = self.p,\n    )\n    return (\n        q = RIGHT.q,\n    )\n}\n\ncall TOP(\n    p = {\n        a: 1,\n        b: \"x\\ty\",\n    },\n)\n",
		}, "top.mro"},
		{"nested-dirs", map[string]string{
			"lib/types/t.mro":  "filetype bam;\nfiletype json.gz;\n",
			"lib/stages/s.mro": "@include \"lib/types/t.mro\"\n\nstage ALIGN(\n    in  bam     input,\n    in  int     n,\n    out json.gz summary,\n    src exec    \"align\",\n) split (\n    in  int     chunk,\n    out bam     part,\n) retain (\n    summary,\n)\n",
			"pipes/p.mro":      "@include \"lib/stages/s.mro\"\n\npipeline RUN(\n    in  bam       b,\n    out json.gz[] s,\n)\n{\n    map call ALIGN(\n        input = self.b,\n        n     = split [1, 2, 3],\n    ) using (\n        volatile = true,\n    )\n    return (\n        s = ALIGN.summary,\n    )\n    retain (\n        ALIGN.summary,\n    )\n}\n",
			"main.mro":         "@include \"pipes/p.mro\"\n\ncall RUN(\n    b = \"/data/x.bam\",\n)\n",
		}, "main.mro"},
	}
	for gi, g := range graphs {
		os.RemoveAll(dir)
		var topPath string
		for rel, content := range g.files {
			p := write(rel, content)
			if rel == g.top {
				topPath = p
			}
		}
		r.count("include:"+g.name, true)
		r.hist("include-graph")
		func() {
			defer func() {
				if x := recover(); x != nil {
					r.violate(Violation{Kind: "property", Key: "C09:include-panic", What: fmt.Sprint("panic compiling include graph: ", x), Input: g.files})
				}
			}()
			src, _ := os.ReadFile(topPath)
			combined, _, ast, err := syntax.ParseSourceBytes(src, topPath, []string{dir}, false)
			if err != nil {
				r.violate(Violation{Kind: "correspondence", Key: "C09:include-graph-compile", What: "harness include graph does not compile: " + err.Error(), Input: g.files})
				return
			}
			alone := filepath.Join(c.Scratch, fmt.Sprintf("combined%d.mro", gi))
			_, _, ast2, err := syntax.ParseSourceBytes([]byte(combined), alone, nil, false)
			if err != nil {
				r.violate(Violation{Kind: "property", Key: "C09:mrosource-does-not-compile",
					What:  "the include-expanded single-file rendering does not compile on its own: " + err.Error(),
					Input: map[string]interface{}{"files": g.files, "combined": combined}})
				return
			}
			d1, d2 := c09Dump(ast, true), c09Dump(ast2, true)
			// the combined rendering has no include directives
			var d1n []string
			for _, l := range d1 {
				if !strings.HasPrefix(l, "include ") {
					d1n = append(d1n, l)
				}
			}
			if diff := c09DiffDump(d1n, d2); diff != "" {
				r.violate(Violation{Kind: "property", Key: "C09:mrosource-not-equivalent",
					What:  "the include-expanded rendering denotes a different program: " + diff,
					Input: map[string]interface{}{"files": g.files, "combined": combined}})
			}
			if !ast.EquivalentCall(ast2) {
				r.violate(Violation{Kind: "property", Key: "C09:mrosource-call-not-equivalent",
					What:  "EquivalentCall(multi-file AST, AST of the combined rendering) is false",
					Input: map[string]interface{}{"files": g.files, "combined": combined}})
			}
			// every comment of every file is in the combined rendering
			var all []string
			for _, content := range g.files {
				all = append(all, c09Comments([]byte(content))...)
			}
			got := strings.Join(c09Comments([]byte(combined)), "\n")
			for _, cm := range all {
				if !strings.Contains(got, cm) {
					r.violate(Violation{Kind: "property", Key: "C09:mrosource-comment-lost", What: "comment missing from the combined rendering: " + cm,
						Input: map[string]interface{}{"files": g.files, "combined": combined}})
				}
			}
			// and it is a fixed point of the formatter
			if k := c09CheckFormat(c, []byte(combined), alone, "combined:"+g.name, false, true); len(k) > 0 {
				r.hist("include-combined-format-issue")
			}
		}()
	}
}

// ---------- expanded rendering of compiled programs ----------

// c09GenCompiling produces a well-typed program in four parts (types, stages, pipelines,
// top call) exercising everything the compiler rewrites in the AST: wildcard bindings
// (alone / after explicit bindings / over self, a stage, a struct input, a struct output),
// aliases, keyword and bound modifiers, disabled, map calls, calls out of dependency order.
func c09GenCompiling(c *Ctx) (types, stages, pipes, call string, features []string) {
	rng := c.Rng
	pick := func(name string, xs ...string) string {
		i := rng.Intn(len(xs))
		features = append(features, fmt.Sprintf("%s%d", name, i))
		return xs[i]
	}
	types = "filetype txt;\n\n# a pair\nstruct PAIR(\n    int a \"the a\",\n    txt b,\n)\n"
	res := pick("res", "", ") using (\n    mem_gb  = 2,\n    threads = 1,\n", ") using (\n    volatile = strict,\n")
	stages = "stage MAKE(\n    in  int  seed,\n    in  int  n,\n    in  int  k,\n    out int  v,\n    out PAIR p,\n    out bool ok,\n    src py   \"stages/make\",\n" + res + ")\n\n" +
		"# uses things\nstage USE(\n    in  int  v,\n    in  PAIR p,\n    in  int  seed,\n    out int  r,\n    src comp \"bin/use -x --k=v\",\n)\n\n" +
		"stage FIELDS(\n    in  int a,\n    in  txt b,\n    in  int k,\n    out int z,\n    src py  \"stages/fields\",\n) split (\n    in  int chunk,\n    out int part,\n)\n"
	mk := pick("make", "MAKE", "MAKE as M")
	mkId := "MAKE"
	if strings.Contains(mk, " as ") {
		mkId = "M"
	}
	b1 := pick("b1", "        k = 1,\n        * = self,\n", "        k = self.n,\n        * = self,\n",
		"        seed = self.seed,\n        n    = self.n,\n        k    = 3,\n", "        k = 7,\n        * = self,\n")
	b2 := pick("b2", "        seed = self.seed,\n        *    = "+mkId+",\n", "        v = "+mkId+".v,\n        * = self,\n",
		"        v    = "+mkId+".v,\n        p    = "+mkId+".p,\n        seed = self.seed,\n", "        seed = 3,\n        *    = "+mkId+",\n",
		"        v = 4,\n        * = self,\n")
	b3 := pick("b3", "        k = 1,\n        * = self.p,\n", "        k = 2,\n        * = "+mkId+".p,\n", "        a = self.p.a,\n        b = self.p.b,\n        k = 3,\n",
		"        k = "+mkId+".v,\n        * = self.p,\n")
	kw := pick("kw", "", "local ", "volatile ", "local volatile ")
	useMods := pick("usemods", "", " using (\n        volatile = true,\n    )", " using (\n        disabled = "+mkId+".ok,\n    )", " using (\n        local    = true,\n        disabled = "+mkId+".ok,\n    )")
	callMake := "    # make it\n    call " + kw + mk + "(\n" + b1 + "    )\n"
	callUse := "    call USE(\n" + b2 + "    )" + useMods + "\n"
	callFields := "    call FIELDS(\n" + b3 + "    )\n"
	order := pick("order", "mu", "um", "fum", "ufm")
	var body string
	for _, ch := range order {
		switch ch {
		case 'm':
			body += callMake + "\n"
		case 'u':
			body += callUse + "\n"
		case 'f':
			body += callFields + "\n"
		}
	}
	if !strings.Contains(order, "f") {
		body += callFields + "\n"
	}
	inner := "pipeline INNER(\n    in  int  seed,\n    in  int  n,\n    in  PAIR p,\n    out int  r,\n    out int  z,\n    out PAIR q,\n)\n{\n" + body +
		"    return (\n        r = USE.r,\n        z = FIELDS.z,\n        q = self.p,\n    )\n" + pick("retain", "", "\n    retain (\n        "+mkId+".p,\n    )\n") + "}\n\n"
	mapped := ""
	mapCall := ""
	mapRet := ""
	mapOut := ""
	if pick("map", "n", "y") == "y" {
		mapped = "pipeline MAPPED(\n    in  int[] vs,\n    in  PAIR  p,\n    in  int   seed,\n    out int[] rs,\n)\n{\n    map call USE(\n        v = split self.vs,\n        * = self,\n    )\n\n    return (\n        rs = USE.r,\n    )\n}\n\n"
		mapCall = "    call MAPPED(\n        vs = [\n            1,\n            2,\n        ],\n        * = self,\n    )\n\n"
		mapRet = "        rs = MAPPED.rs,\n"
		mapOut = "    out int[] rs,\n"
	}
	t1 := pick("top", "        * = self,\n", "        seed = self.seed,\n        n    = self.n,\n        p    = self.p,\n")
	pipes = inner + mapped + "# the top\npipeline TOP(\n    in  int  seed,\n    in  int  n,\n    in  PAIR p,\n    out int  r,\n" + mapOut + ")\n{\n    call INNER(\n" + t1 + "    )\n\n" + mapCall +
		"    return (\n        r = INNER.r,\n" + mapRet + "    )\n}\n"
	call = "call TOP(\n    seed = 1,\n    n    = 2,\n    p    = {\n        a: 1,\n        b: \"/x y\",\n    },\n)\n"
	return
}

func c09Expanded(c *Ctx) {
	r := c.Res
	n := 150
	if c.Thorough {
		n = 5000
	}
	dir := filepath.Join(c.Scratch, "exp")
	noCompile := 0
	tStart := time.Now()
	for i := 0; i < n; i++ {
		types, stages, pipes, call, feats := c09GenCompiling(c)
		single := types + "\n" + stages + "\n" + pipes + "\n" + call
		multi := map[string]string{
			"lib/types.mro":  types,
			"lib/stages.mro": "@include \"lib/types.mro\"\n\n" + stages,
			"pipes.mro":      "@include \"lib/stages.mro\"\n\n" + pipes,
			"main.mro":       "@include \"pipes.mro\"\n\n" + call,
		}
		for _, f := range feats {
			r.hist("compiled-feature:" + f)
		}
		for variant := 0; variant < 2; variant++ {
			os.RemoveAll(dir)
			os.MkdirAll(filepath.Join(dir, "lib"), 0o755)
			var top string
			var src []byte
			var inc []string
			name := "single-file"
			if variant == 0 {
				top = filepath.Join(dir, "single.mro")
				src = []byte(single)
				os.WriteFile(top, src, 0o644)
			} else {
				name = "multi-file"
				for rel, content := range multi {
					os.WriteFile(filepath.Join(dir, rel), []byte(content), 0o644)
				}
				top = filepath.Join(dir, "main.mro")
				src = []byte(multi["main.mro"])
				inc = []string{dir}
			}
			r.count("compiled:"+name+":"+single, true)
			r.hist("compiled-program:" + name)
			input := map[string]interface{}{"variant": name, "program": single, "features": feats}
			func() {
				defer func() {
					if x := recover(); x != nil {
						r.violate(Violation{Kind: "property", Key: "C09:expanded-panic", What: fmt.Sprint("panic compiling / rendering a generated program: ", x), Input: input})
					}
				}()
				combined, _, ast, err := syntax.ParseSourceBytes(src, top, inc, false)
				if err != nil {
					noCompile++
					if noCompile <= 3 {
						r.violate(Violation{Kind: "correspondence", Key: "C09:expanded-generator-does-not-compile",
							What: "harness-generated program does not compile (generator defect): " + err.Error(), Input: input})
					}
					return
				}
				input["rendering"] = combined
				alone := filepath.Join(c.Scratch, "rendered.mro")
				_, _, ast2, err := syntax.ParseSourceBytes([]byte(combined), alone, nil, false)
				if err != nil {
					r.violate(Violation{Kind: "property", Key: "C09:mrosource-does-not-compile",
						What:  "the rendering of the compiled program (what mrp records as _mrosource) does not compile on its own: " + err.Error(),
						Input: input})
					return
				}
				strip := func(d []string) []string {
					var o []string
					for _, l := range d {
						if !strings.HasPrefix(l, "include ") {
							o = append(o, l)
						}
					}
					return o
				}
				if diff := c09DiffDump(strip(c09Dump(ast, true)), c09Dump(ast2, true)); diff != "" {
					r.violate(Violation{Kind: "property", Key: "C09:mrosource-not-equivalent",
						What: "the rendering of the compiled program denotes a different program: " + diff, Input: input})
				}
				if !ast.EquivalentCall(ast2) {
					r.violate(Violation{Kind: "property", Key: "C09:mrosource-call-not-equivalent",
						What: "EquivalentCall(compiled AST, AST of its rendering) is false", Input: input})
				}
				// the compile steps must not leak into the text: for a single file the rendering of the
				// compiled AST is the canonical format of the source
				if variant == 0 {
					if want, err, pan := c09Format(src, top); err == nil && pan == "" && want != combined {
						r.violate(Violation{Kind: "property", Key: "C09:compiled-rendering-differs-from-format",
							What:  "rendering a compiled single-file program differs from formatting its source: a compile step leaked into the text",
							Input: input, Impl: combined, Expect: want})
					}
				}
				// rendering the rendering: fixed point, comments kept
				combined2, _, _, err := syntax.ParseSourceBytes([]byte(combined), alone, nil, false)
				if err == nil && c09NoBlank(combined2) != c09NoBlank(combined) {
					r.violate(Violation{Kind: "property", Key: "C09:mrosource-not-fixed-point",
						What: "rendering the compiled rendering again changes it (beyond blank lines)", Input: input, Impl: combined2})
				}
				want := c09Comments([]byte(single))
				got := strings.Join(c09Comments([]byte(combined)), "\n")
				for _, cm := range want {
					if !strings.Contains(got, cm) {
						r.violate(Violation{Kind: "property", Key: "C09:mrosource-comment-lost", What: "comment missing from the rendering: " + cm, Input: input})
					}
				}
			}()
		}
		if i%53 == 0 {
			r.sample(map[string]interface{}{"compiled_program": single, "features": feats})
		}
	}
	if noCompile > 0 {
		r.note("%d generated programs did not compile", noCompile)
	}
	r.note("compiled-rendering stream: %d programs x 2 variants in %.1fs", n, time.Since(tStart).Seconds())
}
