package main

// C09 — formatting is idempotent and preserves the program.
//
//  1. correspondence: quoteString / unquoteBytes (verif exports) vs the Lean
//     model; (*Pipeline).topoSort vs the Lean topoSort on generated call graphs;
//  2. property monitors on the real FormatSrcBytes: output re-parses, second
//     format = first, AST unchanged up to call order, no comment lost (and none
//     duplicated or moved when every comment precedes a node), on the repo's .mro
//     files, generated programs and parsable mutants; generated programs with
//     comments in every lexical position (c09dangle.go): no comment lost or
//     written twice, the second output is a fixed point;
//  3. include graphs (diamond, nested directories): the combined source that
//     ParseSourceBytes returns compiles alone to an equivalent AST.

import (
	"bytes"
	"fmt"
	"math"
	"os"
	"path/filepath"
	"reflect"
	"regexp"
	"sort"
	"strconv"
	"strings"
	"time"
	"unicode/utf8"

	"github.com/martian-lang/martian/martian/syntax"
)

func init() { register("C09", runC09) }

// ---------- canonical AST dump (exported fields only; no locations, no comments) ----------

func c09Type(t syntax.TypeId) string {
	return fmt.Sprintf("%s/a%d/m%d", t.Tname, t.ArrayDim, t.MapDim)
}

func c09Exp(e syntax.Exp) string {
	switch x := e.(type) {
	case nil:
		return "<nil>"
	case *syntax.IntExp:
		return "i" + strconv.FormatInt(x.Value, 10)
	case *syntax.FloatExp:
		// an integral float is printed without '.', so it comes back as an int: documented
		if x.Value == math.Trunc(x.Value) && math.Abs(x.Value) < 1e15 {
			return "i" + strconv.FormatInt(int64(x.Value), 10)
		}
		return "f" + strconv.FormatUint(math.Float64bits(x.Value), 16)
	case *syntax.StringExp:
		return "s" + strconv.Quote(x.Value)
	case *syntax.BoolExp:
		return "b" + strconv.FormatBool(x.Value)
	case *syntax.NullExp:
		return "null"
	case *syntax.ArrayExp:
		parts := make([]string, len(x.Value))
		for i, v := range x.Value {
			parts[i] = c09Exp(v)
		}
		return "[" + strings.Join(parts, ",") + "]"
	case *syntax.MapExp:
		keys := make([]string, 0, len(x.Value))
		for k := range x.Value {
			keys = append(keys, k)
		}
		sort.Strings(keys)
		parts := make([]string, len(keys))
		for i, k := range keys {
			parts[i] = strconv.Quote(k) + ":" + c09Exp(x.Value[k])
		}
		return string(x.Kind) + "{" + strings.Join(parts, ",") + "}"
	case *syntax.RefExp:
		return fmt.Sprintf("ref(%s,%s,%s)", x.Kind, x.Id, x.OutputId)
	case *syntax.SplitExp:
		return "split(" + c09Exp(x.Value) + ")"
	default:
		return fmt.Sprintf("<%T>", e)
	}
}

func c09Binds(b *syntax.BindStms) string {
	if b == nil {
		return "-"
	}
	parts := make([]string, len(b.List))
	for i, s := range b.List {
		parts[i] = s.Id + "=" + c09Exp(s.Exp)
	}
	return "(" + strings.Join(parts, ";") + ")"
}

func c09Call(c *syntax.CallStm) string {
	if c == nil {
		return "-"
	}
	m := "-"
	if c.Modifiers != nil {
		// `call local X()` and `call X() using (local = true)` are the same program:
		// the formatter always writes the second form.
		l, p, v := c.Modifiers.Local, c.Modifiers.Preflight, c.Modifiers.Volatile
		var rest []string
		if b := c.Modifiers.Bindings; b != nil {
			for _, s := range b.List {
				if be, ok := s.Exp.(*syntax.BoolExp); ok && (s.Id == "local" || s.Id == "preflight" || s.Id == "volatile") {
					// a binding overrides the keyword (giving both is a compile error)
					switch s.Id {
					case "local":
						l = be.Value
					case "preflight":
						p = be.Value
					default:
						v = be.Value
					}
					continue
				}
				rest = append(rest, s.Id+"="+c09Exp(s.Exp))
			}
		}
		sort.Strings(rest)
		m = fmt.Sprintf("L%v,P%v,V%v,%s", l, p, v, strings.Join(rest, ";"))
	}
	return fmt.Sprintf("call %s as %s map=%v mods[%s] %s", c.DecId, c.Id, c.Mapping != nil, m, c09Binds(c.Bindings))
}

func c09InParams(p *syntax.InParams) string {
	if p == nil {
		return "-"
	}
	parts := make([]string, len(p.List))
	for i, x := range p.List {
		parts[i] = fmt.Sprintf("in %s %s %q", c09Type(x.Tname), x.Id, x.Help)
	}
	return strings.Join(parts, ";")
}

func c09OutParams(p *syntax.OutParams) string {
	if p == nil {
		return "-"
	}
	parts := make([]string, len(p.List))
	for i, x := range p.List {
		parts[i] = fmt.Sprintf("out %s %s %q %q", c09Type(x.Tname), x.Id, x.Help, x.OutName)
	}
	return strings.Join(parts, ";")
}

// c09F32 prints the exact float32 (shortest text that reads back to the same bits; "-0" for
// negative zero, NaN/Inf spelled out).
func c09F32(x float32) string { return strconv.FormatFloat(float64(x), 'g', -1, 32) }

func c09Dump(a *syntax.Ast, sortCalls bool) []string {
	var out []string
	for _, inc := range a.Includes {
		out = append(out, "include "+strconv.Quote(inc.Value))
	}
	for _, t := range a.UserTypes {
		out = append(out, "filetype "+t.Id)
	}
	for _, s := range a.StructTypes {
		parts := make([]string, len(s.Members))
		for i, m := range s.Members {
			parts[i] = fmt.Sprintf("%s %s %q %q", c09Type(m.Tname), m.Id, m.Help, m.OutName)
		}
		out = append(out, "struct "+s.Id+"("+strings.Join(parts, ";")+")")
	}
	for _, s := range a.Stages {
		var sb strings.Builder
		fmt.Fprintf(&sb, "stage %s(%s|%s)", s.Id, c09InParams(s.InParams), c09OutParams(s.OutParams))
		if s.Src != nil {
			fmt.Fprintf(&sb, " src %s %q", s.Src.Lang, append([]string{s.Src.Path}, s.Src.Args...))
		}
		fmt.Fprintf(&sb, " split=%v(%s|%s)", s.Split, c09InParams(s.ChunkIns), c09OutParams(s.ChunkOuts))
		if r := s.Resources; r != nil {
			fmt.Fprintf(&sb, " using(t=%v%s,m=%v%s,v=%v%s,s=%v%q,vol=%v%v)", r.ThreadNode != nil, c09F32(r.Threads), r.MemNode != nil, c09F32(r.MemGB),
				r.VMemNode != nil, c09F32(r.VMemGB), r.SpecialNode != nil, r.Special, r.VolatileNode != nil, r.StrictVolatile)
		}
		if s.Retain != nil {
			sb.WriteString(" retain(")
			for _, p := range s.Retain.Params {
				sb.WriteString(p.Id + ",")
			}
			sb.WriteString(")")
		}
		out = append(out, sb.String())
	}
	for _, p := range a.Pipelines {
		var sb strings.Builder
		fmt.Fprintf(&sb, "pipeline %s(%s|%s){", p.Id, c09InParams(p.InParams), c09OutParams(p.OutParams))
		calls := make([]string, len(p.Calls))
		for i, c := range p.Calls {
			calls[i] = c09Call(c)
		}
		if sortCalls {
			sort.Strings(calls)
		}
		sb.WriteString(strings.Join(calls, " || "))
		if p.Ret != nil {
			sb.WriteString(" return" + c09Binds(p.Ret.Bindings))
		}
		if p.Retain != nil {
			sb.WriteString(" retain(")
			for _, r := range p.Retain.Refs {
				sb.WriteString(c09Exp(r) + ",")
			}
			sb.WriteString(")")
		}
		sb.WriteString("}")
		out = append(out, sb.String())
	}
	if a.Call != nil {
		out = append(out, "TOP "+c09Call(a.Call))
	}
	// the order of the stage and pipeline declarations relative to each other (Callables.List is
	// what the formatter prints from; Stages / Pipelines above hold each kind in order)
	order := "order -"
	if a.Callables != nil {
		ids := make([]string, len(a.Callables.List))
		for i, cl := range a.Callables.List {
			switch x := cl.(type) {
			case *syntax.Stage:
				ids[i] = "stage:" + x.Id
			case *syntax.Pipeline:
				ids[i] = "pipeline:" + x.Id
			default:
				ids[i] = fmt.Sprintf("<%T>", cl)
			}
		}
		order = "order " + strings.Join(ids, ",")
	}
	out = append(out, order)
	return out
}

func c09DiffDump(a, b []string) string {
	for i := 0; i < len(a) || i < len(b); i++ {
		var x, y string
		if i < len(a) {
			x = a[i]
		}
		if i < len(b) {
			y = b[i]
		}
		if x != y {
			return fmt.Sprintf("entry %d:\n  before: %s\n  after:  %s", i, x, y)
		}
	}
	return ""
}

// comments of a source text, via the real tokenizer
func c09Comments(src []byte) []string {
	var out []string
	pos := 0
	for pos < len(src) {
		id, v := syntax.VerifNextToken(src[pos:])
		if len(v) == 0 {
			break
		}
		if id == syntax.VerifTokCOMMENT {
			out = append(out, string(bytes.TrimSpace(v)))
		}
		pos += len(v)
	}
	sort.Strings(out)
	return out
}

func c09Parse(src []byte, path string) (ast *syntax.Ast, err error, panicked string) {
	defer func() {
		if p := recover(); p != nil {
			panicked = fmt.Sprint(p)
		}
	}()
	var ps syntax.Parser
	ast, err = ps.UncheckedParse(src, path)
	return
}

func c09Format(src []byte, path string) (out string, err error, panicked string) {
	defer func() {
		if p := recover(); p != nil {
			panicked = fmt.Sprint(p)
		}
	}()
	out, err = syntax.FormatSrcBytes(src, path, false, nil)
	return
}

// comment modes of c09CheckFormat
const (
	c09Loose    = 0 // repo files, corpus, mutants: comments anywhere; none may be lost, first output is a fixed point
	c09Strict   = 1 // every comment of the source precedes a node in its scope: none may be duplicated either
	c09Dangling = 2 // generated comments in every lexical position: none may be lost; the SECOND output is a fixed point
)

// c09CheckFormat runs the formatter monitors on one source; returns violation keys.
func c09CheckFormat(c *Ctx, src []byte, path, origin string, mode int, report bool) []string {
	r := c.Res
	strictComments := mode == c09Strict
	var keys []string
	add := func(key, what string, extra map[string]interface{}) {
		keys = append(keys, key)
		if !report {
			return
		}
		in := map[string]interface{}{"source": string(src), "source_go_quoted": strconv.Quote(string(src)), "origin": origin}
		for k, v := range extra {
			in[k] = v
		}
		r.violate(Violation{Kind: "property", Key: key, What: what, Input: in,
			Expect: "formatter output parses, is a fixed point, denotes the same program, keeps every comment"})
	}
	ast0, err, pan := c09Parse(src, path)
	if pan != "" || err != nil || ast0 == nil {
		r.hist("format:input-rejected")
		return nil
	}
	d0 := c09Dump(ast0, true)
	out1, err, pan := c09Format(src, path)
	if pan != "" {
		add("C09:format-panic:"+c08Norm(pan), "FormatSrcBytes panicked on a source the parser accepts: "+pan, nil)
		return keys
	}
	if err != nil {
		add("C09:format-error", "FormatSrcBytes failed on a source UncheckedParse accepts: "+err.Error(), nil)
		return keys
	}
	r.hist("format:formatted")
	ast1, err, pan := c09Parse([]byte(out1), path)
	if pan != "" || err != nil || ast1 == nil {
		msg := pan
		if err != nil {
			msg = err.Error()
		}
		cls := c09Class(ast0)
		if cls != "other" {
			// known special class decides
		} else if strings.Contains(string(src), "src ") && (bytes.Contains(src, []byte(`\"`)) || bytes.Contains(src, []byte(`\\`))) {
			cls = "escape-in-src-or-include"
		} else if bytes.Contains(src, []byte("@include")) {
			cls = "escape-in-src-or-include"
		}
		add("C09:reparse:"+cls, "formatter output is rejected by the parser: "+msg, map[string]interface{}{"formatted": out1})
		return keys
	}
	d1 := c09Dump(ast1, true)
	thr := c09ThreadsUnstable(ast0)
	if diff := c09DiffDump(d0, d1); diff != "" {
		cls := c09Class(ast0)
		if thr && c09DiffDump(c09MaskThreads(d0), c09MaskThreads(d1)) == "" {
			cls = "threads-rounding" // nothing but `threads` values differ
		}
		add("C09:ast-changed:"+cls, "formatting changed the program: "+diff, map[string]interface{}{"formatted": out1})
	}
	out2, err, pan := c09Format([]byte(out1), path)
	if pan != "" || err != nil {
		add("C09:second-format-failed", "formatting the formatter's output failed: "+pan+fmt.Sprint(err), map[string]interface{}{"formatted": out1})
	} else if mode == c09Dangling {
		// dangling comments may move once (to the next node / the end of the file); after that
		// the text must be stable
		if out2 == out1 {
			r.hist("dangling:first-output-is-a-fixed-point")
		} else {
			r.hist("dangling:first-output-is-not-a-fixed-point")
		}
		out3, err, pan := c09Format([]byte(out2), path)
		if pan != "" || err != nil {
			add("C09:third-format-failed:"+c09Class(ast0), "formatting the second formatter output failed: "+pan+fmt.Sprint(err), map[string]interface{}{"formatted": out1, "formatted_twice": out2})
		} else if out3 != out2 {
			cls := c09Class(ast0)
			key := "C09:not-stable-after-two:" + cls
			if c09NoBlank(out2) == c09NoBlank(out3) {
				key = "C09:not-idempotent:blank-lines-only" // F27: the blank lines before a scope comment oscillate
			} else if thr && c09ThreadsLineRe.ReplaceAllString(out2, "") == c09ThreadsLineRe.ReplaceAllString(out3, "") {
				key = "C09:not-stable-after-two:threads-rounding"
			}
			add(key, "format(format(format(x))) differs from format(format(x))", map[string]interface{}{"formatted": out1, "formatted_twice": out2, "formatted_three_times": out3})
		}
	} else if out2 != out1 {
		cls := c09Class(ast0)
		if thr && c09ThreadsLineRe.ReplaceAllString(out1, "") == c09ThreadsLineRe.ReplaceAllString(out2, "") {
			cls = "threads-rounding" // nothing but `threads = ...` lines differ
		} else if cls == "other" && c09NoBlank(out1) == c09NoBlank(out2) {
			cls = "blank-lines-only"
			if strictComments {
				// inside the property's domain (every comment precedes an element) the blank-line
				// oscillation F27 is repaired (1938fea): there it is a violation, not the known finding
				cls = "blank-lines-only:strict-positions"
			}
		} else if cls == "other" && c09BindListHasComments(ast0) {
			cls = "comment-before-open-paren"
		} else if cls == "other" && !strictComments && len(c09Comments(src)) > 0 {
			cls = "comments"
		}
		add("C09:not-idempotent:"+cls, "format(format(x)) differs from format(x)", map[string]interface{}{"formatted": out1, "formatted_twice": out2})
	}
	c0, c1 := c09Comments(src), c09Comments([]byte(out1))
	// multiset inclusion c0 ⊆ c1
	j := 0
	var lost []string
	for _, x := range c0 {
		for j < len(c1) && c1[j] < x {
			j++
		}
		if j < len(c1) && c1[j] == x {
			j++
		} else {
			lost = append(lost, x)
		}
	}
	if len(lost) > 0 {
		key := "C09:comment-lost"
		if c09EmptyUsingRe.Match(src) {
			key = "C09:comment-lost:empty-using-block"
		} else if rc := c09RetainEntryComments(ast0); len(rc) > 0 {
			all := true
			for _, x := range lost {
				all = all && rc[x]
			}
			if all {
				key = "C09:comment-lost:pipeline-retain-entry"
			}
		}
		if key == "C09:comment-lost" {
			// every lost comment stands directly before a map / struct entry whose key occurs again later
			// (the later entry overwrites the earlier one, and the comment goes with it)
			before := map[string]bool{}
			for _, m := range c09EntryAfterCommentRe.FindAllSubmatchIndex(src, -1) {
				k := string(src[m[4]:m[5]])
				if bytes.Contains(src[m[1]:], []byte(k)) {
					for _, l := range strings.Split(string(src[m[2]:m[3]]), "\n") {
						if t := strings.TrimSpace(l); t != "" {
							before[t] = true
						}
					}
				}
			}
			all := len(before) > 0
			for _, x := range lost {
				all = all && before[strings.TrimSpace(x)]
			}
			if all {
				key = "C09:comment-lost:before-overwritten-map-entry"
			}
		}
		if key == "C09:comment-lost" {
			// every lost comment stands directly before a map key whose string literal spans lines
			before := map[string]bool{}
			for _, m := range c09MultilineKeyRe.FindAllSubmatch(src, -1) {
				for _, l := range strings.Split(string(m[1]), "\n") {
					if t := strings.TrimSpace(l); t != "" {
						before[t] = true
					}
				}
			}
			all := len(before) > 0
			for _, x := range lost {
				all = all && before[strings.TrimSpace(x)]
			}
			if all {
				key = "C09:comment-lost:before-multiline-key"
			}
		}
		if key == "C09:comment-lost" {
			// every lost comment stands directly before a closing `]` / `}` (no element of the literal follows it)
			inEmpty := map[string]bool{}
			for _, m := range c09EmptyCollectionRe.FindAllSubmatch(src, -1) {
				for _, l := range strings.Split(string(m[1]), "\n") {
					if t := strings.TrimSpace(l); t != "" {
						inEmpty[t] = true
					}
				}
			}
			all := len(inEmpty) > 0
			for _, x := range lost {
				all = all && inEmpty[strings.TrimSpace(x)]
			}
			if all {
				key = "C09:comment-lost:before-closing-bracket"
			}
		}
		add(key, fmt.Sprintf("comment text lost by the formatter: %q", lost), map[string]interface{}{"formatted": out1})
	} else if strictComments && len(c1) != len(c0) {
		add("C09:comment-duplicated", fmt.Sprintf("%d comments in, %d comments out", len(c0), len(c1)), map[string]interface{}{"formatted": out1})
	} else if len(c1) != len(c0) {
		// comments in dangling positions are only promised to be kept; but the printer has no reason
		// to write one twice either (F32 did)
		add("C09:comment-duplicated:dangling-position", fmt.Sprintf("%d comments in, %d comments out", len(c0), len(c1)), map[string]interface{}{"formatted": out1})
	} else if strictComments {
		// every comment stays in front of the thing it was written for (and is not, say, moved to
		// the end of the file): the token that follows the comment is the same in the output
		if a0, ok := c09CommentAnchors(src); ok {
			a1, _ := c09CommentAnchors([]byte(out1))
			if len(a0) > 0 {
				r.hist("strict:comment-anchors-compared")
			}
			// multiset inclusion a0 ⊆ a1
			j := 0
			for _, x := range a0 {
				for j < len(a1) && a1[j] < x {
					j++
				}
				if j < len(a1) && a1[j] == x {
					j++
					continue
				}
				was := strings.SplitN(x, "\x00", 2)
				add("C09:comment-displaced", fmt.Sprintf("the comment %q stood before the token %q; in the output it does not", was[0], was[1]), map[string]interface{}{"formatted": out1})
				break
			}
		}
	}
	return keys
}

// c09Class names the known special class a program falls in (used in violation keys)
func c09Class(a *syntax.Ast) string {
	// first: the only known class whose output does not re-parse (a program can hold a huge
	// resource value AND e.g. an invalid-UTF-8 string)
	for _, st := range a.Stages {
		if r := st.Resources; r != nil {
			for _, v := range []float32{r.Threads, r.MemGB, r.VMemGB} {
				if v > 1e12 || v < -1e12 || v != v {
					return "huge-resource"
				}
			}
		}
	}
	if c09HasInvalidString(a) {
		return "invalid-utf8-string"
	}
	negZero := false
	var walk func(e syntax.Exp)
	walk = func(e syntax.Exp) {
		switch x := e.(type) {
		case *syntax.FloatExp:
			if x.Value == 0 && math.Signbit(x.Value) {
				negZero = true
			}
		case *syntax.ArrayExp:
			for _, v := range x.Value {
				walk(v)
			}
		case *syntax.MapExp:
			for _, v := range x.Value {
				walk(v)
			}
		case *syntax.SplitExp:
			walk(x.Value)
		}
	}
	binds := func(b *syntax.BindStms) {
		if b != nil {
			for _, s := range b.List {
				walk(s.Exp)
			}
		}
	}
	calls := append([]*syntax.CallStm{}, a.Call)
	for _, p := range a.Pipelines {
		calls = append(calls, p.Calls...)
		if p.Ret != nil {
			binds(p.Ret.Bindings)
		}
	}
	for _, c := range calls {
		if c != nil {
			binds(c.Bindings)
			if c.Modifiers != nil {
				binds(c.Modifiers.Bindings)
			}
		}
	}
	if negZero {
		return "negative-zero"
	}
	return "other"
}

// ---- known class: a `threads` value which is not a fixed point of print + read ----
//
// The parser rounds `threads` away from zero to 1/100 with roundUpTo(float32, 100), which
// computes ceil(float64(v)*100)/100: when the float32 nearest to k/100 lies above k/100 (0.31f =
// 0.310000002...), reading the printed value rounds up once more (0.31 -> 0.32).

// c09RealThreads is the canonicaliser `h` of the Lean model (Martian.FormatDeclText.HOK: the text
// the formatter prints for the value the parser stores for a `threads` literal), obtained from the
// REAL code: the literal is parsed inside a minimal stage and the stored float32 printed with %g.
// The harness has no copy of parsenum.go roundUpTo any more (second audit, C09 M2): the properties
// the theorems assume of h (it yields a NUM_FLOAT token or a canonical integer, and is idempotent)
// are checked on the real code by the stage-text streams and by the exhaustive hundredths monitor.
var c09RealThreadsCache = map[string]string{}

func c09RealThreads(raw string) string {
	if v, ok := c09RealThreadsCache[raw]; ok {
		return v
	}
	out := "?" + raw
	src := "stage S(\n    src py \"x\",\n) using (\n    threads = " + raw + ",\n)\n"
	if ast, err, pan := c09Parse([]byte(src), "threads.mro"); pan == "" && err == nil && ast != nil &&
		len(ast.Stages) == 1 && ast.Stages[0].Resources != nil && ast.Stages[0].Resources.ThreadNode != nil {
		out = fmt.Sprintf("%g", ast.Stages[0].Resources.Threads)
	}
	c09RealThreadsCache[raw] = out
	return out
}

// a `threads` value which is not a fixed point of print + read (F30, fixed by 9a743c1: kept as a
// class so that a regression is named)
func c09ThreadsUnstable(a *syntax.Ast) bool {
	for _, st := range a.Stages {
		if r := st.Resources; r != nil && r.ThreadNode != nil {
			if t := fmt.Sprintf("%g", r.Threads); c09RealThreads(t) != t {
				return true
			}
		}
	}
	return false
}

var c09ThreadsDumpRe = regexp.MustCompile(`using\(t=(true|false)[^,]*,`)
var c09ThreadsLineRe = regexp.MustCompile(`(?m)^\s*threads\s*=.*\n`)

func c09MaskThreads(d []string) []string {
	out := make([]string, len(d))
	for i, l := range d {
		if strings.HasPrefix(l, "stage ") {
			l = c09ThreadsDumpRe.ReplaceAllString(l, "using(t=$1*,")
		}
		out[i] = l
	}
	return out
}

// comments attached to the entries of a pipeline's retain list (known class: they are dropped)
func c09RetainEntryComments(a *syntax.Ast) map[string]bool {
	out := map[string]bool{}
	for _, p := range a.Pipelines {
		if p.Retain != nil {
			for _, ref := range p.Retain.Refs {
				for _, cm := range syntax.GetComments(ref) {
					out[strings.TrimSpace(cm)] = true
				}
			}
		}
	}
	return out
}

// known class: a comment attached to a binding list itself (not to its first binding).  This
// needs the list's opening parenthesis on a later line than the `call` / `return` keyword with
// the comment in between; the list hands its comments to its first binding AND keeps them.
func c09BindListHasComments(a *syntax.Ast) bool {
	var lists []*syntax.BindStms
	calls := []*syntax.CallStm{a.Call}
	for _, p := range a.Pipelines {
		calls = append(calls, p.Calls...)
		if p.Ret != nil {
			lists = append(lists, p.Ret.Bindings)
		}
	}
	for _, c := range calls {
		if c != nil {
			lists = append(lists, c.Bindings)
			if c.Modifiers != nil {
				lists = append(lists, c.Modifiers.Bindings)
			}
		}
	}
	for _, l := range lists {
		if l == nil {
			continue
		}
		if len(syntax.GetComments(l)) > 0 {
			return true
		}
		// comment blocks followed by a blank line are kept in the unexported AstNode.scopeComments
		if f := reflect.ValueOf(l).Elem().FieldByName("Node").FieldByName("scopeComments"); f.IsValid() && f.Len() > 0 {
			return true
		}
	}
	return false
}

var c09EntryAfterCommentRe = regexp.MustCompile(`((?:#[^\n]*\n\s*)+)("(?:[^"\\\n]|\\.)*"|[A-Za-z_]\w*)\s*:`)

var c09MultilineKeyRe = regexp.MustCompile(`((?:#[^\n]*\n\s*)+)"(?:[^"\\\n]|\\.)*\n`)

var c09EmptyCollectionRe = regexp.MustCompile(`((?:#[^\n]*\n\s*)+)[\]}]`)

var c09EmptyUsingRe = regexp.MustCompile(`using\s*\(\s*(#[^\n]*\n\s*)+\)`)

func c09NoBlank(s string) string {
	var out []string
	for _, l := range strings.Split(s, "\n") {
		if strings.TrimSpace(l) != "" {
			out = append(out, l)
		}
	}
	return strings.Join(out, "\n")
}

func c09HasInvalidString(a *syntax.Ast) bool {
	for _, l := range c09Dump(a, false) {
		if !utf8.ValidString(l) || strings.Contains(l, `\x`) {
			// strconv.Quote writes invalid bytes as \xNN
			return true
		}
	}
	return false
}

// ---------- program generator ----------

var c09StrVals = []string{`""`, `"a"`, `"a b"`, `"x\ty"`, `"q\"uote"`, `"back\\slash"`, `"new\nline"`, `"\u00e9"`, `"é"`, `"😀"`,
	`"\U0001F600"`, `"\x41"`, `"\101"`, `"\a\b\f\r\v"`, `"\u2028"`, `"\u0001"`, `"/path/to/x.txt"`, `"#not a comment"`, `"\u007f"`, `"tab	raw"`}

var c09NumVals = []string{"0", "1", "-1", "42", "9223372036854775807", "-9223372036854775808", "1.5", "-0.25", "1e3", "1.0", "2.50",
	"1e21", "1e-7", "1.7976931348623157e308", "4.9e-324", "0.1", "123456789.125", "1e15", "1e16", "100.0", "-0.0", "0.0"}

type c09Gen struct {
	c    *Ctx
	sb   strings.Builder
	feat map[string]bool // features of the program being generated (printed with r.hist)
	// dangling mode (c09dangle.go): values of every shape the comment positions need
	dangling bool
}

func (g *c09Gen) f(format string, a ...interface{}) {
	if g.feat == nil {
		g.feat = map[string]bool{}
	}
	g.feat[fmt.Sprintf(format, a...)] = true
}

func (g *c09Gen) pick(xs []string) string { return xs[g.c.Rng.Intn(len(xs))] }

func (g *c09Gen) comment(indent string) {
	n := 0
	for g.c.Rng.Intn(4) == 0 {
		fmt.Fprintf(&g.sb, "%s# c%d %s\n", indent, g.c.Rng.Intn(1000), g.pick([]string{"note", "é", "\"quoted\"", "# double", "trailing  ", ""}))
		n++
	}
	// a DETACHED block: a blank line between the comment and the element it precedes (the
	// formatter keeps such a block as a 'scope comment' with its blank line: F27 was about these)
	if n > 0 && g.c.Rng.Intn(4) == 0 {
		g.sb.WriteString("\n")
		g.f("comments:detached-block")
		if indent == "" {
			g.f("comments:detached-block:top-level")
		}
	}
}

// words the tokenizer knows which the grammar also accepts as identifiers
var c09KeywordIds = []string{"threads", "mem_gb", "memgb", "vmem_gb", "special", "volatile", "local", "preflight", "strict", "split",
	"using", "retain", "struct", "filetype", "exec", "comp", "disabled"}

// id returns base, sometimes padded to a length around the formatter's column thresholds
// (bindings 30, parameters 35, stage chunk parameters 30), sometimes a keyword-like identifier.
func (g *c09Gen) id(base string) string {
	switch k := g.c.Rng.Intn(20); {
	case k < 3:
		n := 29 + g.c.Rng.Intn(8)
		g.f("id-bytes:%d", n)
		return base + "_" + strings.Repeat("w", n-len(base)-1)
	case k == 3:
		g.f("id:keyword-like")
		return g.pick(c09KeywordIds)
	}
	return base
}

var c09Quoter = strings.NewReplacer(`\`, `\\`, `"`, `\"`)

// help returns a string literal; one in three has a value of 19..26 bytes (thresholds 20 and 25)
func (g *c09Gen) help() string {
	rng := g.c.Rng
	if rng.Intn(3) != 0 {
		return g.pick(c09StrVals)
	}
	n := 19 + rng.Intn(8)
	g.f("help-bytes:%d", n)
	val := g.pick([]string{"", `"`, "é", `\`, "h h"})
	val += strings.Repeat("h", n-len(val))
	return `"` + c09Quoter.Replace(val) + `"`
}

func (g *c09Gen) val(depth int) string {
	if g.dangling && g.c.Rng.Intn(2) == 0 {
		return g.dval(depth)
	}
	switch k := g.c.Rng.Intn(10); {
	case k < 3:
		return g.pick(c09NumVals)
	case k < 5:
		return g.pick(c09StrVals)
	case k == 5:
		return g.pick([]string{"true", "false", "null"})
	case k == 6 && depth < 3:
		n := g.c.Rng.Intn(4)
		parts := make([]string, n)
		for i := range parts {
			parts[i] = g.val(depth + 1)
		}
		s := "[" + strings.Join(parts, ", ")
		if n > 0 && g.c.Rng.Intn(2) == 0 {
			s += ","
		}
		return s + "]"
	case k == 7 && depth < 3:
		n := g.c.Rng.Intn(3)
		parts := make([]string, n)
		for i := range parts {
			parts[i] = fmt.Sprintf("%s: %s", strings.Replace(g.pick(c09StrVals), `""`, fmt.Sprintf(`"k%d"`, i), 1), g.val(depth+1))
		}
		return "{" + strings.Join(parts, ", ") + "}"
	case k == 8 && depth < 3:
		n := 1 + g.c.Rng.Intn(2)
		parts := make([]string, n)
		for i := range parts {
			parts[i] = fmt.Sprintf("f%d: %s", i, g.val(depth+1))
		}
		return "{" + strings.Join(parts, ", ") + "}"
	default:
		return g.pick([]string{"self.a", "self.a.b", "Q0", "Q0.o", "Q0.o.x", "Q1.default", "self.threads"})
	}
}

func (g *c09Gen) typ() string {
	t := g.pick([]string{"int", "float", "string", "bool", "path", "map", "file", "txt", "json.gz", "a.b.c", "PAIR", "map<int>", "map<txt[]>",
		"map<PAIR>", "map<json.gz[][]>", "map<string>"})
	return t + strings.Repeat("[]", g.c.Rng.Intn(3)/2*(1+g.c.Rng.Intn(2)))
}

// params writes nIn input and nOut output parameter lines and returns the ids of the outputs
func (g *c09Gen) params(nIn, nOut int, prefix string) (outs []string) {
	rng := g.c.Rng
	for i := 0; i < nIn; i++ {
		g.comment("    ")
		help := ""
		if rng.Intn(3) == 0 {
			help = " " + g.help()
		}
		fmt.Fprintf(&g.sb, "    in  %s %s%s,\n", g.typ(), g.id(fmt.Sprintf("%s%d", prefix, i)), help)
	}
	for i := 0; i < nOut; i++ {
		g.comment("    ")
		id := g.id(fmt.Sprintf("o%s%d", prefix, i))
		outname := g.pick([]string{`"out.txt"`, `"o\"x"`, `"é.bin"`, `""`, `"dir/sub name.json.gz"`})
		switch rng.Intn(8) {
		case 0:
			fmt.Fprintf(&g.sb, "    out %s,\n", g.typ())
			id = "default"
		case 1:
			fmt.Fprintf(&g.sb, "    out %s %s,\n", g.typ(), g.help())
			id = "default"
		case 2:
			fmt.Fprintf(&g.sb, "    out %s %s %s,\n", g.typ(), g.help(), outname)
			id = "default"
		case 3:
			fmt.Fprintf(&g.sb, "    out %s %s %s %s,\n", g.typ(), id, g.help(), outname)
		case 4:
			fmt.Fprintf(&g.sb, "    out %s %s %s,\n", g.typ(), id, g.help())
		default:
			fmt.Fprintf(&g.sb, "    out %s %s,\n", g.typ(), id)
		}
		outs = append(outs, id)
	}
	return outs
}

// resNum returns the text of a resource value: sign (1/3 negative), zero in several spellings,
// fractions below and above 1 (multiples of 1/1024 and values between them), integers, large
// values, exponent spellings, many decimals, leading zeros; rarely the known absurd class > 1e12.
func (g *c09Gen) resNum(what string) string {
	rng := g.c.Rng
	var s, cls string
	switch k := rng.Intn(200); {
	case k == 0:
		cls, s = "absurd", g.pick([]string{"1e13", "9012345678901235", "1e30", "23372036854775808"})
	case k < 20:
		cls, s = "zero", g.pick([]string{"0", "0.0", "00", "0e0", "0.000", "0E-3"})
	case k < 80:
		cls = "below-1"
		if rng.Intn(3) == 0 {
			s = strconv.FormatFloat(float64(1+rng.Intn(1023))/1024, 'f', -1, 64)
		} else {
			s = g.pick([]string{"0.5", "0.25", "0.001", "0.0009", "0.9999", "0.75", "0.05", "0.1", "0.07", "0.09", "0.3", "0.999", "2.5e-1", "5E-1",
				"0.123456789", "00.5", "0.0001", "1e-7", "0.99999999", "0.01", "0.02"})
		}
	case k < 120:
		cls, s = "fraction-above-1", g.pick([]string{"2.5", "12.125", "1023.999", "1.1", "3.3", "1.5", "1.0009", "8191.5", "8192.25", "16384.125",
			"100000.5", "1.25e1", "007.5", "1.000001", "2.0", "1.01", "63.99"})
	case k < 160:
		cls, s = "integer", g.pick([]string{"1", "2", "3", "16", "42", "007", "1024", "1023", "100"})
	default:
		cls, s = "large-or-exponent", g.pick([]string{"1e6", "4e9", "1e2", "1E3", "1000000", "123456789", "1e+2", "2.5e3", "65536", "1e12"})
	}
	if rng.Intn(3) == 0 {
		s, cls = "-"+s, "negative-"+cls
	}
	g.f("resource:%s:%s", what, cls)
	return s
}

// resources writes a stage's `using (...)` block: any subset of the keys in any order, both
// spellings of the memory keys, sometimes a key twice (the last one wins), sometimes none.
func (g *c09Gen) resources() {
	rng := g.c.Rng
	keys := []string{"mem", "vmem", "threads", "special", "volatile"}
	rng.Shuffle(len(keys), func(i, j int) { keys[i], keys[j] = keys[j], keys[i] })
	var entries []string
	for _, k := range keys {
		if rng.Intn(2) == 0 {
			entries = append(entries, k)
		}
	}
	if len(entries) > 0 && rng.Intn(5) == 0 {
		k := entries[rng.Intn(len(entries))]
		pos := rng.Intn(len(entries) + 1)
		entries = append(entries[:pos], append([]string{k}, entries[pos:]...)...)
		g.f("using:repeated-key")
	}
	if g.dangling && rng.Intn(4) == 0 {
		entries = nil // `using ()`
	}
	g.f("using:entries:%d", len(entries))
	if len(entries) > 0 {
		g.f("using:first:%s", entries[0])
	}
	g.sb.WriteString(") using (\n")
	for _, k := range entries {
		g.comment("    ")
		switch k {
		case "mem":
			fmt.Fprintf(&g.sb, "    %s = %s,\n", g.pick([]string{"mem_gb", "memgb"}), g.resNum("mem_gb"))
		case "vmem":
			fmt.Fprintf(&g.sb, "    %s = %s,\n", g.pick([]string{"vmem_gb", "vmemgb"}), g.resNum("vmem_gb"))
		case "threads":
			fmt.Fprintf(&g.sb, "    threads = %s,\n", g.resNum("threads"))
		case "special":
			fmt.Fprintf(&g.sb, "    special = %s,\n", g.pick(c09StrVals))
		default:
			v := g.pick([]string{"strict", "false"})
			g.f("using:volatile=%s", v)
			fmt.Fprintf(&g.sb, "    volatile = %s,\n", v)
		}
	}
}

var c09SrcCmds = []string{`"stages/s"`, `"bin/s -v --k=v"`, `"s   a    b"`, `"é"`, `"  lead trail  "`, `"a\tb\nc"`, `"q\"uote x"`, `"back\\slash arg"`,
	`"/abs/bin --opt=\"quoted value\" x"`, `"s t u v"`, `"martian_stage --flag"`, `"x #y"`}

func (g *c09Gen) stage(name string) {
	rng := g.c.Rng
	g.comment("")
	fmt.Fprintf(&g.sb, "stage %s(\n", name)
	outs := g.params(rng.Intn(4), rng.Intn(3), "x")
	g.comment("    ")
	lang := g.pick([]string{"py", "exec", "comp"})
	g.f("src:%s", lang)
	fmt.Fprintf(&g.sb, "    src %s %s,\n", lang, g.pick(c09SrcCmds))
	switch rng.Intn(6) {
	case 0:
		g.f("stage:split-using")
		g.sb.WriteString(") split using (\n")
		g.params(rng.Intn(3), rng.Intn(3), "c")
	case 1:
		g.f("stage:split")
		g.sb.WriteString(") split (\n")
		g.params(rng.Intn(3), rng.Intn(3), "c")
	}
	if rng.Intn(2) == 0 {
		g.resources()
	}
	if rng.Intn(4) == 0 {
		g.sb.WriteString(") retain (\n")
		n := rng.Intn(4)
		if g.dangling && rng.Intn(3) == 0 {
			n = 0 // `retain ()`
		}
		g.f("stage:retain:%d", n)
		for i := 0; i < n; i++ {
			g.comment("    ")
			id := "ox0"
			if len(outs) > 0 && rng.Intn(4) != 0 {
				id = outs[rng.Intn(len(outs))]
			}
			if id == "default" {
				id = g.pick(c09KeywordIds)
			}
			fmt.Fprintf(&g.sb, "    %s,\n", id)
		}
	}
	g.sb.WriteString(")\n\n")
}

func (g *c09Gen) structDecl(name string) {
	rng := g.c.Rng
	g.comment("")
	fmt.Fprintf(&g.sb, "struct %s(\n", name)
	n := 1 + rng.Intn(4)
	for i := 0; i < n; i++ {
		g.comment("    ")
		id := g.id(fmt.Sprintf("m%d", i))
		switch rng.Intn(4) {
		case 0:
			g.f("struct:member-help-outname")
			fmt.Fprintf(&g.sb, "    %s %s %s %s,\n", g.typ(), id, g.help(), g.pick([]string{`"m.txt"`, `"o\"x"`, `"é"`, `"a/b c"`}))
		case 1:
			g.f("struct:member-help")
			fmt.Fprintf(&g.sb, "    %s %s %s,\n", g.typ(), id, g.help())
		default:
			fmt.Fprintf(&g.sb, "    %s %s,\n", g.typ(), id)
		}
	}
	g.sb.WriteString(")\n\n")
}

func (g *c09Gen) pipeline(name string, callees []string) {
	rng := g.c.Rng
	g.comment("")
	fmt.Fprintf(&g.sb, "pipeline %s(\n", name)
	g.params(rng.Intn(3), rng.Intn(3), "p")
	g.sb.WriteString(")\n{\n")
	nCalls := 1 + rng.Intn(4)
	if rng.Intn(10) == 0 || len(callees) == 0 {
		nCalls = 0
		g.f("pipeline:no-calls")
	}
	ids := make([]string, nCalls)
	callee := make([]string, nCalls)
	for k := range ids {
		callee[k] = callees[rng.Intn(len(callees))]
		ids[k] = fmt.Sprintf("K%d", k)
		if rng.Intn(6) == 0 {
			ids[k] = g.id(ids[k])
		} else if rng.Intn(5) == 0 {
			ids[k] = callee[k] // not aliased: the call is known by the name of what it calls
		}
		for j := 0; j < k; j++ {
			if ids[j] == ids[k] {
				// two calls of one name are a compile error, and the dependency sort of the
				// formatter is keyed by call name
				ids[k] = fmt.Sprintf("K%d", k)
			}
		}
	}
	for k := 0; k < nCalls; k++ {
		g.comment("    ")
		mods := ""
		for n := rng.Intn(3) * rng.Intn(2); n > 0; n-- {
			m := g.pick([]string{" local", " preflight", " volatile"})
			g.f("call:keyword%s", strings.Replace(m, " ", "-", 1))
			mods += m
		}
		isMap := rng.Intn(4) == 0
		head := "call"
		if isMap {
			head = "map call"
			g.f("call:map")
		}
		if ids[k] == callee[k] {
			g.f("call:not-aliased")
			fmt.Fprintf(&g.sb, "    %s%s %s(\n", head, mods, callee[k])
		} else {
			fmt.Fprintf(&g.sb, "    %s%s %s as %s(\n", head, mods, callee[k], ids[k])
		}
		nb := rng.Intn(4)
		if isMap && nb == 0 {
			nb = 1
		}
		for b := 0; b < nb; b++ {
			g.comment("        ")
			v := g.val(0)
			if k+1 < nCalls && rng.Intn(3) == 0 {
				v = ids[k+1+rng.Intn(nCalls-k-1)] + ".o" // forward reference: forces reordering
				g.f("call:forward-reference")
			}
			if isMap && b == 0 {
				v = "split " + g.pick([]string{"[1, 2]", `{"a": 1}`, "self.p0", "K0.o", `[{"k\"q": [1.5]}, {}]`})
			}
			fmt.Fprintf(&g.sb, "        %s = %s,\n", g.id(fmt.Sprintf("x%d", b)), v)
		}
		if rng.Intn(4) == 0 {
			w := g.pick([]string{"self", "self", "K0", "K0.o", "self.p0", "self.p0.a.b", "Q0.default"})
			g.f("call:wildcard")
			fmt.Fprintf(&g.sb, "        *  = %s,\n", w)
		}
		g.sb.WriteString("    )")
		if rng.Intn(3) == 0 {
			ms := []string{"local", "preflight", "volatile", "disabled"}
			rng.Shuffle(len(ms), func(i, j int) { ms[i], ms[j] = ms[j], ms[i] })
			ms = ms[:rng.Intn(4)]
			g.f("call:using-entries:%d", len(ms))
			g.sb.WriteString(" using (\n")
			for _, m := range ms {
				g.comment("        ")
				v := g.pick([]string{"true", "false"})
				if m == "disabled" {
					v = g.pick([]string{"self.p0", "K0.flag", "Q0.off.x", "self.d.e"})
				}
				g.f("call:bound-%s", m)
				fmt.Fprintf(&g.sb, "        %s = %s,\n", m, v)
			}
			g.sb.WriteString("    )")
		}
		g.sb.WriteString("\n")
	}
	g.comment("    ")
	g.sb.WriteString("    return (\n")
	nr := rng.Intn(4)
	g.f("return:bindings:%d", nr)
	for i := 0; i < nr; i++ {
		g.comment("        ")
		fmt.Fprintf(&g.sb, "        %s = %s,\n", g.id(fmt.Sprintf("op%d", i)), g.val(1))
	}
	if rng.Intn(12) == 0 {
		g.f("return:wildcard")
		fmt.Fprintf(&g.sb, "        * = %s,\n", g.pick([]string{"self", "K0", "K0.o"}))
	}
	g.sb.WriteString("    )\n")
	if rng.Intn(3) == 0 {
		n := rng.Intn(4)
		g.f("pipeline:retain:%d", n)
		g.sb.WriteString("    retain (\n")
		for i := 0; i < n; i++ {
			g.comment("        ")
			fmt.Fprintf(&g.sb, "        %s,\n", g.pick([]string{"K0.o", "K1.o.x", "K0", "self.p0", "self.p0.f", "Q0.default", "K2.oxw"}))
		}
		g.sb.WriteString("    )\n")
	}
	g.sb.WriteString("}\n\n")
}

func (g *c09Gen) program() string {
	g.sb.Reset()
	g.feat = map[string]bool{}
	rng := g.c.Rng
	g.comment("")
	if rng.Intn(8) == 0 || g.dangling && rng.Intn(3) == 0 {
		n := 1 + rng.Intn(2)
		g.f("includes:%d", n)
		for i := 0; i < n; i++ {
			fmt.Fprintf(&g.sb, "@include %s\n", g.pick([]string{`"lib/a.mro"`, `"x y.mro"`, `"é.mro"`, `"a\"b.mro"`, `"../up/b.mro"`, `"a\\b.mro"`}))
		}
		g.sb.WriteString("\n")
		g.comment("")
	}
	if rng.Intn(3) == 0 {
		fts := []string{"txt", "json.gz", "a.b.c", "bam"}
		n := 1 + rng.Intn(len(fts))
		g.f("filetypes:%d", n)
		for _, ft := range fts[:n] {
			fmt.Fprintf(&g.sb, "filetype %s;\n", ft)
		}
		g.sb.WriteString("\n")
	}
	if rng.Intn(3) == 0 {
		g.f("struct")
		g.structDecl("PAIR")
		if rng.Intn(3) == 0 {
			g.structDecl(g.id("TRIO"))
		}
	}
	// stages and pipelines, interleaved (their relative order is part of the program text)
	nStages := 1 + rng.Intn(3)
	nPipes := 0
	if rng.Intn(5) != 0 {
		nPipes = 1 + rng.Intn(4)/3
	}
	callees := make([]string, nStages)
	for i := range callees {
		callees[i] = fmt.Sprintf("S%d", i)
	}
	s, p := 0, 0
	for s < nStages || p < nPipes {
		if p >= nPipes || (s < nStages && rng.Intn(3) != 0) {
			g.stage(callees[s])
			s++
		} else {
			if s < nStages {
				g.f("pipeline-before-stage")
			}
			name := fmt.Sprintf("P%d", p)
			g.pipeline(name, callees) // any stage (declared before or after) and the pipelines before
			callees = append(callees, name)
			p++
		}
	}
	if rng.Intn(2) == 0 {
		g.comment("")
		mods := ""
		if rng.Intn(8) == 0 {
			mods = g.pick([]string{" local", " volatile", " local volatile"})
		}
		fmt.Fprintf(&g.sb, "call%s %s(\n", mods, g.pick([]string{"P0", "S0"}))
		g.comment("    ")
		fmt.Fprintf(&g.sb, "    %s = %s,\n", g.id("xp0"), g.val(0))
		if rng.Intn(2) == 0 {
			fmt.Fprintf(&g.sb, "    y = %s,\n", g.val(0))
		}
		g.sb.WriteString(")")
		if rng.Intn(8) == 0 {
			g.f("top-call:using")
			fmt.Fprintf(&g.sb, " using (\n    %s,\n)", g.pick([]string{"volatile = true", "local = false", "disabled = self.x"}))
		}
		g.sb.WriteString("\n")
	}
	return g.sb.String()
}

// ---------- main ----------

func runC09(c *Ctx) {
	r := c.Res
	r.Rule = "(1) strings: corpus + every single byte + PRNG mixes of escapes-worthy ASCII, control bytes, multi-byte runes (incl. U+2028/9, surrogate-range and >U+10FFFF encodings) and invalid bytes: Go quoteString vs Lean quoteString (bytes), and unquoteBytes(quoteString s) = s on the real code for valid UTF-8 (non-trivial = has a byte that is escaped or non-ASCII). (2) topoSort: pipelines of 1..9 calls over random dependency graphs (DAGs, forward/backward references, occasional cycles): real (*Pipeline).topoSort order vs Lean topoSort, plus permutation / dependency order / second-run-is-identity monitors (non-trivial = at least one call must move). (3) FormatSrcBytes on the repo's .mro files, generated programs (includes, dotted filetypes, structs with help/outname, stages and pipelines interleaved; comments before declarations/params/bindings/calls/resource keys/retain entries; every literal form; stage parameters with help/outname, typed maps and arrays, default outputs, ids of 29..36 bytes and help strings of 19..26 bytes around the formatter's column thresholds, keyword-like identifiers; every src language with arguments and escapes; split / split using chunk parameters; using blocks with any subset and order of mem_gb|memgb, vmem_gb|vmemgb, threads, special, volatile = strict|false, repeated keys, resource values with sign, zero spellings incl. -0, fractions below and above 1 incl. k/1024 and values between, integers, large values, exponent spellings, leading zeros, rarely > 1e12; stage and pipeline retains; calls with keyword and bound modifiers in any order, disabled, wildcard bindings, map calls, aliased or not, forward references; returns with 0..3 bindings; two comment modes: strict (2/3 of the programs: comments only before declarations, parameters, bindings, calls, return, resource keys, retain entries; monitors: re-parse, first output is a fixed point, AST dump equal up to call order, comment multiset equal, and every comment is followed by the same token as in the source, i.e. it is not moved to another node or to the end of the file) and dangling (1/3: the program gets values with empty / one-element / nested collections, duplicated and multi-line keys, is cut into tokens by the real tokenizer and 1..3-line comment blocks - own line or on the line of the previous token, with and without blank lines between and after them, trailing blanks / tabs / CR / non-ASCII text / `#` only, at the end of the file without a newline - are written into gaps between ANY two tokens: sparse, dense, or every gap of one position class; classes in the histogram gen:comments:dangling:*: before each closing bracket, inside empty brackets, between keyword and bracket, after a comma, between key / colon / value, before duplicated and multi-line keys, in one-element arrays, after the last declaration, around @include, inside filetype, parameter, src and map<> token runs; monitors: re-parse, AST dump equal, no comment lost or written twice, format(format x) is a fixed point of format); hand-written programs for each position family in corpus/C09/dangling.txt) and parsable C08-style mutants: re-parse, fixed point, AST dump equal up to call order, comment multiset (non-trivial = formatter changed the text); the AST dump is audited on every run (c09audit.go): reflect walks every struct type reachable from syntax.Ast, every exported field must be classified as dumped or excluded with a reason, every dumped field is altered in a parsed fixed program and the dump must change. (4) include graphs: diamond + nested directories, combined source compiles alone to an equivalent AST. (5) value expressions: generated expression ASTs (depth <= 4, about 80% well-formed, the rest with NaN/Inf/-0, invalid UTF-8, reserved or non-identifier keys and references, nil arrays; prefix \"\", four spaces or blanks+tab): syntax.FormatExp vs the Lean printer for all of them, Parser.ParseValExp on the printed text vs the Lean reader for all of them, and for those the model calls well-formed the real text re-parses to the normalised AST (nil array -> null, integral float -> int) and prints to the same text again (non-trivial = the text has a line break, an escape or a reference); then near-miss texts (printed texts and hand-written seeds mutated by 1-3 byte/line/comma/comment edits, among them bytes >= 0x80 outside string literals: Unicode white space and its neighbours, U+FFFD and invalid or truncated UTF-8 between tokens, inside identifiers and numbers, inside comments, comments at the end of the input): ParseValExp vs the Lean reader (both reject or same AST), the parser never panics, every accepted well-formed value survives print + read; on every one of those texts and on every printed text the token stream of the real scanner (mmLexInfo.Lex until the end of the input or an INVALID token) vs the model's lexAll, token by token."
	if c.Drv == nil {
		fatal("C09 needs the Lean driver")
	}
	reported := map[string]bool{}
	check := func(src []byte, path, origin string, mode int) {
		strict := mode
		keys := c09CheckFormat(c, src, path, origin, mode, false)
		for _, k := range keys {
			if reported[k] {
				continue
			}
			reported[k] = true
			min := c09Shrink(c, src, path, strict, k)
			c09CheckFormatReportOnly(c, min, path, origin, strict, k)
		}
	}

	// ---- 0. corpus ----
	for _, s := range readCorpusLines(c.Corpus) {
		if strings.HasPrefix(s, "exp:") {
			continue // value-expression texts: c09Exprs
		}
		r.hist("corpus")
		r.count("corpus:"+s, true)
		if strings.HasPrefix(s, "dangling:") {
			// comments in dangling positions (corpus/C09/dangling.txt)
			r.hist("corpus:dangling")
			prog := []byte(strings.TrimPrefix(s, "dangling:"))
			if a, err, pan := c09Parse(prog, "corpus.mro"); pan != "" || err != nil || a == nil {
				r.violate(Violation{Kind: "correspondence", Key: "C09:corpus-program-rejected", What: "a program of corpus/C09/dangling.txt is rejected by the parser (corpus defect): " + fmt.Sprint(err, pan),
					Input: string(prog)})
			} else if out, _, _ := c09Format(prog, "corpus.mro"); true {
				r.sample(map[string]string{"dangling_corpus_program": string(prog), "formatted": out})
			}
			check([]byte(strings.TrimPrefix(s, "dangling:")), filepath.Join(c.Scratch, "corpus.mro"), "corpus (dangling comments)", c09Dangling)
			continue
		}
		check([]byte(s), filepath.Join(c.Scratch, "corpus.mro"), "corpus", c09Loose)
	}

	// development aid: VERIF_C09_ONLY=format runs the formatter monitors of part 3 only
	onlyFormat := os.Getenv("VERIF_C09_ONLY") == "format"
	c09Timed := func(c *Ctx, name string, f func(*Ctx)) {
		if !onlyFormat {
			c09Timed(c, name, f)
		}
	}

	// ---- 1. quoteString ----
	c09Timed(c, "c09Strings", c09Strings)

	// ---- 2. topoSort ----
	c09Timed(c, "c09Topo", c09Topo)
	c09Timed(c, "c09Exprs", c09Exprs)         // ---- 2b. value expressions: FormatExp / ParseValExp (c09exp.go)
	c09Timed(c, "c09Calls", c09Calls)         // ---- 2c. call statements: CallStm.format / call_stm (c09call.go)
	c09Timed(c, "c09AuditDump", c09AuditDump) // ---- 2d. the AST dump below covers every field of the Go AST (c09audit.go)
	c09Timed(c, "c09Decl", c09Decl)           // ---- 2e. type names, parameter lists, struct and filetype declarations (c09decl.go)
	c09Timed(c, "c09Res", c09Res)             // ---- 2f. stage clauses: src line, using (formatGB), retain (c09res.go)
	c09Timed(c, "c09Call2", c09Call2)         // ---- 2g. full call statements, return, retain, pipeline bodies (c09call2.go)
	c09Timed(c, "c09Stage", c09Stage)         // ---- 2h. whole stage declarations: Stage.format / the grammar's stage production (c09stage.go)
	c09Timed(c, "c09Pipe", c09Pipe)           // ---- 2i. whole pipeline declarations incl. the reordering of calls (c09pipe.go)
	c09Timed(c, "c09File", c09File)           // ---- 2j. whole comment-free files: Ast.format / the grammar's file production / NewAst (c09file.go)

	// ---- 3. formatter monitors ----
	progSeeds, _ := c08LoadSeeds(c)
	for _, s := range progSeeds {
		r.hist("seed")
		out, _, _ := c09Format(s.src, s.path)
		r.count("seed:"+s.name, out != string(s.src))
		check(s.src, s.path, "seed:"+s.name, c09Loose)
	}
	g := &c09Gen{c: c}
	n := 1500
	if c.Thorough {
		n = 60000
	}
	tGen := time.Now()
	for i := 0; i < n; i++ {
		// a third of the programs: comments in every lexical position (c09dangle.go)
		mode, origin := c09Strict, "generated"
		var src string
		if c.Rng.Intn(3) == 0 {
			mode, origin = c09Dangling, "generated (dangling comments)"
			src = g.programDangling()
		} else {
			src = g.program()
		}
		out, _, _ := c09Format([]byte(src), "gen.mro")
		r.count("gen:"+src, out != src)
		r.hist("generated-program")
		for f := range g.feat {
			r.hist("gen:" + f)
		}
		if a, err, pan := c09Parse([]byte(src), "gen.mro"); pan != "" || err != nil || a == nil {
			r.hist("generated-program:rejected-by-the-parser")
			r.hist("generated-program:rejected:" + c08Norm(fmt.Sprint(err, pan)))
		}
		if i%401 == 0 {
			r.sample(map[string]string{"generated_program": src})
		}
		check([]byte(src), filepath.Join(c.Scratch, "gen.mro"), origin, mode)
	}
	r.note("part generated programs: %.1f s", time.Since(tGen).Seconds())
	// the repo's own .mro files with comments written into their gaps (dangling mode)
	nd := 250
	if c.Thorough {
		nd = 10000
	}
	for i := 0; i < nd; i++ {
		seed := progSeeds[c.Rng.Intn(len(progSeeds))]
		if a, err, pan := c09Parse(seed.src, seed.path); pan != "" || err != nil || a == nil {
			continue
		}
		g.feat = map[string]bool{}
		src := g.dangle(string(seed.src))
		r.count("dangled-seed:"+src, true)
		r.hist("dangled-seed")
		for f := range g.feat {
			r.hist("seed:" + f)
		}
		if a, err, pan := c09Parse([]byte(src), seed.path); pan != "" || err != nil || a == nil {
			r.hist("dangled-seed:rejected-by-the-parser")
			r.violate(Violation{Kind: "correspondence", Key: "C09:dangled-seed-rejected", What: "a parsable file is rejected after comments were written between its tokens (harness defect): " + fmt.Sprint(err, pan),
				Input: map[string]string{"seed": seed.name, "source": src}})
			continue
		}
		check([]byte(src), seed.path, "seed with dangling comments:"+seed.name, c09Dangling)
	}
	r.note("part generated programs + dangled seeds: %.1f s", time.Since(tGen).Seconds())
	tMut := time.Now()
	m := 3000
	if c.Thorough {
		m = 100000
	}
	parsable := 0
	for i := 0; i < m; i++ {
		seed := progSeeds[c.Rng.Intn(len(progSeeds))]
		mut, names := c08Mutate(c, seed.src, progSeeds)
		if a, err, pan := c09Parse(mut, seed.path); pan != "" || err != nil || a == nil {
			continue
		}
		parsable++
		r.count("mut:"+string(mut), true)
		r.hist("parsable-mutant")
		check(mut, seed.path, "mutant("+names+"):"+seed.name, c09Loose)
	}
	r.note("parsable mutants formatted: %d of %d in %.1f s", parsable, m, time.Since(tMut).Seconds())

	// ---- 4. include graphs ----
	c09Timed(c, "c09Includes", c09Includes)

	// ---- 5. expanded rendering of COMPILED programs (what mrp records as _mrosource) ----
	c09Timed(c, "c09Expanded", c09Expanded)
}

// c09Timed runs one part of the harness and notes its wall time in the evidence
func c09Timed(c *Ctx, name string, f func(*Ctx)) {
	t := time.Now()
	f(c)
	c.Res.note("part %s: %.1f s", name, time.Since(t).Seconds())
}

func c09CheckFormatReportOnly(c *Ctx, src []byte, path, origin string, strict int, key string) {
	// run once more with reporting, keeping only the requested key
	before := len(c.Res.Violations)
	c09CheckFormat(c, src, path, origin, strict, true)
	kept := c.Res.Violations[:before]
	for _, v := range c.Res.Violations[before:] {
		if v.Key == key {
			kept = append(kept, v)
		}
	}
	c.Res.Violations = kept
}

func c09Shrink(c *Ctx, src []byte, path string, strict int, key string) []byte {
	tries := 0
	has := func(b []byte) bool {
		tries++
		for _, k := range c09CheckFormat(c, b, path, "", strict, false) {
			if k == key {
				return true
			}
		}
		return false
	}
	// ddmin over lines (whole declarations go first), then over the bytes within the lines
	cur := []byte(shrinkLines(string(src), func(s string) bool { return has([]byte(s)) }, 2000))
	// ddmin only removes aligned blocks: a declaration of k lines in the middle survives when no
	// single line of it can go.  Slide windows of 15..1 lines over the text.
	lines := bytes.SplitAfter(cur, []byte("\n"))
	for size := 15; size >= 1 && tries < 4500; size-- {
		for start := 0; start+size <= len(lines) && tries < 4500; {
			cand := append(append([][]byte{}, lines[:start]...), lines[start+size:]...)
			if has(bytes.Join(cand, nil)) {
				lines = cand
			} else {
				start++
			}
		}
	}
	cur = bytes.Join(lines, nil)
	for chunk := 8; chunk >= 1 && tries < 8000; chunk /= 2 {
		for i := 0; i+chunk <= len(cur) && tries < 8000; {
			if bytes.IndexByte(cur[i:i+chunk], '\n') >= 0 {
				i++ // keep the line structure: the replay stays readable
				continue
			}
			cand := append(append([]byte{}, cur[:i]...), cur[i+chunk:]...)
			if has(cand) {
				cur = cand
			} else {
				i += chunk
			}
		}
	}
	return cur
}

// ---------- strings ----------

func c09GenString(c *Ctx) string {
	pieces := []string{"a", " ", "\"", "\\", "\n", "\t", "\r", "\b", "\f", "\x00", "\x01", "\x1f", "\x7f", "/", "é", "ÿ", "߿", "ࠀ", "￿",
		"\u2028", "\u2029", "\u2027", "\u202a", "😀", "\U0010FFFF", "\\n", "\\u0041", "\\x", "#", "'"}
	bad := []string{"\xff", "\xc3", "\xe2\x80", "\xed\xa0\x80", "\xf4\x90\x80\x80", "\x80", "\xc0\x80", "\xe2\x28\xa1"}
	var sb strings.Builder
	n := c.Rng.Intn(7)
	for i := 0; i < n; i++ {
		if c.Rng.Intn(12) == 0 {
			sb.WriteString(bad[c.Rng.Intn(len(bad))])
		} else if c.Rng.Intn(6) == 0 {
			sb.WriteByte(byte(c.Rng.Intn(256)))
		} else {
			sb.WriteString(pieces[c.Rng.Intn(len(pieces))])
		}
	}
	return sb.String()
}

func c09Strings(c *Ctx) {
	r := c.Res
	var strs []string
	for b := 0; b < 256; b++ {
		strs = append(strs, string([]byte{byte(b)}), "a"+string([]byte{byte(b)})+"b")
	}
	n := 4000
	if c.Thorough {
		n = 200000
	}
	for i := 0; i < n; i++ {
		strs = append(strs, c09GenString(c))
	}
	reqs := make([][]string, 0, len(strs))
	for _, s := range strs {
		reqs = append(reqs, []string{"C09.quote", hx(s)})
	}
	reps := c.Drv.AskBatch(reqs)
	for i, s := range strs {
		q := syntax.VerifQuoteString(s)
		nontriv := q != `"`+s+`"` || !isASCII(s)
		r.count("str:"+s, nontriv)
		if i%997 == 0 {
			r.sample(map[string]string{"string": strconv.Quote(s), "go_quoted": q})
		}
		if m := unhx(reps[i]); m != q {
			r.violate(Violation{Kind: "correspondence", Key: "C09:quote-model-mismatch", What: "quoteString differs from the Lean model",
				Input: strconv.Quote(s), Impl: strconv.Quote(q), Model: strconv.Quote(m), Broken: "correspondence C09.quote (Martian.Format.quoteString)"})
		}
		// property on the real code: the lexer accepts the quoted form as one token and unquoting returns s
		tok := syntax.VerifTokString([]byte(q))
		var back string
		ok := tok != nil && len(tok) == len(q)
		if ok {
			back = c08Try(func() string { return string(syntax.VerifUnquoteBytes(tok)) })
		}
		if ok && back == s {
			r.hist("string-roundtrip-ok")
			continue
		}
		if !utf8.ValidString(s) {
			r.hist("string-roundtrip-invalid-utf8")
			r.violate(Violation{Kind: "property", Key: "C09:string-roundtrip:invalid-utf8",
				What:  "a string value that is not valid UTF-8 (reachable with \\x / octal escapes) is printed with \\ufffd in place of the byte",
				Input: map[string]string{"string": strconv.Quote(s), "hex": hx(s)}, Impl: strconv.Quote(back), Expect: strconv.Quote(s)})
			continue
		}
		r.violate(Violation{Kind: "property", Key: "C09:string-roundtrip:" + hx(s),
			What:  "unquote(quoteString(s)) differs from s for a valid UTF-8 string",
			Input: map[string]string{"string": strconv.Quote(s), "hex": hx(s), "quoted": q}, Impl: strconv.Quote(back), Expect: strconv.Quote(s),
			Broken: "Props.C09.unquote_quote"})
	}
}

func isASCII(s string) bool {
	for i := 0; i < len(s); i++ {
		if s[i] >= 0x80 {
			return false
		}
	}
	return true
}

// ---------- topoSort ----------

func c09Topo(c *Ctx) {
	r := c.Res
	n := 1500
	if c.Thorough {
		n = 50000
	}
	type tcase struct {
		n         int
		edges     [][2]int
		order     []int
		err       bool
		src       string
		closed    string
		closedErr bool
	}
	var cases []tcase
	var reqs, creqs [][]string
	for i := 0; i < n; i++ {
		k := 1 + c.Rng.Intn(9)
		var edges [][2]int
		seen := map[[2]int]bool{}
		ne := c.Rng.Intn(2 * k)
		mode := c.Rng.Intn(5) // 0: backward refs only (sorted), 1: forward only, else mixed
		for j := 0; j < ne; j++ {
			a, b := c.Rng.Intn(k), c.Rng.Intn(k)
			if a == b {
				continue
			}
			if mode == 0 && a < b {
				a, b = b, a
			}
			if mode == 1 && a > b {
				a, b = b, a
			}
			if mode >= 2 && c.Rng.Intn(6) != 0 && a > b && c.Rng.Intn(2) == 0 {
				a, b = b, a
			}
			e := [2]int{a, b}
			if !seen[e] {
				seen[e] = true
				edges = append(edges, e)
			}
		}
		var sb strings.Builder
		sb.WriteString("stage S(in int[] z, out int o, src py \"s\",)\npipeline P(in int a, out int r,)\n{\n")
		for a := 0; a < k; a++ {
			var refs []string
			for _, e := range edges {
				if e[0] == a {
					refs = append(refs, fmt.Sprintf("C%d.o", e[1]))
				}
			}
			fmt.Fprintf(&sb, "    call S as C%d(z = [%s],)\n", a, strings.Join(refs, ", "))
		}
		sb.WriteString("    return (r = C0.o,)\n}\n")
		src := sb.String()
		ast, err, pan := c09Parse([]byte(src), "topo.mro")
		if pan != "" || err != nil || ast == nil || len(ast.Pipelines) != 1 {
			r.note("topoSort case did not parse: %v %s", err, pan)
			continue
		}
		p := ast.Pipelines[0]
		tc := tcase{n: k, edges: edges, src: src}
		// the dependency map the loop is run on: must be transitively closed (hypothesis of
		// Props.C09.topoSort_respects_deps), and equal to the model's closure
		closed, cerr := syntax.VerifClosedDeps(p)
		tc.closedErr = cerr != nil
		if cerr == nil {
			has := func(a, b string) bool {
				for _, x := range closed[a] {
					if x == b {
						return true
					}
				}
				return false
			}
			var pairs []string
			for a, ds := range closed {
				for _, b := range ds {
					pairs = append(pairs, strings.TrimPrefix(a, "C")+"-"+strings.TrimPrefix(b, "C"))
					for _, e := range closed[b] {
						if !has(a, e) {
							r.violate(Violation{Kind: "property", Key: "C09:deps-not-transitive",
								What:  fmt.Sprintf("the dependency map handed to the reordering loop is not transitively closed: %s -> %s -> %s but not %s -> %s", a, b, e, a, e),
								Input: src, Broken: "hypothesis transOn of Props.C09.topoSort_respects_deps"})
						}
					}
				}
			}
			sort.Slice(pairs, func(i, j int) bool {
				var a1, b1, a2, b2 int
				fmt.Sscanf(pairs[i], "%d-%d", &a1, &b1)
				fmt.Sscanf(pairs[j], "%d-%d", &a2, &b2)
				return a1 < a2 || (a1 == a2 && b1 < b2)
			})
			tc.closed = "."
			if len(pairs) > 0 {
				tc.closed = strings.Join(pairs, ",")
			}
		}
		func() {
			defer func() {
				if x := recover(); x != nil {
					tc.err = true
					r.violate(Violation{Kind: "property", Key: "C09:toposort-panic", What: fmt.Sprint("topoSort panicked: ", x), Input: src})
				}
			}()
			tc.err = syntax.VerifTopoSort(p) != nil
		}()
		for _, cl := range p.Calls {
			id, _ := strconv.Atoi(strings.TrimPrefix(cl.Id, "C"))
			tc.order = append(tc.order, id)
		}
		// monitors on the real result
		moved := false
		pos := make(map[int]int, k)
		for i, id := range tc.order {
			pos[id] = i
			if id != i {
				moved = true
			}
		}
		r.count("topo:"+src, moved)
		if len(pos) != k || len(tc.order) != k {
			r.violate(Violation{Kind: "property", Key: "C09:toposort-not-permutation", What: "topoSort lost or duplicated a call", Input: src, Impl: fmt.Sprint(tc.order)})
		}
		if !tc.err {
			r.hist("topo:acyclic")
			for _, e := range edges {
				if pos[e[0]] < pos[e[1]] {
					r.violate(Violation{Kind: "property", Key: "C09:toposort-order", What: fmt.Sprintf("call C%d is placed before its dependency C%d", e[0], e[1]),
						Input: src, Impl: fmt.Sprint(tc.order)})
					break
				}
			}
			// second run is the identity
			before := fmt.Sprint(tc.order)
			syntax.VerifTopoSort(p)
			var again []int
			for _, cl := range p.Calls {
				id, _ := strconv.Atoi(strings.TrimPrefix(cl.Id, "C"))
				again = append(again, id)
			}
			if fmt.Sprint(again) != before {
				r.violate(Violation{Kind: "property", Key: "C09:toposort-not-idempotent", What: "sorting a sorted pipeline changed the order", Input: src, Impl: before + " -> " + fmt.Sprint(again)})
			}
		} else {
			r.hist("topo:cycle-error")
		}
		cases = append(cases, tc)
		es := "."
		if len(edges) > 0 {
			parts := make([]string, len(edges))
			for i, e := range edges {
				parts[i] = fmt.Sprintf("%d-%d", e[0], e[1])
			}
			es = strings.Join(parts, ",")
		}
		reqs = append(reqs, []string{"C09.toposort", strconv.Itoa(k), es})
		creqs = append(creqs, []string{"C09.closure", strconv.Itoa(k), es})
	}
	reps := c.Drv.AskBatch(reqs)
	creps := c.Drv.AskBatch(creqs)
	for i, tc := range cases {
		cf := strings.Fields(creps[i])
		if len(cf) == 3 {
			mcyc := cf[0] == "cycle=true"
			if mcyc != tc.closedErr {
				r.violate(Violation{Kind: "correspondence", Key: "C09:closure-cycle-mismatch", What: "cycle detection of addNextDeps differs from the Lean closure",
					Input: tc.src, Impl: fmt.Sprint(tc.closedErr), Model: creps[i], Broken: "correspondence C09.closure (Martian.Format.closedDeps / hasCycle)"})
			} else if !mcyc {
				r.hist("closure:compared")
				if cf[2] != tc.closed {
					r.violate(Violation{Kind: "correspondence", Key: "C09:closure-model-mismatch", What: "the closed dependency map differs from the Lean closedDeps",
						Input: tc.src, Impl: tc.closed, Model: cf[2], Broken: "correspondence C09.closure (Martian.Format.closedDeps)"})
				}
				if cf[1] != "trans=true" {
					r.violate(Violation{Kind: "correspondence", Key: "C09:model-closure-not-transitive",
						What:  "the Lean closedDeps is not transitive on this graph: the hypothesis of topoSort_respects_deps / topoSort_idem fails",
						Input: tc.src, Model: creps[i], Broken: "hypothesis transOn of Props.C09.topoSort_respects_deps"})
				}
			}
		}
		parts := make([]string, len(tc.order))
		for j, id := range tc.order {
			parts[j] = strconv.Itoa(id)
		}
		if g := strings.Join(parts, " "); g != reps[i] {
			r.violate(Violation{Kind: "correspondence", Key: "C09:toposort-model-mismatch", What: "(*Pipeline).topoSort order differs from the Lean topoSort",
				Input: map[string]interface{}{"n": tc.n, "edges(a uses b)": tc.edges, "source": tc.src}, Impl: g, Model: reps[i],
				Broken: "correspondence C09.toposort (Martian.Format.topoSort)"})
		}
		if i%293 == 0 {
			r.sample(map[string]interface{}{"toposort_edges": tc.edges, "order": tc.order, "cycle_error": tc.err})
		}
	}
}

// ---------- include graphs ----------

func c09Includes(c *Ctx) {
	r := c.Res
	dir := filepath.Join(c.Scratch, "inc")
	write := func(rel, content string) string {
		p := filepath.Join(dir, rel)
		os.MkdirAll(filepath.Dir(p), 0o755)
		os.WriteFile(p, []byte(content), 0o644)
		return p
	}
	type graph struct {
		name  string
		files map[string]string
		top   string
	}
	graphs := []graph{
		{"diamond", map[string]string{
			"common.mro": "filetype txt;\n# the pair\nstruct PAIR(\n    int a \"help \\\"a\\\"\",\n    txt b,\n)\n",
			"left.mro":   "@include \"common.mro\"\n\nstage LEFT(\n    in  PAIR p,\n    out txt  o \"left out\" \"left.txt\",\n    src py   \"stages/left\",\n) using (\n    mem_gb = 2.5,\n)\n",
			"right.mro":  "@include \"common.mro\"\n\nstage RIGHT(\n    in  txt  i,\n    out PAIR q,\n    src comp \"bin/right --flag\",\n)\n",
			"top.mro":    "@include \"left.mro\"\n@include \"right.mro\"\n\n# top pipeline\npipeline TOP(\n    in  PAIR p,\n    out PAIR q,\n)\n{\n    call RIGHT(\n        i = LEFT.o,\n    )\n    call LEFT(\n        p = self.p,\n    )\n    return (\n        q = RIGHT.q,\n    )\n}\n\ncall TOP(\n    p = {\n        a: 1,\n        b: \"x\\ty\",\n    },\n)\n",
		}, "top.mro"},
		{"nested-dirs", map[string]string{
			"lib/types/t.mro":  "filetype bam;\nfiletype json.gz;\n",
			"lib/stages/s.mro": "@include \"lib/types/t.mro\"\n\nstage ALIGN(\n    in  bam     input,\n    in  int     n,\n    out json.gz summary,\n    src exec    \"align\",\n) split (\n    in  int     chunk,\n    out bam     part,\n) retain (\n    summary,\n)\n",
			"pipes/p.mro":      "@include \"lib/stages/s.mro\"\n\npipeline RUN(\n    in  bam       b,\n    out json.gz[] s,\n)\n{\n    map call ALIGN(\n        input = self.b,\n        n     = split [1, 2, 3],\n    ) using (\n        volatile = true,\n    )\n    return (\n        s = ALIGN.summary,\n    )\n    retain (\n        ALIGN.summary,\n    )\n}\n",
			"main.mro":         "@include \"pipes/p.mro\"\n\ncall RUN(\n    b = \"/data/x.bam\",\n)\n",
		}, "main.mro"},
	}
	for gi, g := range graphs {
		os.RemoveAll(dir)
		var topPath string
		for rel, content := range g.files {
			p := write(rel, content)
			if rel == g.top {
				topPath = p
			}
		}
		r.count("include:"+g.name, true)
		r.hist("include-graph")
		func() {
			defer func() {
				if x := recover(); x != nil {
					r.violate(Violation{Kind: "property", Key: "C09:include-panic", What: fmt.Sprint("panic compiling include graph: ", x), Input: g.files})
				}
			}()
			src, _ := os.ReadFile(topPath)
			combined, _, ast, err := syntax.ParseSourceBytes(src, topPath, []string{dir}, false)
			if err != nil {
				r.violate(Violation{Kind: "correspondence", Key: "C09:include-graph-compile", What: "harness include graph does not compile: " + err.Error(), Input: g.files})
				return
			}
			alone := filepath.Join(c.Scratch, fmt.Sprintf("combined%d.mro", gi))
			_, _, ast2, err := syntax.ParseSourceBytes([]byte(combined), alone, nil, false)
			if err != nil {
				r.violate(Violation{Kind: "property", Key: "C09:mrosource-does-not-compile",
					What:  "the include-expanded single-file rendering does not compile on its own: " + err.Error(),
					Input: map[string]interface{}{"files": g.files, "combined": combined}})
				return
			}
			d1, d2 := c09Dump(ast, true), c09Dump(ast2, true)
			// the combined rendering has no include directives
			var d1n []string
			for _, l := range d1 {
				if !strings.HasPrefix(l, "include ") {
					d1n = append(d1n, l)
				}
			}
			if diff := c09DiffDump(d1n, d2); diff != "" {
				r.violate(Violation{Kind: "property", Key: "C09:mrosource-not-equivalent",
					What:  "the include-expanded rendering denotes a different program: " + diff,
					Input: map[string]interface{}{"files": g.files, "combined": combined}})
			}
			if !ast.EquivalentCall(ast2) {
				r.violate(Violation{Kind: "property", Key: "C09:mrosource-call-not-equivalent",
					What:  "EquivalentCall(multi-file AST, AST of the combined rendering) is false",
					Input: map[string]interface{}{"files": g.files, "combined": combined}})
			}
			// every comment of every file is in the combined rendering
			var all []string
			for _, content := range g.files {
				all = append(all, c09Comments([]byte(content))...)
			}
			got := strings.Join(c09Comments([]byte(combined)), "\n")
			for _, cm := range all {
				if !strings.Contains(got, cm) {
					r.violate(Violation{Kind: "property", Key: "C09:mrosource-comment-lost", What: "comment missing from the combined rendering: " + cm,
						Input: map[string]interface{}{"files": g.files, "combined": combined}})
				}
			}
			// and it is a fixed point of the formatter
			if k := c09CheckFormat(c, []byte(combined), alone, "combined:"+g.name, c09Loose, true); len(k) > 0 {
				r.hist("include-combined-format-issue")
			}
		}()
	}
}

// ---------- expanded rendering of compiled programs ----------

// c09GenCompiling produces a well-typed program in four parts (types, stages, pipelines,
// top call) exercising everything the compiler rewrites in the AST: wildcard bindings
// (alone / after explicit bindings / over self, a stage, a struct input, a struct output),
// aliases, keyword and bound modifiers, disabled, map calls, calls out of dependency order.
func c09GenCompiling(c *Ctx) (types, stages, pipes, call string, features []string) {
	rng := c.Rng
	pick := func(name string, xs ...string) string {
		i := rng.Intn(len(xs))
		features = append(features, fmt.Sprintf("%s%d", name, i))
		return xs[i]
	}
	types = "filetype txt;\n\n# a pair\nstruct PAIR(\n    int a \"the a\",\n    txt b,\n)\n"
	res := pick("res", "", ") using (\n    mem_gb  = 2,\n    threads = 1,\n", ") using (\n    volatile = strict,\n")
	stages = "stage MAKE(\n    in  int  seed,\n    in  int  n,\n    in  int  k,\n    out int  v,\n    out PAIR p,\n    out bool ok,\n    src py   \"stages/make\",\n" + res + ")\n\n" +
		"# uses things\nstage USE(\n    in  int  v,\n    in  PAIR p,\n    in  int  seed,\n    out int  r,\n    src comp \"bin/use -x --k=v\",\n)\n\n" +
		"stage FIELDS(\n    in  int a,\n    in  txt b,\n    in  int k,\n    out int z,\n    src py  \"stages/fields\",\n) split (\n    in  int chunk,\n    out int part,\n)\n"
	mk := pick("make", "MAKE", "MAKE as M")
	mkId := "MAKE"
	if strings.Contains(mk, " as ") {
		mkId = "M"
	}
	b1 := pick("b1", "        k = 1,\n        * = self,\n", "        k = self.n,\n        * = self,\n",
		"        seed = self.seed,\n        n    = self.n,\n        k    = 3,\n", "        k = 7,\n        * = self,\n")
	b2 := pick("b2", "        seed = self.seed,\n        *    = "+mkId+",\n", "        v = "+mkId+".v,\n        * = self,\n",
		"        v    = "+mkId+".v,\n        p    = "+mkId+".p,\n        seed = self.seed,\n", "        seed = 3,\n        *    = "+mkId+",\n",
		"        v = 4,\n        * = self,\n")
	b3 := pick("b3", "        k = 1,\n        * = self.p,\n", "        k = 2,\n        * = "+mkId+".p,\n", "        a = self.p.a,\n        b = self.p.b,\n        k = 3,\n",
		"        k = "+mkId+".v,\n        * = self.p,\n")
	kw := pick("kw", "", "local ", "volatile ", "local volatile ")
	useMods := pick("usemods", "", " using (\n        volatile = true,\n    )", " using (\n        disabled = "+mkId+".ok,\n    )", " using (\n        local    = true,\n        disabled = "+mkId+".ok,\n    )")
	callMake := "    # make it\n    call " + kw + mk + "(\n" + b1 + "    )\n"
	callUse := "    call USE(\n" + b2 + "    )" + useMods + "\n"
	callFields := "    call FIELDS(\n" + b3 + "    )\n"
	order := pick("order", "mu", "um", "fum", "ufm")
	var body string
	for _, ch := range order {
		switch ch {
		case 'm':
			body += callMake + "\n"
		case 'u':
			body += callUse + "\n"
		case 'f':
			body += callFields + "\n"
		}
	}
	if !strings.Contains(order, "f") {
		body += callFields + "\n"
	}
	inner := "pipeline INNER(\n    in  int  seed,\n    in  int  n,\n    in  PAIR p,\n    out int  r,\n    out int  z,\n    out PAIR q,\n)\n{\n" + body +
		"    return (\n        r = USE.r,\n        z = FIELDS.z,\n        q = self.p,\n    )\n" + pick("retain", "", "\n    retain (\n        "+mkId+".p,\n    )\n") + "}\n\n"
	mapped := ""
	mapCall := ""
	mapRet := ""
	mapOut := ""
	if pick("map", "n", "y") == "y" {
		mapped = "pipeline MAPPED(\n    in  int[] vs,\n    in  PAIR  p,\n    in  int   seed,\n    out int[] rs,\n)\n{\n    map call USE(\n        v = split self.vs,\n        * = self,\n    )\n\n    return (\n        rs = USE.r,\n    )\n}\n\n"
		mapCall = "    call MAPPED(\n        vs = [\n            1,\n            2,\n        ],\n        * = self,\n    )\n\n"
		mapRet = "        rs = MAPPED.rs,\n"
		mapOut = "    out int[] rs,\n"
	}
	t1 := pick("top", "        * = self,\n", "        seed = self.seed,\n        n    = self.n,\n        p    = self.p,\n")
	pipes = inner + mapped + "# the top\npipeline TOP(\n    in  int  seed,\n    in  int  n,\n    in  PAIR p,\n    out int  r,\n" + mapOut + ")\n{\n    call INNER(\n" + t1 + "    )\n\n" + mapCall +
		"    return (\n        r = INNER.r,\n" + mapRet + "    )\n}\n"
	call = "call TOP(\n    seed = 1,\n    n    = 2,\n    p    = {\n        a: 1,\n        b: \"/x y\",\n    },\n)\n"
	return
}

func c09Expanded(c *Ctx) {
	r := c.Res
	n := 150
	if c.Thorough {
		n = 5000
	}
	dir := filepath.Join(c.Scratch, "exp")
	noCompile := 0
	tStart := time.Now()
	for i := 0; i < n; i++ {
		types, stages, pipes, call, feats := c09GenCompiling(c)
		single := types + "\n" + stages + "\n" + pipes + "\n" + call
		multi := map[string]string{
			"lib/types.mro":  types,
			"lib/stages.mro": "@include \"lib/types.mro\"\n\n" + stages,
			"pipes.mro":      "@include \"lib/stages.mro\"\n\n" + pipes,
			"main.mro":       "@include \"pipes.mro\"\n\n" + call,
		}
		for _, f := range feats {
			r.hist("compiled-feature:" + f)
		}
		for variant := 0; variant < 2; variant++ {
			os.RemoveAll(dir)
			os.MkdirAll(filepath.Join(dir, "lib"), 0o755)
			var top string
			var src []byte
			var inc []string
			name := "single-file"
			if variant == 0 {
				top = filepath.Join(dir, "single.mro")
				src = []byte(single)
				os.WriteFile(top, src, 0o644)
			} else {
				name = "multi-file"
				for rel, content := range multi {
					os.WriteFile(filepath.Join(dir, rel), []byte(content), 0o644)
				}
				top = filepath.Join(dir, "main.mro")
				src = []byte(multi["main.mro"])
				inc = []string{dir}
			}
			r.count("compiled:"+name+":"+single, true)
			r.hist("compiled-program:" + name)
			input := map[string]interface{}{"variant": name, "program": single, "features": feats}
			func() {
				defer func() {
					if x := recover(); x != nil {
						r.violate(Violation{Kind: "property", Key: "C09:expanded-panic", What: fmt.Sprint("panic compiling / rendering a generated program: ", x), Input: input})
					}
				}()
				combined, _, ast, err := syntax.ParseSourceBytes(src, top, inc, false)
				if err != nil {
					noCompile++
					if noCompile <= 3 {
						r.violate(Violation{Kind: "correspondence", Key: "C09:expanded-generator-does-not-compile",
							What: "harness-generated program does not compile (generator defect): " + err.Error(), Input: input})
					}
					return
				}
				input["rendering"] = combined
				alone := filepath.Join(c.Scratch, "rendered.mro")
				_, _, ast2, err := syntax.ParseSourceBytes([]byte(combined), alone, nil, false)
				if err != nil {
					r.violate(Violation{Kind: "property", Key: "C09:mrosource-does-not-compile",
						What:  "the rendering of the compiled program (what mrp records as _mrosource) does not compile on its own: " + err.Error(),
						Input: input})
					return
				}
				strip := func(d []string) []string {
					var o []string
					for _, l := range d {
						if !strings.HasPrefix(l, "include ") {
							o = append(o, l)
						}
					}
					return o
				}
				if diff := c09DiffDump(strip(c09Dump(ast, true)), c09Dump(ast2, true)); diff != "" {
					r.violate(Violation{Kind: "property", Key: "C09:mrosource-not-equivalent",
						What: "the rendering of the compiled program denotes a different program: " + diff, Input: input})
				}
				if !ast.EquivalentCall(ast2) {
					r.violate(Violation{Kind: "property", Key: "C09:mrosource-call-not-equivalent",
						What: "EquivalentCall(compiled AST, AST of its rendering) is false", Input: input})
				}
				// the compile steps must not leak into the text: for a single file the rendering of the
				// compiled AST is the canonical format of the source
				if variant == 0 {
					if want, err, pan := c09Format(src, top); err == nil && pan == "" && want != combined {
						r.violate(Violation{Kind: "property", Key: "C09:compiled-rendering-differs-from-format",
							What:  "rendering a compiled single-file program differs from formatting its source: a compile step leaked into the text",
							Input: input, Impl: combined, Expect: want})
					}
				}
				// rendering the rendering: fixed point, comments kept
				combined2, _, _, err := syntax.ParseSourceBytes([]byte(combined), alone, nil, false)
				if err == nil && c09NoBlank(combined2) != c09NoBlank(combined) {
					r.violate(Violation{Kind: "property", Key: "C09:mrosource-not-fixed-point",
						What: "rendering the compiled rendering again changes it (beyond blank lines)", Input: input, Impl: combined2})
				}
				want := c09Comments([]byte(single))
				got := strings.Join(c09Comments([]byte(combined)), "\n")
				for _, cm := range want {
					if !strings.Contains(got, cm) {
						r.violate(Violation{Kind: "property", Key: "C09:mrosource-comment-lost", What: "comment missing from the rendering: " + cm, Input: input})
					}
				}
			}()
		}
		if i%53 == 0 {
			r.sample(map[string]interface{}{"compiled_program": single, "features": feats})
		}
	}
	if noCompile > 0 {
		r.note("%d generated programs did not compile", noCompile)
	}
	r.note("compiled-rendering stream: %d programs x 2 variants in %.1fs", n, time.Since(tStart).Seconds())
}
