package main

// C15: edit classes about TYPES and WILDCARDS.
//
//   struct definitions (own original, like the literal classes): one input of a
//   reachable stage is re-typed to Pt / Pt[] / map<Pt> / Box / Box[] / map<Box>
//   (struct Box(Pt pt, int n, bam data) nests Pt and has a file-typed member) and
//   bound to null in every call; the edited program changes the DEFINITION of a
//   struct under its unchanged name: member added / removed / renamed / retyped,
//   in Pt (possibly nested inside Box) or in Box.  Ground truth: semantic (the
//   declared types of reachable parameters change) — refused since the repair
//   of F20.  struct-member-order (members permuted) and struct-member-filetype
//   (the file type of a scalar file member renamed) are cosmetic.
//
//   filetype-rename-in-collection: a user file type that a reachable parameter
//   uses inside an array / typed map is renamed everywhere.  The property counts
//   file-type names as cosmetic; equivalence.go compares the type name of every
//   parameter that is not a scalar file, so this is refused (stricter than the
//   property, safe direction; known finding).
//
//   wildcard-vs-explicit: `* = X` replaced by the bindings it expands to.  The
//   same values reach the same parameters; BindStms.Equals compares len(List),
//   which counts the `*` entry, so this is refused (known finding).

import (
	"fmt"
	"math/rand"
	"strings"

	"github.com/martian-lang/martian/martian/syntax"
)

var c15StructParamTypes = []string{"Pt", "Pt[]", "map<Pt>", "Box", "Box[]", "map<Box>"}

// c15StructBase: see above.  Returns the base program and a description of the re-typed parameter.
func c15StructBase(rng *rand.Rand, p *gProg) (*gProg, string, bool) {
	base := p.clone()
	stages := c15Stages(base, true)
	rng.Shuffle(len(stages), func(i, j int) { stages[i], stages[j] = stages[j], stages[i] })
	for _, st := range stages {
		if len(st.Ins) == 0 {
			continue
		}
		pi := rng.Intn(len(st.Ins))
		name := st.Ins[pi].Name
		usable, any := true, false
		cs := c15ReachableCalls(base)
		for _, cl := range cs {
			if cl.Callee != st.Name {
				continue
			}
			any = true
			found := false
			for _, b := range cl.Binds {
				if b.Id == name {
					found = true
					if strings.HasPrefix(b.Exp, "split ") {
						usable = false
					}
				}
			}
			if !found {
				usable = false
			}
		}
		if !usable || !any {
			continue
		}
		t := c15StructParamTypes[rng.Intn(len(c15StructParamTypes))]
		st.Ins[pi].Type = t
		for _, cl := range cs {
			if cl.Callee != st.Name {
				continue
			}
			for i := range cl.Binds {
				if cl.Binds[i].Id == name {
					cl.Binds[i].Exp = "null"
				}
			}
		}
		hasPt := false
		for _, s := range base.Structs {
			if s.Name == "Pt" {
				hasPt = true
			}
		}
		if !hasPt {
			base.Structs = append(base.Structs, gStructDef{Name: "Pt", Fields: []gParam{{Type: "int", Name: "x"}, {Type: "string", Name: "label"}}})
		}
		base.Structs = append(base.Structs, gStructDef{Name: "Box", Fields: []gParam{{Type: "Pt", Name: "pt"}, {Type: "int", Name: "n"}, {Type: "bam", Name: "data"}}})
		return base, fmt.Sprintf("%s.%s : %s", st.Name, name, t), true
	}
	return nil, "", false
}

type c15StructEdit struct {
	name     string
	semantic bool
	apply    func(rng *rand.Rand, q *gProg, usesBox bool) (string, bool)
}

func c15FindStruct(q *gProg, name string) *gStructDef {
	for i := range q.Structs {
		if q.Structs[i].Name == name {
			return &q.Structs[i]
		}
	}
	return nil
}

func c15StructEdits() []c15StructEdit {
	pick := func(rng *rand.Rand, q *gProg, usesBox bool) *gStructDef {
		if usesBox && rng.Intn(2) == 0 {
			return c15FindStruct(q, "Box")
		}
		return c15FindStruct(q, "Pt") // used directly, or nested inside Box
	}
	return []c15StructEdit{
		{"struct-member-added", true, func(rng *rand.Rand, q *gProg, ub bool) (string, bool) {
			s := pick(rng, q, ub)
			s.Fields = append(s.Fields, gParam{Type: []string{"float", "int[]", "string"}[rng.Intn(3)], Name: "extra"})
			return "member `extra` added to struct " + s.Name, true
		}},
		{"struct-member-removed", true, func(rng *rand.Rand, q *gProg, ub bool) (string, bool) {
			s := pick(rng, q, ub)
			if len(s.Fields) < 2 {
				return "", false
			}
			j := rng.Intn(len(s.Fields))
			if s.Name == "Box" && s.Fields[j].Name == "pt" && rng.Intn(2) == 0 {
				j = 1
			}
			f := s.Fields[j]
			s.Fields = append(append([]gParam(nil), s.Fields[:j]...), s.Fields[j+1:]...)
			return "member `" + f.Name + "` removed from struct " + s.Name, true
		}},
		{"struct-member-renamed", true, func(rng *rand.Rand, q *gProg, ub bool) (string, bool) {
			s := pick(rng, q, ub)
			j := rng.Intn(len(s.Fields))
			old := s.Fields[j].Name
			s.Fields[j].Name = old + "_v2"
			return "member `" + old + "` of struct " + s.Name + " renamed", true
		}},
		{"struct-member-retyped", true, func(rng *rand.Rand, q *gProg, ub bool) (string, bool) {
			s := pick(rng, q, ub)
			j := rng.Intn(len(s.Fields))
			old := s.Fields[j].Type
			var nt string
			switch old {
			case "int":
				nt = []string{"float", "int[]", "map<int>"}[rng.Intn(3)]
			case "string":
				nt = []string{"int", "string[]"}[rng.Intn(2)]
			case "Pt":
				nt = []string{"Pt[]", "map<Pt>", "int"}[rng.Intn(3)]
			case "bam":
				nt = []string{"bam[]", "string", "int"}[rng.Intn(3)]
			default:
				return "", false
			}
			s.Fields[j].Type = nt
			return fmt.Sprintf("member `%s` of struct %s: %s -> %s", s.Fields[j].Name, s.Name, old, nt), true
		}},
		{"struct-member-order", false, func(rng *rand.Rand, q *gProg, ub bool) (string, bool) {
			s := pick(rng, q, ub)
			if len(s.Fields) < 2 {
				return "", false
			}
			j := rng.Intn(len(s.Fields) - 1)
			s.Fields[j], s.Fields[j+1] = s.Fields[j+1], s.Fields[j]
			return "members of struct " + s.Name + " reordered", true
		}},
		{"struct-member-filetype", false, func(rng *rand.Rand, q *gProg, ub bool) (string, bool) {
			// only when bam is used nowhere but as a scalar / struct member: rename it everywhere
			if !ub {
				return "", false
			}
			if !c15RenameFiletype(q, "bam", "bam_v2", false) {
				return "", false
			}
			return "file type bam (a scalar file member of struct Box) renamed to bam_v2", true
		}},
	}
}

// c15RenameFiletype renames a user file type in the declarations, parameters and struct members.
// collectionsToo = false: fails when the type is used inside an array / typed map anywhere.
func c15RenameFiletype(q *gProg, f, nf string, collectionsToo bool) bool {
	repl := func(t string) (string, bool) {
		if t == f {
			return nf, true
		}
		if strings.TrimSuffix(t, "[]") == f || t == "map<"+f+">" || strings.TrimSuffix(strings.TrimSuffix(t, "[]"), "[]") == f {
			return strings.Replace(t, f, nf, 1), true
		}
		return t, false
	}
	if !collectionsToo {
		bad := false
		each := func(ps []gParam) {
			for _, p := range ps {
				if p.Type != f {
					if _, hit := repl(p.Type); hit {
						bad = true
					}
				}
			}
		}
		for _, d := range q.Decls {
			each(d.ins())
			each(d.outs())
			if d.Stage != nil {
				each(d.Stage.ChunkIns)
				each(d.Stage.ChunkOuts)
			}
		}
		for _, s := range q.Structs {
			each(s.Fields)
		}
		if bad {
			return false
		}
	}
	found := false
	for i := range q.Filetypes {
		if q.Filetypes[i] == f {
			q.Filetypes[i] = nf
			found = true
		}
	}
	if !found {
		return false
	}
	fix := func(ps []gParam) {
		for i := range ps {
			if nt, hit := repl(ps[i].Type); hit {
				ps[i].Type = nt
			}
		}
	}
	for i := range q.Decls {
		if s := q.Decls[i].Stage; s != nil {
			fix(s.Ins)
			fix(s.Outs)
			fix(s.ChunkIns)
			fix(s.ChunkOuts)
		} else if pp := q.Decls[i].Pipe; pp != nil {
			fix(pp.Ins)
			fix(pp.Outs)
		}
	}
	for i := range q.Structs {
		fix(q.Structs[i].Fields)
	}
	// literals of file type are strings like "/data/f1.bam": untouched (values, not types)
	return true
}

// c15StructPairs builds the pairs of the struct-definition classes for program p.
func c15StructPairs(c *Ctx, p *gProg, newDir func() string) []*c15Pair {
	r := c.Res
	var out []*c15Pair
	for _, e := range c15StructEdits() {
		for try := 0; try < 4; try++ {
			base, where, ok := c15StructBase(c.Rng, p)
			if !ok {
				r.hist("edit-not-applicable:" + e.name)
				break
			}
			usesBox := strings.Contains(where, "Box")
			q := base.clone()
			desc, ok := e.apply(c.Rng, q, usesBox)
			if !ok {
				continue
			}
			ca, err := c15Compile(newDir(), base)
			if err != nil {
				r.hist("edited-program-rejected:" + e.name + "(original)")
				continue
			}
			cb, err := c15Compile(newDir(), q)
			if err != nil {
				r.hist("edited-program-rejected:" + e.name)
				continue
			}
			out = append(out, &c15Pair{e.name, "", e.semantic, desc + " (used by " + where + ")", false, ca, cb, base, q})
			break
		}
	}
	return out
}

// c15TypeCatalogueEdits: classes applied to the generated program itself.
func c15TypeCatalogueEdits() []c15Edit {
	return []c15Edit{
		{"filetype-rename-in-collection", false, "", func(rng *rand.Rand, q *gProg) (string, bool, bool) {
			reach := c15Reachable(q)
			var cands []string
			for _, f := range q.Filetypes {
				hit := false
				for _, d := range q.Decls {
					if !reach[d.name()] {
						continue
					}
					for _, p := range append(append([]gParam{}, d.ins()...), d.outs()...) {
						if p.Type != f && (strings.TrimSuffix(p.Type, "[]") == f || p.Type == "map<"+f+">") {
							hit = true
						}
					}
				}
				if hit {
					cands = append(cands, f)
				}
			}
			if len(cands) == 0 {
				return "", false, false
			}
			f := cands[rng.Intn(len(cands))]
			if !c15RenameFiletype(q, f, f+"_v2", true) {
				return "", false, false
			}
			return "file type " + f + " (used inside an array / typed map by a reachable parameter) renamed to " + f + "_v2", false, true
		}},
		{"wildcard-vs-explicit", false, "", func(rng *rand.Rand, q *gProg) (string, bool, bool) {
			var cands []*gCall
			for _, cl := range c15ReachableCalls(q) {
				if cl.Wild != "" {
					cands = append(cands, cl)
				}
			}
			if len(cands) == 0 {
				return "", false, false
			}
			cl := cands[rng.Intn(len(cands))]
			d := q.decl(cl.Callee)
			if d == nil {
				return "", false, false
			}
			bound := map[string]bool{}
			for _, b := range cl.Binds {
				bound[b.Id] = true
			}
			n := 0
			for _, in := range d.ins() {
				if !bound[in.Name] {
					cl.Binds = append(cl.Binds, gBind{in.Name, cl.Wild + "." + in.Name})
					n++
				}
			}
			w := cl.Wild
			cl.Wild = ""
			if n == 0 {
				return "", false, false
			}
			return fmt.Sprintf("call %s: `* = %s` written out as %d explicit bindings", cl.id(), w, n), false, true
		}},
	}
}

// the classes which the property counts as cosmetic and the code compares (stricter, safe direction)
var c15StricterThanProperty = map[string]string{
	"filetype-rename-in-collection": "C15:filetype-name-in-collection-compared",
	"wildcard-vs-explicit":          "C15:wildcard-vs-explicit-compared",
}

// c15StructTable: the struct types of the AST's type table by name — the declared structs and the
// callables whose name is used as a parameter / member type (a callable's outputs double as a
// struct type).  This is the table `structComparer` looks names up in.
func c15StructTable(ast *syntax.Ast) []*syntax.StructType {
	out := append([]*syntax.StructType(nil), ast.StructTypes...)
	have := map[string]bool{}
	for _, s := range out {
		have[s.Id] = true
	}
	add := func(name string) {
		if have[name] {
			return
		}
		if st, ok := ast.TypeTable.Get(syntax.TypeId{Tname: name}).(*syntax.StructType); ok && st != nil {
			have[name] = true
			out = append(out, st)
		}
	}
	if ast.Callables != nil {
		for _, cl := range ast.Callables.List {
			if ps := cl.GetInParams(); ps != nil {
				for _, p := range ps.List {
					add(p.Tname.Tname)
				}
			}
			if ps := cl.GetOutParams(); ps != nil {
				for _, p := range ps.List {
					add(p.Tname.Tname)
				}
			}
		}
	}
	for i := 0; i < len(out); i++ {
		for _, m := range out[i].Members {
			add(m.Tname.Tname)
		}
	}
	return out
}
