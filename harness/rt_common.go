package main

// Shared machinery of the runtime properties (C02, C03, C05, C06): program
// supply (corpus + generator), Tier-A specs, and monitors over histories.

import (
	"encoding/json"
	"fmt"
	"os"
	"path/filepath"
	"regexp"
	"runtime"
	"sort"
	"strings"

	"github.com/martian-lang/martian/martian/syntax"
)

type rtProgram struct {
	Name     string
	Src      string
	MroPaths []string
	Ast      *syntax.Ast
	Deps     *DepOracle
	Stats    map[string]int
	Corpus   bool
	Echo     bool     // ECHO* stages return their first input (program families)
	Slow     []string // directed schedules (TASpec.SlowJobs), one extra run each
}

// compilePanics collects programs on which the real compiler / call-graph
// resolver panicked (reported by the C07 runner as violations).
var compilePanics []map[string]string

func compileProgram(name, src string, mroPaths []string) (p *rtProgram, err error) {
	defer func() {
		if e := recover(); e != nil {
			buf := make([]byte, 3000)
			buf = buf[:runtime.Stack(buf, false)]
			compilePanics = append(compilePanics, map[string]string{"program": src, "panic": fmt.Sprint(e), "stack": string(buf)})
			p, err = nil, fmt.Errorf("panic: %v", e)
		}
	}()
	_, _, ast, err := syntax.ParseSourceBytes([]byte(src), "pipeline.mro", mroPaths, false)
	if err != nil {
		return nil, err
	}
	if ast.Call == nil {
		return nil, fmt.Errorf("no call")
	}
	// call-graph resolution is part of acceptance (mrp refuses to invoke otherwise)
	if _, err := ast.MakePipelineCallGraph("ID.ps.", ast.Call); err != nil {
		return nil, err
	}
	// resolution annotates the AST; the dependency oracle wants the source-level tree
	_, _, ast, err = syntax.ParseSourceBytes([]byte(src), "pipeline.mro", mroPaths, false)
	if err != nil {
		return nil, err
	}
	return &rtProgram{Name: name, Src: src, MroPaths: mroPaths, Ast: ast, Deps: NewDepOracle(ast)}, nil
}

// rtPrograms: corpus programs first (corpus/tiera/*.mro shared, then the
// property's own corpus), then n generated programs that compile.
func rtPrograms(c *Ctx, n int, opts GenOpts) []*rtProgram {
	taInit()
	var out []*rtProgram
	dirs := []string{filepath.Join(filepath.Dir(c.Corpus), "tiera"), c.Corpus}
	for _, d := range dirs {
		files, _ := filepath.Glob(filepath.Join(d, "*.mro"))
		sort.Strings(files)
		for _, f := range files {
			b, err := os.ReadFile(f)
			if err != nil {
				continue
			}
			p, err := compileProgram("corpus:"+filepath.Base(f), string(b), nil)
			if err != nil {
				c.Res.note("corpus program %s does not compile: %v", f, err)
				continue
			}
			p.Corpus = true
			out = append(out, p)
		}
	}
	// the repository's own runnable example
	if b, err := os.ReadFile(filepath.Join(c.RepoDir, "martian/core/testdata/map_call_edge_cases.mro")); err == nil {
		mp := []string{filepath.Join(c.RepoDir, "martian/core/testdata")}
		if p, err := compileProgram("repo:map_call_edge_cases.mro", string(b), mp); err == nil {
			p.Corpus = true
			out = append(out, p)
		}
	}
	rejected := 0
	for i := 0; len(out) < n+len(out)-countGenerated(out) && i < 4*n+50; i++ {
		if countGenerated(out) >= n {
			break
		}
		src, st := GenProgram(c.Rng, opts)
		p, err := compileProgram(fmt.Sprintf("gen%d", i), src, nil)
		if err != nil {
			rejected++
			continue
		}
		p.Stats = st
		out = append(out, p)
		for k, v := range st {
			c.Res.Histogram["gen_"+k] += v
		}
	}
	c.Res.Histogram["gen_rejected_by_compiler"] += rejected
	c.Res.Histogram["programs"] += len(out)
	return out
}

// rtProgramsGenOnly: n generated programs (no corpus).
func rtProgramsGenOnly(c *Ctx, n int, opts GenOpts) []*rtProgram {
	var out []*rtProgram
	rejected := 0
	for i := 0; len(out) < n && i < 4*n+50; i++ {
		src, st := GenProgram(c.Rng, opts)
		p, err := compileProgram(fmt.Sprintf("genf%d", i), src, nil)
		if err != nil {
			rejected++
			continue
		}
		p.Stats = st
		out = append(out, p)
	}
	c.Res.Histogram["gen_rejected_by_compiler"] += rejected
	c.Res.Histogram["programs"] += len(out)
	return out
}

func countGenerated(ps []*rtProgram) int {
	n := 0
	for _, p := range ps {
		if !p.Corpus {
			n++
		}
	}
	return n
}

// ---- history helpers ----

type jobTimes struct {
	key      string
	node     string // "TOP.A.ST"
	fork     string // fork fqname
	role     string // split main join
	launches []int  // event seq of each launch
	incs     []int
	finishes []int // seq of finish events
	oks      []bool
}

func indexHistory(events []TAEvent) (map[string]*jobTimes, []string) {
	jobs := map[string]*jobTimes{}
	var order []string
	get := func(k string) *jobTimes {
		j := jobs[k]
		if j == nil {
			fq := k[:strings.LastIndex(k, ".")]
			j = &jobTimes{key: k, node: nodePathOfJob(fq), fork: forkOfJob(fq), role: k[strings.LastIndex(k, ".")+1:]}
			jobs[k] = j
			order = append(order, k)
		}
		return j
	}
	for _, e := range events {
		switch e.Kind {
		case "launch":
			j := get(e.Job)
			j.launches = append(j.launches, e.Seq)
			j.incs = append(j.incs, e.Inc)
		case "finish":
			j := get(e.Job)
			j.finishes = append(j.finishes, e.Seq)
			j.oks = append(j.oks, e.Detail == "ok" || strings.HasPrefix(e.Detail, "bad:"))
		}
	}
	return jobs, order
}

// monitorOrder checks C02 directly on a real history, against the
// source-level dependency oracle.  Returns human-readable violations.
func monitorOrder(p *rtProgram, events []TAEvent) []string {
	var bad []string
	jobs, order := indexHistory(events)
	byNode := map[string][]*jobTimes{}
	for _, k := range order {
		j := jobs[k]
		byNode[j.node] = append(byNode[j.node], j)
	}
	firstLaunch := func(n string) int {
		m := -1
		for _, j := range byNode[n] {
			for _, l := range j.launches {
				if m < 0 || l < m {
					m = l
				}
			}
		}
		return m
	}
	for node, deps := range p.Deps.Deps {
		fl := firstLaunch(node)
		if fl < 0 {
			continue
		}
		for dep := range deps {
			for _, dj := range byNode[dep] {
				// every launch of the dependency must have a successful finish before fl;
				// and nothing of it may be launched at or after fl
				for i, l := range dj.launches {
					if l >= fl {
						bad = append(bad, fmt.Sprintf("%s launched (event %d) at/after consumer %s started (event %d)", dj.key, l, node, fl))
						continue
					}
					finished := false
					for fi, f := range dj.finishes {
						if f > l && f < fl && dj.oks[fi] {
							finished = true
						}
					}
					if !finished && i == len(dj.launches)-1 {
						bad = append(bad, fmt.Sprintf("%s (launched at %d) had not finished successfully when consumer %s started (event %d)", dj.key, l, node, fl))
					}
				}
			}
		}
	}
	// phase order within a fork
	byFork := map[string][]*jobTimes{}
	for _, k := range order {
		byFork[jobs[k].fork] = append(byFork[jobs[k].fork], jobs[k])
	}
	okBefore := func(j *jobTimes, t int) bool {
		for fi, f := range j.finishes {
			if f < t && j.oks[fi] {
				return true
			}
		}
		return false
	}
	for fork, js := range byFork {
		var split, join *jobTimes
		var chunks []*jobTimes
		for _, j := range js {
			switch j.role {
			case "split":
				split = j
			case "join":
				join = j
			default:
				chunks = append(chunks, j)
			}
		}
		for _, ch := range chunks {
			for _, l := range ch.launches {
				if split != nil && !okBefore(split, l) {
					bad = append(bad, fmt.Sprintf("chunk %s launched at %d before the split of %s finished", ch.key, l, fork))
				}
			}
		}
		if join != nil {
			for _, l := range join.launches {
				if split != nil && !okBefore(split, l) {
					bad = append(bad, fmt.Sprintf("join of %s launched at %d before its split finished", fork, l))
				}
				for _, ch := range chunks {
					if !okBefore(ch, l) {
						bad = append(bad, fmt.Sprintf("join of %s launched at %d before chunk %s finished", fork, l, ch.key))
					}
				}
			}
		}
	}
	sort.Strings(bad)
	return bad
}

// interleaved: does the history finish jobs in an order different from launch order?
func scheduleInterleaved(events []TAEvent) bool {
	var launched, finished []string
	for _, e := range events {
		if e.Kind == "launch" {
			launched = append(launched, e.Job)
		} else if e.Kind == "finish" {
			finished = append(finished, e.Job)
		}
	}
	for i := range finished {
		if i >= len(launched) || finished[i] != launched[i] {
			return true
		}
	}
	return false
}

func jsonEqual(a, b json.RawMessage) bool {
	var x, y interface{}
	if json.Unmarshal(a, &x) != nil || json.Unmarshal(b, &y) != nil {
		return string(a) == string(b)
	}
	bx, _ := json.Marshal(x)
	by, _ := json.Marshal(y)
	return string(bx) == string(by)
}

func finalClass(f string) string {
	if i := strings.Index(f, " goroutine"); i >= 0 {
		f = f[:i]
	}
	if len(f) > 60 {
		f = f[:60]
	}
	return f
}

// replayInModel sends the Sched trace to the Lean model (if the replay helper is linked in).
func replayInModel(c *Ctx, res *TAResult) (ok bool, detail string, done bool) {
	if schedReplayHook == nil || len(res.Trace) == 0 {
		return true, "", false
	}
	ok, detail = schedReplayHook(c, res.Trace)
	return ok, detail, true
}

func excerpt(events []TAEvent, max int) []string {
	var out []string
	for _, e := range events {
		if e.Kind == "step" {
			continue
		}
		out = append(out, fmt.Sprintf("%d %s %s %s", e.Seq, e.Kind, e.Job, e.Detail))
		if len(out) >= max {
			out = append(out, "…")
			break
		}
	}
	return out
}

var normKeyDigits = regexp.MustCompile(`[0-9]+`)

// normKey: a short, input-independent class for a final state / error text (digits and paths removed).
func normKey(s string) string {
	if i := strings.IndexAny(s, "\n|"); i >= 0 {
		s = s[:i]
	}
	s = normKeyDigits.ReplaceAllString(s, "N")
	s = strings.Join(strings.Fields(s), "-")
	if len(s) > 50 {
		s = s[:50]
	}
	return s
}
