package main

// C09, type names, parameter lists, struct and filetype declarations: the
// model Martian.FormatDecl (fmtParams / widths / parseParams / fmtStruct /
// parseStruct / fmtFiletype / parseFiletype and the wf predicates) against the
// real parser and formatter.
//
// Declarations.  The text of every generated struct / filetype declaration is
// built BY THE MODEL (C09.fmtstruct, C09.fmtfiletype); on it
//   (a) FormatSrcBytes must return the text unchanged for a well-formed
//       declaration (a file with one declaration is that declaration);
//   (b) Parser.UncheckedParse must accept and Ast.StructTypes / Ast.UserTypes
//       must dump to what the model's parsestruct / parsefiletype returns, which
//       for a well-formed declaration is the declaration itself;
//   (c) a respelling (random white space, `map < int [ ] >`, `json . gz`, other
//       escapes in strings, `""` for a missing help) goes through the real
//       parser and formatter and is compared with parsestruct and with
//       fmtstruct of the declaration it reads as.
// Parameter lists (d).  A bare parameter list is not a file, so the block
// printed by the model (C09.fmtparams) is placed in a minimal stage
//   stage S(\n <block> src <lang> "x",\n [) split (\n <block2>] )\n
// with the column widths Stage.format computes: measureParamsWidths over the
// four lists (the model's C09.widths of each list, maximum taken here),
// modeWidth = max(…, 3), and for the split block idWidth/helpWidth re-measured
// over the chunk lists when idWidth > 30 || helpWidth > 20.  FormatSrcBytes must
// reproduce the stage text byte for byte; Stage.InParams/OutParams (and
// ChunkIns/ChunkOuts) must dump to the model's parseparams of the block.
// Near misses: a hand-written list and single-byte edits of printed texts:
// accept/reject and AST, real parser vs the model readers.

import (
	"fmt"
	"strconv"
	"strings"

	"github.com/martian-lang/martian/martian/syntax"
)

type c09dType struct {
	comps   []string
	arr, mp int
}

type c09dMember struct {
	t             c09dType
	id, help, out string
}

type c09dParam struct {
	c09dMember
	isOut bool
}

func (t c09dType) enc() string {
	return hxList(t.comps) + ":" + strconv.Itoa(t.arr) + ":" + strconv.Itoa(t.mp)
}

func (m c09dMember) encW(w *[]string) {
	*w = append(*w, m.t.enc(), hx(m.id), hx(m.help), hx(m.out))
}

func c09dEncParams(ps []c09dParam) string {
	w := []string{strconv.Itoa(len(ps))}
	for _, p := range ps {
		if p.isOut {
			w = append(w, "o")
		} else {
			w = append(w, "i")
		}
		p.encW(&w)
	}
	return strings.Join(w, " ")
}

func c09dEncStruct(id string, ms []c09dMember) string {
	w := []string{hx(id), strconv.Itoa(len(ms))}
	for _, m := range ms {
		m.encW(&w)
	}
	return strings.Join(w, " ")
}

// ---- dump of the real AST in the driver's word format ----

func c09dTypeOf(t syntax.TypeId) c09dType {
	var comps []string
	if t.Tname != "" {
		comps = strings.Split(t.Tname, ".")
	}
	return c09dType{comps, int(t.ArrayDim), int(t.MapDim)}
}

func c09dParamsOf(ins *syntax.InParams, outs *syntax.OutParams) []c09dParam {
	var ps []c09dParam
	if ins != nil {
		for _, p := range ins.List {
			ps = append(ps, c09dParam{c09dMember{c09dTypeOf(p.Tname), p.Id, p.Help, ""}, false})
		}
	}
	if outs != nil {
		for _, p := range outs.List {
			ps = append(ps, c09dParam{c09dMember{c09dTypeOf(p.Tname), p.Id, p.Help, p.OutName}, true})
		}
	}
	return ps
}

// c09dParseFile: nil ast = rejected (a panic of the real parser counts as rejected:
// the model's `none` stands for both; histogram entry decl:real-panic).
func c09dParseFile(c *Ctx, text string) *syntax.Ast {
	ast, err, pan := c09Parse([]byte(text), "decl.mro")
	if pan != "" {
		c.Res.hist("decl:real-panic")
		return nil
	}
	if err != nil || ast == nil {
		return nil
	}
	return ast
}

func c09dOnly(ast *syntax.Ast, structs, types, callables int) bool {
	n := 0
	if ast.Callables != nil {
		n = len(ast.Callables.List)
	}
	return len(ast.StructTypes) == structs && len(ast.UserTypes) == types && n == callables &&
		ast.Call == nil && len(ast.Includes) == 0
}

func c09dDumpStruct(c *Ctx, text string) string {
	ast := c09dParseFile(c, text)
	if ast == nil {
		return "none"
	}
	if !c09dOnly(ast, 1, 0, 0) {
		return "other"
	}
	st := ast.StructTypes[0]
	var ms []c09dMember
	for _, m := range st.Members {
		ms = append(ms, c09dMember{c09dTypeOf(m.Tname), m.Id, m.Help, m.OutName})
	}
	return "some " + c09dEncStruct(st.Id, ms)
}

func c09dDumpFiletype(c *Ctx, text string) string {
	ast := c09dParseFile(c, text)
	if ast == nil {
		return "none"
	}
	if !c09dOnly(ast, 0, 1, 0) {
		return "other"
	}
	return "some " + hxList(strings.Split(ast.UserTypes[0].Id, "."))
}

// c09dDumpStage: the parameter blocks of a file that holds one stage.
func c09dDumpStage(c *Ctx, text string) (main, chunk string, split bool) {
	ast := c09dParseFile(c, text)
	if ast == nil {
		return "none", "none", false
	}
	if !c09dOnly(ast, 0, 0, 1) {
		return "other", "other", false
	}
	st, ok := ast.Callables.List[0].(*syntax.Stage)
	if !ok {
		return "other", "other", false
	}
	return "some " + c09dEncParams(c09dParamsOf(st.InParams, st.OutParams)),
		"some " + c09dEncParams(c09dParamsOf(st.ChunkIns, st.ChunkOuts)), st.Split
}

// ---- generators ----

var c09dBuiltins = []string{"int", "string", "path", "float", "bool"}
var c09dHelps = []string{"", "", "", "h", "help text", "a\"b", "back\\slash", "line\nbreak", "tab\t", "été", "x y z",
	"#no comment", "a,b)", "ctl\x01", "u v", "del\x7f", "😀", "in", "\"", "\\"}

func c09dIdent(c *Ctx) string {
	if c.Rng.Intn(6) == 0 {
		// around the 35-byte cut-off of getWidths
		n := 32 + c.Rng.Intn(6)
		const word = "abcdefghijklmnopqrstuvwxyzABCDEFGHIJKLMNOPQRSTUVWXYZ0123456789_"
		var b strings.Builder
		b.WriteByte(word[c.Rng.Intn(52)])
		for b.Len() < n {
			b.WriteByte(word[c.Rng.Intn(len(word))])
		}
		return b.String()
	}
	return c09callId(c, 40)
}

// c09dSafeId: a name for the enclosing stage, which is outside the modelled slice: never a
// keyword (every keyword is lower case).
func c09dSafeId(c *Ctx) string {
	return "S" + c09callId(c, 12)
}

func c09dHelp(c *Ctx) string {
	switch c.Rng.Intn(8) {
	case 0: // around the 25-byte cut-off of getWidths
		return strings.Repeat("h", 22+c.Rng.Intn(6))
	case 1:
		return strings.Repeat("long ", 5+c.Rng.Intn(10))
	case 2:
		if c.Rng.Intn(12) == 0 {
			return "bad\xffutf8"
		}
		return c09dHelps[c.Rng.Intn(len(c09dHelps))] + c09dHelps[c.Rng.Intn(len(c09dHelps))]
	}
	return c09dHelps[c.Rng.Intn(len(c09dHelps))]
}

func c09dGenType(c *Ctx) c09dType {
	var t c09dType
	switch k := c.Rng.Intn(12); {
	case k < 4:
		t.comps = []string{c09dBuiltins[c.Rng.Intn(len(c09dBuiltins))]}
	case k == 4:
		t.comps = []string{"map"}
	case k < 9:
		t.comps = []string{c09dIdent(c)}
	case k == 9 && c.Rng.Intn(3) == 0:
		t.comps = []string{"file"}
	default:
		for n := 2 + c.Rng.Intn(2); n > 0; n-- {
			t.comps = append(t.comps, c09callId(c, 8))
		}
	}
	t.arr = []int{0, 0, 0, 0, 1, 1, 2, 3}[c.Rng.Intn(8)]
	if c.Rng.Intn(4) == 0 && (t.comps[0] != "map" || c.Rng.Intn(10) == 0) {
		t.mp = 1 + []int{0, 0, 1, 1, 2, 3}[c.Rng.Intn(6)]
	}
	return t
}

func c09dGenMember(c *Ctx) c09dMember {
	m := c09dMember{t: c09dGenType(c), id: c09dIdent(c)}
	switch c.Rng.Intn(6) {
	case 0, 1:
		m.help = c09dHelp(c)
	case 2:
		m.help = c09dHelp(c)
		m.out = c09dHelp(c)
	case 3:
		m.out = c09dHelp(c)
	}
	return m
}

func c09dGenParams(c *Ctx, nIn, nOut int) []c09dParam {
	var ps []c09dParam
	for i := 0; i < nIn; i++ {
		m := c09dGenMember(c)
		if c.Rng.Intn(40) != 0 {
			m.out = "" // an InParam has no out name (rarely kept: outside wf, ignored by the model's printer)
		}
		ps = append(ps, c09dParam{m, false})
	}
	for i := 0; i < nOut; i++ {
		m := c09dGenMember(c)
		if c.Rng.Intn(4) == 0 {
			m.id = "default"
		}
		ps = append(ps, c09dParam{m, true})
	}
	return ps
}

// ---- respelling ----

type c09dSpeller struct {
	c        *Ctx
	b        strings.Builder
	lastWord bool // the text so far ends in a word character or a string literal
}

func (s *c09dSpeller) tok(t string) {
	isWordy := func(ch byte) bool {
		return ch == '_' || ch == '"' || (ch >= '0' && ch <= '9') || (ch >= 'a' && ch <= 'z') || (ch >= 'A' && ch <= 'Z')
	}
	ws := []string{"", "", " ", "  ", "\n", "\t", "\n    ", " \n"}[s.c.Rng.Intn(8)]
	if ws == "" && s.lastWord && isWordy(t[0]) {
		ws = " "
	}
	s.b.WriteString(ws)
	s.b.WriteString(t)
	s.lastWord = isWordy(t[len(t)-1])
}

func (s *c09dSpeller) typ(t c09dType) {
	if t.mp > 0 {
		s.tok("map")
		s.tok("<")
	}
	for i, cmp := range t.comps {
		if i > 0 {
			s.tok(".")
		}
		s.tok(cmp)
	}
	if t.mp > 0 {
		for i := 1; i < t.mp; i++ {
			s.tok("[")
			s.tok("]")
		}
		s.tok(">")
	}
	for i := 0; i < t.arr; i++ {
		s.tok("[")
		s.tok("]")
	}
}

func (s *c09dSpeller) tail(help, out string) {
	if help != "" || out != "" || s.c.Rng.Intn(5) == 0 {
		s.tok(c09callQuote(help))
	}
	if out != "" {
		s.tok(c09callQuote(out))
	}
	s.tok(",")
}

// c09dSpellable: c09callQuote writes the byte itself for everything but `"` `\` newline tab.
func c09dSpellable(s string) bool {
	for i := 0; i < len(s); i++ {
		if (s[i] < 0x20 && s[i] != '\n' && s[i] != '\t') || s[i] == 0x7f || s[i] >= 0x80 {
			return false
		}
	}
	return true
}

func c09dMembersSpellable(ms []c09dMember) bool {
	for _, m := range ms {
		if !c09dSpellable(m.help) || !c09dSpellable(m.out) {
			return false
		}
	}
	return true
}

func c09dSpellStruct(c *Ctx, id string, ms []c09dMember) string {
	s := &c09dSpeller{c: c}
	s.tok("struct")
	s.tok(id)
	s.tok("(")
	for _, m := range ms {
		s.typ(m.t)
		s.tok(m.id)
		s.tail(m.help, m.out)
	}
	s.tok(")")
	if c.Rng.Intn(2) == 0 {
		s.b.WriteString("\n")
	}
	return s.b.String()
}

func c09dSpellParams(c *Ctx, ps []c09dParam) string {
	s := &c09dSpeller{c: c}
	for _, p := range ps {
		if p.isOut {
			s.tok("out")
		} else {
			s.tok("in")
		}
		s.typ(p.t)
		if !(p.isOut && p.id == "default") {
			s.tok(p.id)
		}
		if p.isOut {
			s.tail(p.help, p.out)
		} else {
			s.tail(p.help, "")
		}
	}
	s.b.WriteString("\n")
	return s.b.String()
}

// ---- near misses ----

var c09dStructNearMisses = []string{
	"struct S()", "struct S(int a)", "struct S(int a,)", "struct S(int a,,)", "struct S(int a, int b,)", "struct S(int,)",
	"struct S(int a \"h\",)", "struct S(int a \"h\" \"o\",)", "struct S(int a \"h\" \"o\" \"p\",)", "struct S(int a \"\",)",
	"struct S(int a \"\" \"\",)", "struct S(int in,)", "struct S(int out,)", "struct S(int default,)", "struct S(int map,)",
	"struct S(int struct,)", "struct struct(struct struct,)", "struct filetype(filetype.split local,)", "struct in(int a,)",
	"struct S(map a,)", "struct S(map[] a,)", "struct S(map<int> a,)", "struct S(map<int[]>[] a,)", "struct S(map<map> a,)",
	"struct S(map<map<int>> a,)", "struct S(map<int>> a,)", "struct S(map<> a,)", "struct S(map<int a,)", "struct S(map <int> a,)",
	"struct S(map< int [ ] > [ ] a,)", "struct S(int[] [] a,)", "struct S(int[ a,)", "struct S(int] a,)", "struct S(int[1] a,)",
	"struct S(json.gz a,)", "struct S(json..gz a,)", "struct S(json. a,)", "struct S(.json a,)", "struct S(json.int a,)",
	"struct S(int.json a,)", "struct S(map<json.gz[][]>[][][] a,)", "struct S(map<a.b.c> a.b,)", "struct S(a b c,)",
	"struct S(int a) ", "struct S int a,)", "struct S(int a,", "struct (int a,)", "S(int a,)", "struct S(int a;)", "struct S{int a,}",
	"struct S(in int a,)", "struct S(out int a,)", "struct S(int a = 1,)", "struct S(self a,)", "struct S(int self,)", "struct S(null a,)",
	"struct S(int a \"h\"\"o\",)", "struct S(int a h,)", "struct S(int a 1,)", "struct S(\"int\" a,)", "struct S(int a, )\n", "struct\nS\n(\nint\na\n,\n)\n",
	"struct S(int a,) struct T(int b,)", "struct S(file a,)", "struct S(bool[][][] _x,)", "struct S(int _,)", "struct S(int 1a,)",
}

var c09dFiletypeNearMisses = []string{
	"filetype a;", "filetype a.b;", "filetype a..b;", "filetype a.;", "filetype .a;", "filetype a", "filetype ;", "filetype a;;",
	"filetype a b;", "filetype int;", "filetype json.int;", "filetype filetype;", "filetype struct.split;", "filetype a . b ;",
	"filetype\na\n;\n", "filetype a; filetype b;", "filetype map;", "filetype in;", "filetype default;", "filetype a[];", "filetype _a.b_1;",
	"filetype a,", "filetype \"a\";", "filetype self;", "filetype a.default;", "type a;", "filetype 1;",
}

// parameter blocks, to be placed in `stage S(\n…    src py "x",\n)\n`
var c09dParamNearMisses = []string{
	"", "in int x,", "in int x", "in int x,,", "in int,", "in int x \"h\",", "in int x \"h\" \"o\",", "in int x \"\",",
	"out int,", "out int \"h\",", "out int \"h\" \"o\",", "out int \"\" \"o\",", "out int \"h\" \"o\" \"p\",", "out int x,",
	"out int x \"h\",", "out int x \"h\" \"o\",", "out int x \"\" \"o\",", "out default int x,", "out int default,", "out default,",
	"out int x \"h\" \"o\" \"p\",", "out x,", "out x y,", "out x.y,", "out x.y z,", "out x . y z ,", "out map,", "out map x,", "out map<int>,",
	"out map<int[]>[] \"h\",", "out map<map>,", "in map<map<int>> x,", "in int[] [] x,", "in int [] x,", "in int[][] [] x \"h\",",
	"out int, in int x,", "in int x, out int, out float y,", "in int x, in int x,", "out int, out int,", "in in x,", "in int in,",
	"in int out,", "in int src,", "in int py,", "in int exec,", "in int comp,", "in int struct,", "in int split,", "in int filetype \"filetype\",",
	"in struct struct,", "in filetype.struct x,", "in int self,", "in int true,", "in int null,", "in int x \"h\" ,\n  out   path\t\"p\"  \"q\" ,",
	"in int x y,", "in int x 1,", "in \"int\" x,", "in int x; ", "int x,", "inn int x,", "in int x, out", "in int x, out,", "out int \"h\" x,",
	"out int x \"h\"\"o\",", "in map x,", "in map[] x,", "in map <int> x,", "in map< int > x,", "in map<int> [] x,", "in map<int>[ ] x,",
	"in map<> x,", "in map<int x,", "in map int> x,", "in map<int>> x,", "in map<int,string> x,", "in file x,", "in bool[][][] _x,",
}

func c09dMutate(c *Ctx, text string) string {
	b := []byte(text)
	if len(b) == 0 {
		return text
	}
	const ins = ",()<>[]\". ;:="
	for k := 1 + c.Rng.Intn(2); k > 0 && len(b) > 0; k-- {
		i := c.Rng.Intn(len(b))
		switch c.Rng.Intn(4) {
		case 0:
			b = append(b[:i], b[i+1:]...)
		case 1:
			b[i] = ins[c.Rng.Intn(len(ins))]
		case 2:
			b = append(b[:i], append([]byte{ins[c.Rng.Intn(len(ins))]}, b[i:]...)...)
		default:
			b = append(b[:i], append([]byte{b[i]}, b[i:]...)...)
		}
	}
	return string(b)
}

func c09dASCII(s string) bool {
	for i := 0; i < len(s); i++ {
		if s[i] >= 0x80 {
			return false
		}
	}
	return true
}

// ---- main ----

func c09dStageText(id, block1, lang string, mw, tw int, split bool, block2 string) string {
	pad := func(n int) string {
		if n < 0 {
			n = 0
		}
		return strings.Repeat(" ", n)
	}
	var b strings.Builder
	b.WriteString("stage " + id + "(\n" + block1)
	b.WriteString("    src " + pad(mw-3) + lang + pad(tw-len(lang)) + " \"x\",\n")
	if split {
		b.WriteString(") split (\n" + block2)
	}
	b.WriteString(")\n")
	return b.String()
}

func c09dImpl(out string, err error, pan string) string {
	if pan != "" {
		return "panic: " + pan
	} else if err != nil {
		return "error: " + err.Error()
	}
	return out
}

func c09Decl(c *Ctx) {
	r := c.Res
	mismatch := func(key, what, broken string, in map[string]interface{}, impl, model string) {
		r.violate(Violation{Kind: "correspondence", Key: key, What: what, Input: in, Impl: impl, Model: model, Broken: broken})
	}
	const kFmt, kParse = "C09:decl-format-mismatch", "C09:decl-parse-mismatch"
	const bFmtS = "correspondence C09.fmtstruct (Martian.FormatDecl.fmtStruct vs StructType.format)"
	const bFmtF = "correspondence C09.fmtfiletype (Martian.FormatDecl.fmtFiletype vs UserType.format)"
	const bFmtP = "correspondence C09.fmtparams / C09.widths (Martian.FormatDecl.fmtParams, widths vs paramFormat, getWidths)"
	const bParse = "correspondence C09.parsestruct / parsefiletype / parseparams"

	nS, nF, nP := 1100, 400, 1500
	if c.Thorough {
		nS, nF, nP = nS*8, nF*8, nP*8
	}
	// every text the REAL parser accepted, with its dump (section AcceptedDeclTexts: the range theorems
	// parse_produces_wf_… evaluated on the real parser's ASTs at the end of this function)
	type accText struct{ kind, dump, text string }
	var accepted []accText
	accept := func(kind, dump, text string) {
		if strings.HasPrefix(dump, "some ") {
			accepted = append(accepted, accText{kind, strings.TrimPrefix(dump, "some "), text})
		}
	}

	// ================= struct declarations =================
	type sCase struct {
		id  string
		ms  []c09dMember
		enc string
	}
	sc := make([]*sCase, nS)
	var reqs [][]string
	for i := range sc {
		k := &sCase{id: c09dIdent(c)}
		n := 1 + c.Rng.Intn(5)
		if c.Rng.Intn(50) == 0 {
			n = 0
		}
		for j := 0; j < n; j++ {
			k.ms = append(k.ms, c09dGenMember(c))
		}
		k.enc = c09dEncStruct(k.id, k.ms)
		sc[i] = k
		reqs = append(reqs, []string{"C09.fmtstruct", k.enc}, []string{"C09.wfstruct", k.enc})
	}
	reps := c.Drv.AskBatch(reqs)
	sText := make([]string, nS)
	sRe := make([]string, nS)
	var reqs2 [][]string
	for i, k := range sc {
		sText[i] = unhx(reps[2*i])
		if c09dMembersSpellable(k.ms) {
			sRe[i] = c09dSpellStruct(c, k.id, k.ms)
		} else {
			sRe[i] = sText[i]
		}
		reqs2 = append(reqs2, []string{"C09.parsestruct", hx(sText[i])}, []string{"C09.parsestruct", hx(sRe[i])})
	}
	reps2 := c.Drv.AskBatch(reqs2)
	var reqs3 [][]string
	var idx3 []int
	sRealRe := make([]string, nS)
	for i := range sc {
		sRealRe[i] = c09dDumpStruct(c, sRe[i])
		if strings.HasPrefix(sRealRe[i], "some ") {
			reqs3 = append(reqs3, []string{"C09.fmtstruct", strings.TrimPrefix(sRealRe[i], "some ")})
			idx3 = append(idx3, i)
		}
	}
	reps3 := c.Drv.AskBatch(reqs3)
	fmtOfRe := map[int]string{}
	for j, i := range idx3 {
		fmtOfRe[i] = unhx(reps3[j])
	}
	for i, k := range sc {
		wf := reps[2*i+1] == "wf=true"
		text, mp, mpRe := sText[i], reps2[2*i], reps2[2*i+1]
		in := map[string]interface{}{"struct": k.enc, "text": text}
		r.hist(fmt.Sprintf("decl:struct:wf=%v", wf))
		r.count("declS:"+k.enc, len(k.ms) > 1)
		if i%397 == 0 {
			r.sample(map[string]string{"struct_decl": text})
		}
		rp := c09dDumpStruct(c, text)
		if rp != mp {
			mismatch(kParse, "Ast.StructTypes read from the printed struct differs from the model's parseStruct", bParse, in, rp, mp)
		}
		if wf {
			if mp != "some "+k.enc {
				mismatch("C09:decl-roundtrip-model", "the model's parseStruct (fmtStruct s) is not s for a well-formed struct (theorem parse_format_struct evaluated)", "Props.C09.parse_format_struct", in, "", mp)
			}
			out, err, pan := c09Format([]byte(text), "decl.mro")
			if pan != "" || err != nil || out != text {
				mismatch(kFmt, "the real formatter does not reproduce the model's text of a well-formed struct", bFmtS, in, c09dImpl(out, err, pan), text)
			}
		} else {
			r.hist("decl:struct:not-wf:real=" + strings.SplitN(rp, " ", 2)[0])
		}
		inRe := map[string]interface{}{"struct": k.enc, "text": sRe[i]}
		accept("struct", rp, text)
		accept("struct", sRealRe[i], sRe[i])
		if sRealRe[i] != mpRe {
			mismatch(kParse, "Ast.StructTypes read from a respelled struct differs from the model's parseStruct", bParse, inRe, sRealRe[i], mpRe)
		}
		if wf && sRealRe[i] != "some "+k.enc {
			mismatch(kParse, "a respelling of a well-formed struct does not read as the struct", bParse, inRe, sRealRe[i], "some "+k.enc)
		}
		if want, ok := fmtOfRe[i]; ok {
			out, err, pan := c09Format([]byte(sRe[i]), "decl.mro")
			if pan != "" || err != nil || out != want {
				mismatch(kFmt, "the real formatter on a respelled struct differs from the model's fmtStruct of the struct it read", bFmtS, inRe, c09dImpl(out, err, pan), want)
			}
		}
	}

	// ================= filetype declarations =================
	fc := make([][]string, nF)
	reqs = nil
	for i := range fc {
		n := 1 + c.Rng.Intn(3)
		if c.Rng.Intn(40) == 0 {
			n = 0
		}
		for j := 0; j < n; j++ {
			fc[i] = append(fc[i], c09callId(c, 12))
		}
		reqs = append(reqs, []string{"C09.fmtfiletype", hxList(fc[i])}, []string{"C09.wffiletype", hxList(fc[i])})
	}
	reps = c.Drv.AskBatch(reqs)
	reqs2 = nil
	fRe := make([]string, nF)
	for i := range fc {
		s := &c09dSpeller{c: c}
		s.tok("filetype")
		for j, cmp := range fc[i] {
			if j > 0 {
				s.tok(".")
			}
			s.tok(cmp)
		}
		s.tok(";")
		fRe[i] = s.b.String()
		reqs2 = append(reqs2, []string{"C09.parsefiletype", reps[2*i]}, []string{"C09.parsefiletype", hx(fRe[i])})
	}
	reps2 = c.Drv.AskBatch(reqs2)
	for i := range fc {
		enc := hxList(fc[i])
		text, wf := unhx(reps[2*i]), reps[2*i+1] == "wf=true"
		in := map[string]interface{}{"filetype": enc, "text": text}
		r.hist(fmt.Sprintf("decl:filetype:wf=%v", wf))
		r.count("declF:"+enc, len(fc[i]) > 1)
		rp := c09dDumpFiletype(c, text)
		if rp != reps2[2*i] {
			mismatch(kParse, "Ast.UserTypes read from the printed filetype differs from the model's parseFiletype", bParse, in, rp, reps2[2*i])
		}
		rpRe := c09dDumpFiletype(c, fRe[i])
		inRe := map[string]interface{}{"filetype": enc, "text": fRe[i]}
		accept("filetype", rp, text)
		accept("filetype", rpRe, fRe[i])
		if rpRe != reps2[2*i+1] {
			mismatch(kParse, "Ast.UserTypes read from a respelled filetype differs from the model's parseFiletype", bParse, inRe, rpRe, reps2[2*i+1])
		}
		if wf {
			if reps2[2*i] != "some "+enc || rpRe != "some "+enc {
				mismatch("C09:decl-roundtrip-model", "parseFiletype (fmtFiletype t) is not t for a well-formed filetype (theorem parse_format_filetype evaluated)", "Props.C09.parse_format_filetype", in, rpRe, reps2[2*i])
			}
			for _, src := range []string{text, fRe[i]} {
				out, err, pan := c09Format([]byte(src), "decl.mro")
				if pan != "" || err != nil || out != text {
					mismatch(kFmt, "the real formatter does not print the model's text of a well-formed filetype", bFmtF,
						map[string]interface{}{"filetype": enc, "text": src}, c09dImpl(out, err, pan), text)
				}
			}
		}
	}

	// ================= parameter blocks inside a minimal stage =================
	type pCase struct {
		id         string
		lang       string
		main, chnk []c09dParam
		nIn, nCIn  int
		split      bool
	}
	pc := make([]*pCase, nP)
	reqs = nil
	for i := range pc {
		k := &pCase{id: c09dSafeId(c), lang: []string{"py", "exec", "comp"}[c.Rng.Intn(3)]}
		k.nIn = c.Rng.Intn(4)
		k.main = c09dGenParams(c, k.nIn, c.Rng.Intn(4))
		if c.Rng.Intn(3) == 0 {
			k.split = true
			k.nCIn = c.Rng.Intn(3)
			k.chnk = c09dGenParams(c, k.nCIn, c.Rng.Intn(3))
		}
		pc[i] = k
		reqs = append(reqs,
			[]string{"C09.widths", c09dEncParams(k.main[:k.nIn])}, []string{"C09.widths", c09dEncParams(k.main[k.nIn:])},
			[]string{"C09.widths", c09dEncParams(k.chnk[:k.nCIn])}, []string{"C09.widths", c09dEncParams(k.chnk[k.nCIn:])},
			[]string{"C09.wfparams", c09dEncParams(k.main)}, []string{"C09.wfparams", c09dEncParams(k.chnk)})
	}
	reps = c.Drv.AskBatch(reqs)
	parseW := func(s string) [4]int {
		var w [4]int
		f := strings.Fields(s)
		for j := 0; j < 4 && j < len(f); j++ {
			w[j], _ = strconv.Atoi(f[j])
		}
		return w
	}
	maxW := func(ws ...[4]int) [4]int {
		var m [4]int
		for _, w := range ws {
			for j := range m {
				if w[j] > m[j] {
					m[j] = w[j]
				}
			}
		}
		return m
	}
	pW := make([][4]int, nP)  // widths of the main block
	pW2 := make([][4]int, nP) // widths of the split block
	reqs2 = nil
	for i, k := range pc {
		wi, wo, wci, wco := parseW(reps[6*i]), parseW(reps[6*i+1]), parseW(reps[6*i+2]), parseW(reps[6*i+3])
		// Stage.format
		w := maxW(wi, wo, wci, wco)
		if w[0] < 3 {
			w[0] = 3
		}
		pW[i] = w
		w2 := w
		if w[2] > 30 || w[3] > 20 {
			m := maxW(wci, wco)
			w2[2], w2[3] = m[2], m[3]
		}
		pW2[i] = w2
		it := strconv.Itoa
		reqs2 = append(reqs2,
			[]string{"C09.fmtparams", it(w[0]), it(w[1]), it(w[2]), it(w[3]), c09dEncParams(k.main)},
			[]string{"C09.fmtparams", it(w2[0]), it(w2[1]), it(w2[2]), it(w2[3]), c09dEncParams(k.chnk)})
	}
	reps2 = c.Drv.AskBatch(reqs2)
	reqs3 = nil
	pRe := make([][2]string, nP)
	for i, k := range pc {
		b1, b2 := unhx(reps2[2*i]), unhx(reps2[2*i+1])
		pRe[i] = [2]string{b1, b2}
		ok := true
		for _, p := range append(append([]c09dParam{}, k.main...), k.chnk...) {
			ok = ok && c09dSpellable(p.help) && c09dSpellable(p.out) && (p.isOut || p.out == "")
		}
		if ok {
			pRe[i] = [2]string{c09dSpellParams(c, k.main), c09dSpellParams(c, k.chnk)}
		}
		reqs3 = append(reqs3, []string{"C09.parseparams", hx(b1)}, []string{"C09.parseparams", hx(b2)},
			[]string{"C09.parseparams", hx(pRe[i][0])}, []string{"C09.parseparams", hx(pRe[i][1])})
	}
	reps3 = c.Drv.AskBatch(reqs3)
	for i, k := range pc {
		wf := reps[6*i+4] == "wf=true" && reps[6*i+5] == "wf=true"
		b1, b2 := unhx(reps2[2*i]), unhx(reps2[2*i+1])
		w := pW[i]
		text := c09dStageText(k.id, b1, k.lang, w[0], w[1], k.split, b2)
		enc1, enc2 := c09dEncParams(k.main), c09dEncParams(k.chnk)
		in := map[string]interface{}{"params": enc1, "chunk_params": enc2, "split": k.split, "text": text,
			"widths": fmt.Sprint(pW[i]), "chunk_widths": fmt.Sprint(pW2[i])}
		r.hist(fmt.Sprintf("decl:params:wf=%v,split=%v", wf, k.split))
		r.count("declP:"+enc1+"/"+enc2, len(k.main)+len(k.chnk) > 1)
		if i%397 == 0 {
			r.sample(map[string]string{"stage_with_params": text})
		}
		m1, m2 := reps3[4*i], reps3[4*i+1]
		if !k.split {
			m2 = "some 0"
		}
		r1, r2, _ := c09dDumpStage(c, text)
		accept("params", r1, text)
		accept("params", r2, text)
		if r1 == "none" && (m1 == "none" || m2 == "none") {
			// both reject
		} else if r1 != m1 || r2 != m2 {
			mismatch(kParse, "the parameter lists of the parsed stage differ from the model's parseParams of the printed block(s)", bParse, in, r1+" / "+r2, m1+" / "+m2)
		}
		if wf {
			if m1 != "some "+enc1 || (k.split && m2 != "some "+enc2) {
				mismatch("C09:decl-roundtrip-model", "the model's parseParams (fmtParams … ps) is not ps for well-formed parameters (theorem parse_format_params evaluated)", "Props.C09.parse_format_params", in, "", m1+" / "+m2)
			}
			out, err, pan := c09Format([]byte(text), "decl.mro")
			if pan != "" || err != nil || out != text {
				mismatch(kFmt, "the real formatter does not reproduce the stage whose parameter blocks the model printed with the widths of Stage.format", bFmtP, in, c09dImpl(out, err, pan), text)
			}
			// respelled blocks: same parameters, same canonical text
			reText := "stage " + k.id + " (" + pRe[i][0] + " src " + k.lang + " \"x\" , )"
			if k.split {
				reText += " split " + []string{"", "using "}[c.Rng.Intn(2)] + "( " + pRe[i][1] + ")"
			}
			inRe := map[string]interface{}{"params": enc1, "chunk_params": enc2, "text": reText}
			mr1, mr2 := reps3[4*i+2], reps3[4*i+3]
			q1, q2, _ := c09dDumpStage(c, reText)
			accept("params", q1, reText)
			accept("params", q2, reText)
			if !k.split {
				mr2 = "some 0"
			}
			if q1 != mr1 || q2 != mr2 || q1 != "some "+enc1 {
				mismatch(kParse, "a respelling of well-formed parameter blocks does not read as the parameters (real / model)", bParse, inRe, q1+" / "+q2, mr1+" / "+mr2)
			}
			out, err, pan = c09Format([]byte(reText), "decl.mro")
			if pan != "" || err != nil || out != text {
				mismatch(kFmt, "the real formatter on a respelled stage differs from the text built from the model's fmtParams", bFmtP, inRe, c09dImpl(out, err, pan), text)
			}
		} else {
			r.hist("decl:params:not-wf:real=" + strings.SplitN(r1, " ", 2)[0])
		}
	}

	// ================= near misses =================
	type nm struct{ kind, text, wrapped string }
	var nms []nm
	for _, t := range c09dStructNearMisses {
		nms = append(nms, nm{"struct", t, t})
	}
	for _, t := range c09dFiletypeNearMisses {
		nms = append(nms, nm{"filetype", t, t})
	}
	// the dimension counters of the grammar are int16: 32767 array dimensions are the most a type can
	// have, and a typed map's MapDim is one more than its inner array dimension (e6bd8cc: 32767 inner
	// dimensions wrapped MapDim to -32768 and the formatter printed the member as plain `int`)
	for _, n := range []int{32766, 32767} {
		nms = append(nms, nm{"struct", "struct S(map<int" + strings.Repeat("[]", n) + "> a,)", ""})
		nms = append(nms, nm{"struct", "struct S(int" + strings.Repeat("[]", n+1) + " a,)", ""})
	}
	for i := range nms {
		if nms[i].wrapped == "" {
			nms[i].wrapped = nms[i].text
			// property monitor on the real code: if the parser accepts the text, formatting keeps the type
			text := nms[i].text
			if d0 := c09dDumpStruct(c, text); d0 != "none" && d0 != "other" {
				out, _, pan := c09Format([]byte(text), "dims.mro")
				if d1 := c09dDumpStruct(c, out); pan != "" || d1 != d0 {
					short := text
					if len(short) > 60 {
						short = text[:30] + "…(" + strconv.Itoa(len(text)) + " bytes)…" + text[len(text)-20:]
					}
					if len(d0) > 80 {
						d0 = d0[:80] + "…"
					}
					if len(d1) > 80 {
						d1 = d1[:80] + "…"
					}
					r.violate(Violation{Kind: "property", Key: "C09:ast-changed:type-dimension-overflow",
						What:  "a type at the limit of the grammar's int16 dimension counters is accepted by the parser and changed by the formatter",
						Input: map[string]interface{}{"text": short, "bytes": len(text)}, Impl: d1 + pan, Expect: d0,
						Broken: "C09 monitor: formatting keeps every declaration"})
				}
			}
		}
	}
	wrap := func(block string) string { return "stage S(\n" + block + "\n    src py \"x\",\n)\n" }
	for _, t := range c09dParamNearMisses {
		nms = append(nms, nm{"params", t, wrap(t)})
	}
	nMut := 600
	if c.Thorough {
		nMut *= 8
	}
	for j := 0; j < nMut; j++ {
		switch j % 3 {
		case 0:
			if t := sText[c.Rng.Intn(nS)]; c09dASCII(t) {
				m := c09dMutate(c, t)
				nms = append(nms, nm{"struct", m, m})
			}
		case 1:
			if t := unhx(reps2[2*c.Rng.Intn(nP)]); c09dASCII(t) {
				// (an edit that touches a quote or a backslash could join a string literal with the wrapper's)
				if m := c09dMutate(c, t); strings.Count(m, "\"") == strings.Count(t, "\"") && strings.Count(m, "\\") == strings.Count(t, "\\") {
					nms = append(nms, nm{"params", m, wrap(m)})
				}
			}
		default:
			m := c09dMutate(c, "filetype "+strings.Join(fc[c.Rng.Intn(nF)], ".")+";\n")
			nms = append(nms, nm{"filetype", m, m})
		}
	}
	reqs = nil
	for _, x := range nms {
		reqs = append(reqs, []string{"C09.parse" + x.kind, hx(x.text)})
	}
	reps = c.Drv.AskBatch(reqs)
	for i, x := range nms {
		var rp string
		switch x.kind {
		case "struct":
			rp = c09dDumpStruct(c, x.text)
		case "filetype":
			rp = c09dDumpFiletype(c, x.text)
		default:
			rp, _, _ = c09dDumpStage(c, x.wrapped)
		}
		r.hist("decl:near-miss:" + x.kind + ":real=" + strings.SplitN(rp, " ", 2)[0])
		r.count("declnm:"+x.kind+":"+x.text, true)
		if rp == "other" {
			continue // outside the modelled slice (more than one declaration)
		}
		accept(x.kind, rp, x.wrapped)
		if rp != reps[i] {
			mismatch(kParse, "near-miss text ("+x.kind+"): real parser and model reader disagree", bParse,
				map[string]interface{}{"text": x.text, "parsed_as": x.wrapped}, rp, reps[i])
		}
	}

	// ================= accepted texts: the range of the REAL parser =================
	// Props.C09 section AcceptedDeclTexts: whatever the parser returns for an accepted text satisfies
	// wf… unless an exception hypothesis (F6b: a help text / out name that is not valid UTF-8) fails.
	// Evaluated on the real parser's dump of every accepted printed, respelled and near-miss text.
	// the recorded exception (F6b) on hand-written texts, so that the filter is exercised on every run
	for _, t := range []string{"struct S(int a \"\\xff\",)", "struct S ( int a \"\" \"\\376\" , )"} {
		accept("struct", c09dDumpStruct(c, t), t)
	}
	for _, t := range []string{wrap("in int a \"\\x80\","), wrap("out int \"h\" \"\\xc3\",")} {
		d, _, _ := c09dDumpStage(c, t)
		accept("params", d, t)
	}
	hypOp := map[string]string{"struct": "C09.declstrsvalid", "params": "C09.paramsstrsvalid", "filetype": ""}
	wfOp := map[string]string{"struct": "C09.wfstruct", "params": "C09.wfparams", "filetype": "C09.wffiletype"}
	reqs = nil
	for _, a := range accepted {
		if hypOp[a.kind] != "" {
			reqs = append(reqs, []string{hypOp[a.kind], a.dump})
		} else {
			reqs = append(reqs, []string{"C09.wffiletype", a.dump})
		}
		reqs = append(reqs, []string{wfOp[a.kind], a.dump})
	}
	reps = c.Drv.AskBatch(reqs)
	for i, a := range accepted {
		hyp := hypOp[a.kind] == "" || reps[2*i] == "valid=true"
		wf := reps[2*i+1] == "wf=true"
		r.hist(fmt.Sprintf("decl:accepted:%s:hyp=%v,wf=%v", a.kind, hyp, wf))
		r.count("declacc:"+a.kind+":"+a.dump, true)
		if hyp && !wf {
			text := a.text
			if len(text) > 200 {
				text = text[:100] + "…(" + strconv.Itoa(len(a.text)) + " bytes)…" + text[len(text)-60:]
			}
			dump := a.dump
			if len(dump) > 300 {
				dump = dump[:300] + "…"
			}
			r.violate(Violation{Kind: "correspondence", Key: "C09:accepted-decl-not-wf",
				What:  "the real parser accepts a " + a.kind + " text whose AST satisfies the exception hypotheses but not wf (the range theorem evaluated on the real parser's result)",
				Input: map[string]interface{}{"text": text, "kind": a.kind}, Impl: dump, Model: reps[2*i] + " " + reps[2*i+1],
				Broken: "Props.C09.parse_produces_wf_" + a.kind + "… (AcceptedDeclTexts)"})
		}
	}
}
