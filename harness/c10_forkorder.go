package main

// C10: the ORDER of the fork ids of a node (not only their set).
//
// Sites: ForkId.expandStaticForkPart (the forks of a map call nested in another map call
// whose inner key sets are static but differ per outer element), makeForkIdParts, and the
// run-time expansion Fork.expandForkFromObj over getUnknownKeys.  The contract of the code
// (fork.go): the keys of a map call are enumerated in ascending (sort.Strings) order; a fork
// which is expanded keeps its position in the list and takes the SMALLEST key, the forks for
// the remaining keys are appended in ascending order.  For a map call nested in a call over
// outer elements o_0 … o_{n-1} (array index order / ascending outer key) with inner sorted
// key lists K_0 … K_{n-1} the list therefore is
//
//	(o_0,K_0[0]) … (o_{n-1},K_{n-1}[0]),  (o_0,K_0[1]) … (o_0,K_0[last]),  (o_1,K_1[1]) …
//
// Each case is evaluated repeatedly in this process (fresh compilation each time) and in
// fresh subprocesses; every sequence of fork id strings must equal the first one and the
// expected one.

import (
	"bytes"
	"encoding/json"
	"fmt"
	"math/rand"
	"os"
	"os/exec"
	"path/filepath"
	"sort"
	"strings"

	"github.com/martian-lang/martian/martian/core"
	"github.com/martian-lang/martian/martian/syntax"
)

type c10ForkCase struct {
	Name   string            `json:"name"`
	Class  string            `json:"class"`
	Src    string            `json:"src"`
	Fqid   string            `json:"fqid"` // without the ID.<psid>. prefix
	Outs   map[string]string `json:"outs,omitempty"`
	Expect []string          `json:"expect,omitempty"`
}

const c10ForkStages = `stage STAGE(
    in  int num,
    out int r,
    src comp "mock",
)

pipeline INNER(
    in  map<int> nums,
    out map<int> rs,
)
{
    map call STAGE(
        num = split self.nums,
    )

    return (
        rs = STAGE.r,
    )
}
`

// keys whose sorted order is not their generation order and not the order of any prefix hash:
// upper/lower case, digits, underscores (all left unchanged by makeKeySafe)
func c10ForkKeys(rng *rand.Rand, n int, taken map[string]bool) []string {
	const first = "abcdefghijklmnopqrstuvwxyzABCDEFGHIJKLMNOPQRSTUVWXYZ"
	const rest = "abcdefghijklmnopqrstuvwxyz0123456789_ABCXYZ"
	var keys []string
	for len(keys) < n {
		var sb strings.Builder
		sb.WriteByte(first[rng.Intn(len(first))])
		for l := rng.Intn(6); l > 0; l-- {
			sb.WriteByte(rest[rng.Intn(len(rest))])
		}
		k := sb.String()
		if !taken[k] {
			taken[k] = true
			keys = append(keys, k)
		}
	}
	return keys
}

func c10ForkMapLit(rng *rand.Rand, keys []string, indent string) string {
	var sb strings.Builder
	sb.WriteString("{\n")
	for _, k := range keys {
		fmt.Fprintf(&sb, "%s    %q: %d,\n", indent, k, rng.Intn(100))
	}
	sb.WriteString(indent + "}")
	return sb.String()
}

// the list order the contract above gives
func c10ForkExpected(outer []string, inner [][]string) []string {
	var out []string
	sorted := make([][]string, len(inner))
	for i, ks := range inner {
		s := append([]string(nil), ks...)
		sort.Strings(s)
		sorted[i] = s
		out = append(out, outer[i]+"/fork_"+core.VerifMakeKeySafe(s[0]))
	}
	for i, s := range sorted {
		for _, k := range s[1:] {
			out = append(out, outer[i]+"/fork_"+core.VerifMakeKeySafe(k))
		}
	}
	return out
}

func c10ForkCases(rng *rand.Rand) []c10ForkCase {
	var cases []c10ForkCase
	// ---- static: ragged inner key sets under an array-keyed and a map-keyed outer call ----
	for _, outerKind := range []string{"array", "map", "array", "map"} {
		n := 2 + rng.Intn(3)
		taken := map[string]bool{}
		inner := make([][]string, n)
		for i := range inner {
			sz := 2 + rng.Intn(11) // 2..12 keys
			if i == n-1 && rng.Intn(3) == 0 {
				sz = 1 // the single-key fast path next to expanded neighbours
			}
			inner[i] = c10ForkKeys(rng, sz, taken)
			if i > 0 && rng.Intn(2) == 0 {
				// overlapping, but different, key sets
				inner[i] = append(inner[i], inner[i-1][0])
			}
		}
		var lit strings.Builder
		var outer []string
		if outerKind == "array" {
			lit.WriteString("[\n")
			for i, ks := range inner {
				lit.WriteString("        " + c10ForkMapLit(rng, ks, "        ") + ",\n")
				outer = append(outer, fmt.Sprintf("fork%d", i))
			}
			lit.WriteString("    ]")
		} else {
			okeys := c10ForkKeys(rng, n, map[string]bool{})
			lit.WriteString("{\n")
			for i, ks := range inner {
				fmt.Fprintf(&lit, "        %q: %s,\n", okeys[i], c10ForkMapLit(rng, ks, "        "))
			}
			lit.WriteString("    }")
			// outer forks come in ascending outer key order: permute the inner lists accordingly
			idx := make([]int, n)
			for i := range idx {
				idx[i] = i
			}
			sort.Slice(idx, func(a, b int) bool { return okeys[idx[a]] < okeys[idx[b]] })
			sortedInner := make([][]string, n)
			for j, i := range idx {
				outer = append(outer, "fork_"+core.VerifMakeKeySafe(okeys[i]))
				sortedInner[j] = inner[i]
			}
			inner = sortedInner
		}
		src := c10ForkStages + "\nmap call INNER(\n    nums = split " + lit.String() + ",\n)\n"
		cases = append(cases, c10ForkCase{Name: fmt.Sprintf("static-%s-outer-%d", outerKind, len(cases)),
			Class: "static-ragged-map-in-" + outerKind + "-call", Src: src, Fqid: "INNER.STAGE",
			Expect: c10ForkExpected(outer, inner)})
	}
	// ---- run time: the map (of maps) is the output of an upstream stage ----
	{
		keys := c10ForkKeys(rng, 9+rng.Intn(4), map[string]bool{}) // > 8: more than one bucket, no rotation-only orders
		m := map[string]int{}
		for i, k := range keys {
			m[k] = i
		}
		outs, _ := json.Marshal(map[string]interface{}{"m": m})
		sorted := append([]string(nil), keys...)
		sort.Strings(sorted)
		var expect []string
		for _, k := range sorted {
			expect = append(expect, "fork_"+core.VerifMakeKeySafe(k))
		}
		src := `stage PRODUCE(
    in  int      x,
    out map<int> m,
    src comp     "mock",
)

stage STAGE(
    in  int num,
    out int r,
    src comp "mock",
)

pipeline TOP(
    in  int      x,
    out map<int> rs,
)
{
    call PRODUCE(
        x = self.x,
    )

    map call STAGE(
        num = split PRODUCE.m,
    )

    return (
        rs = STAGE.r,
    )
}

call TOP(
    x = 1,
)
`
		cases = append(cases, c10ForkCase{Name: "runtime-single", Class: "runtime-map-call", Src: src, Fqid: "TOP.STAGE",
			Outs: map[string]string{"TOP.PRODUCE": string(outs)}, Expect: expect})
	}
	{
		// (MRO has no map<map<..>>: the outer collection is an array of maps)
		n := 2 + rng.Intn(3)
		taken := map[string]bool{}
		var mm []map[string]int
		var outer []string
		var inner [][]string
		for o := 0; o < n; o++ {
			ks := c10ForkKeys(rng, 2+rng.Intn(11), taken)
			m := map[string]int{}
			for i, k := range ks {
				m[k] = i
			}
			mm = append(mm, m)
			outer = append(outer, fmt.Sprintf("fork%d", o))
			inner = append(inner, ks)
		}
		outs, _ := json.Marshal(map[string]interface{}{"mm": mm})
		src := `stage PRODUCE(
    in  int        x,
    out map<int>[] mm,
    src comp       "mock",
)

` + c10ForkStages + `
pipeline TOP(
    in  int        x,
    out map<int>[] rs,
)
{
    call PRODUCE(
        x = self.x,
    )

    map call INNER(
        nums = split PRODUCE.mm,
    )

    return (
        rs = INNER.rs,
    )
}

call TOP(
    x = 1,
)
`
		cases = append(cases, c10ForkCase{Name: "runtime-nested", Class: "runtime-ragged-map-in-array-call", Src: src, Fqid: "TOP.INNER.STAGE",
			Outs: map[string]string{"TOP.PRODUCE": string(outs)}, Expect: c10ForkExpected(outer, inner)})
	}
	return cases
}

// one evaluation of a case on the real code: the sequences of fork ids, one line per observation
func c10ForkObserve(rt *core.Runtime, scratch string, cs *c10ForkCase, n int) (obs string) {
	defer func() {
		if r := recover(); r != nil {
			obs += fmt.Sprintf("PANIC: %v", r)
		}
	}()
	var sb strings.Builder
	if cs.Outs == nil {
		ids, err := core.VerifCompiledForkIds(cs.Src, cs.Fqid)
		if err != nil {
			return "ERR:" + err.Error()
		}
		sb.WriteString("MakeForkIds: " + strings.Join(ids, " ") + "\n")
	}
	if rt == nil {
		return sb.String()
	}
	psdir := filepath.Join(scratch, fmt.Sprintf("c10fork-%d-%d", os.Getpid(), n))
	defer os.RemoveAll(psdir)
	ps, err := rt.InvokePipeline(cs.Src, filepath.Join(scratch, "forkorder.mro"), "ps", psdir, nil, "verif", nil, nil)
	if err != nil {
		return sb.String() + "INVOKE-ERR:" + strings.ReplaceAll(err.Error(), psdir, "$PS")
	}
	defer ps.Unlock()
	if cs.Outs == nil {
		for _, nv := range ps.VerifNodes() {
			if nv.Fqname == "ID.ps."+cs.Fqid {
				var dirs []string
				for _, f := range nv.Forks {
					dirs = append(dirs, f.Id)
				}
				sb.WriteString("Node.forks: " + strings.Join(dirs, " ") + "\n")
			}
		}
		return sb.String()
	}
	outs := map[string][]byte{}
	for k, v := range cs.Outs {
		outs["ID.ps."+k] = []byte(v)
	}
	ids, dirs, err := ps.VerifC10RuntimeForkIds(outs, "ID.ps."+cs.Fqid)
	if err != nil {
		return "EXPAND-ERR:" + strings.ReplaceAll(err.Error(), psdir, "$PS")
	}
	sb.WriteString("expandForks: " + strings.Join(ids, " ") + "\n")
	sb.WriteString("Node.forks: " + strings.Join(dirs, " ") + "\n")
	return sb.String()
}

// the fork id sequence of the first line of an observation
func c10ForkFirstSeq(obs string) []string {
	line := strings.SplitN(obs, "\n", 2)[0]
	if i := strings.Index(line, ": "); i >= 0 {
		return strings.Fields(line[i+2:])
	}
	return nil
}

// subprocess mode: evaluate every case of the list once, return the observations
func c10ForkChild(c *Ctx, rt *core.Runtime, list string) {
	b, err := os.ReadFile(list)
	if err != nil {
		fatal("%v", err)
	}
	var cases []c10ForkCase
	if err := json.Unmarshal(b, &cases); err != nil {
		fatal("%v", err)
	}
	out := map[string]string{}
	for i := range cases {
		out[cases[i].Name] = c10ForkObserve(rt, c.Scratch, &cases[i], i)
	}
	c.Res.Extra = map[string]interface{}{"forkorder": out}
}

func c10ForkOrder(c *Ctx, rt *core.Runtime) {
	r := c.Res
	reps, nchild := 40, 2
	if c.Thorough {
		reps, nchild = 200, 4
	}
	for _, fn := range c10ReportedFunctions(c) {
		if fn == "ForkId.expandStaticForkPart" || fn == "makeForkIdParts" || fn == "getUnknownKeys" ||
			fn == "Fork.expandForkFromObj" || fn == "TopNode.getParts" {
			reps *= 2
			r.note("site list reports %s: fork-order provocations run with %d repetitions", fn, reps)
			break
		}
	}
	var cases []c10ForkCase
	// corpus: corpus/C10/forkorder-*.json (minimised past failures) first
	if ents, err := filepath.Glob(filepath.Join(c.Corpus, "forkorder-*.json")); err == nil {
		sort.Strings(ents)
		for _, e := range ents {
			var cs c10ForkCase
			if b, err := os.ReadFile(e); err == nil && json.Unmarshal(b, &cs) == nil {
				cases = append(cases, cs)
			}
		}
	}
	cases = append(cases, c10ForkCases(c.Rng)...)
	first := make([]string, len(cases))
	for i := range cases {
		cs := &cases[i]
		first[i] = c10ForkObserve(rt, c.Scratch, cs, 0)
		r.count("forkorder\x00"+cs.Src+cs.Outs["TOP.PRODUCE"], true)
		r.hist("fork-order:" + cs.Class)
		if cs.Name == "static-array-outer-0" || cs.Name == "static-map-outer-1" || cs.Outs != nil {
			r.note("fork-order case %s (%s), node %s: %s", cs.Name, cs.Class, cs.Fqid, strings.ReplaceAll(head(first[i], 500), "\n", " | "))
		}
		input := map[string]interface{}{"case": cs.Name, "class": cs.Class, "program": cs.Src, "node": cs.Fqid}
		if cs.Outs != nil {
			input["outs"] = cs.Outs
		}
		if strings.Contains(first[i], "ERR:") || strings.Contains(first[i], "PANIC: ") {
			r.note("fork-order case %s could not be evaluated: %s", cs.Name, head(first[i], 300))
			r.hist("fork-order-outcome:error")
			continue
		}
		r.hist("fork-order-outcome:ok")
		// against the order the code's contract gives
		checkExpected := func(obs string, rep int) bool {
			for _, line := range strings.Split(strings.TrimSpace(obs), "\n") {
				j := strings.Index(line, ": ")
				if j < 0 {
					continue
				}
				got := strings.Fields(line[j+2:])
				if cs.Expect != nil && strings.Join(got, " ") != strings.Join(cs.Expect, " ") {
					r.violate(Violation{Kind: "property", Key: "C10:fork-order-not-sorted:" + cs.Class,
						What: fmt.Sprintf("the forks of %s are not listed in the order of the sorted keys (%s, repetition %d): outer order x ascending inner keys, "+
							"the expanded fork keeps its place with the smallest key", cs.Fqid, line[:j], rep),
						Input: input, Impl: strings.Join(got, " "), Expect: strings.Join(cs.Expect, " "),
						Broken: "Props.C10.forkKeyParts_order_independent (the fork keys are not sorted before they are enumerated)"})
					return false
				}
			}
			return true
		}
		checkExpected(first[i], 0)
		for k, ok := 1, true; k < reps && ok; k++ {
			got := c10ForkObserve(rt, c.Scratch, cs, k)
			r.Evals++
			if got != first[i] {
				// re-evaluate alone before reporting
				again := c10ForkObserve(rt, c.Scratch, cs, k)
				da, db := c10FirstDiff(first[i], got)
				r.violate(Violation{Kind: "property", Key: "C10:nondeterministic:fork-order:" + cs.Class,
					What: fmt.Sprintf("the sequence of fork ids of %s differs between repetition 0 and repetition %d in one process (third evaluation equals the first: %v)",
						cs.Fqid, k, again == first[i]),
					Input: input, Impl: map[string]string{"first": da, "later": db, "first_sequence": head(first[i], 1200), "later_sequence": head(got, 1200)},
					Expect: "the same sequence of fork ids on every repetition",
					Broken: "Props.C10.forkKeyParts_order_independent (fork keys enumerated in Go map order)"})
				ok = false
			}
		}
	}
	// ---- fresh subprocesses ----
	listFile := filepath.Join(c.Scratch, "c10-forkorder.json")
	b, _ := json.Marshal(cases)
	os.WriteFile(listFile, b, 0o644)
	for ch := 0; ch < nchild; ch++ {
		outFile := filepath.Join(c.Scratch, fmt.Sprintf("c10-forkorder-child-%d.json", ch))
		cmd := exec.Command(os.Args[0], "-tier", c.Tier, "-seed", fmt.Sprint(c.Seed), "-out", outFile, "-repo", c.RepoDir, "C10")
		cmd.Env = append(os.Environ(), "VERIF_C10_FORK_CHILD="+listFile)
		if out, err := cmd.CombinedOutput(); err != nil {
			r.note("fork-order subprocess %d failed: %v %s", ch, err, head(string(out), 200))
			continue
		}
		var res struct {
			Extra struct {
				Forkorder map[string]string `json:"forkorder"`
			} `json:"extra"`
		}
		cb, _ := os.ReadFile(outFile)
		if err := json.Unmarshal(cb, &res); err != nil {
			r.note("fork-order subprocess %d result unreadable: %v", ch, err)
			continue
		}
		r.hist("fork-order-subprocess-runs")
		for i := range cases {
			cs := &cases[i]
			got, ok := res.Extra.Forkorder[cs.Name]
			if !ok || strings.Contains(first[i], "ERR:") {
				continue
			}
			r.Evals++
			// the scratch directory differs between processes; the observations do not contain it
			if got != first[i] {
				da, db := c10FirstDiff(first[i], got)
				r.violate(Violation{Kind: "property", Key: "C10:nondeterministic-across-processes:fork-order:" + cs.Class,
					What:  fmt.Sprintf("the sequence of fork ids of %s differs between two processes", cs.Fqid),
					Input: map[string]interface{}{"case": cs.Name, "class": cs.Class, "program": cs.Src, "node": cs.Fqid, "outs": cs.Outs},
					Impl:  map[string]string{"this_process": da, "subprocess": db}, Expect: "the same sequence of fork ids in every process",
					Broken: "Props.C10.forkKeyParts_order_independent (fork keys enumerated in Go map order)"})
			}
		}
	}
}

// Provocations for sites whose sort was only guarded by the site-list obligation: evaluated
// by c10RunProvocations (40x quick / 200x thorough); the returned text must be byte-identical.
func c10ForkSiteProvocations(c *Ctx, out map[string]func() string) {
	const n = 13
	// ResolvedBindingMap.EncodeJSON: the resolved inputs of a stage with 13 parameters
	{
		var ins, binds []string
		for i := 0; i < n; i++ {
			ins = append(ins, fmt.Sprintf("    in  int p%02d,", (i*5)%n))
			binds = append(binds, fmt.Sprintf("        p%02d = self.x,", (i*7)%n))
		}
		src := "stage WIDE(\n" + strings.Join(ins, "\n") + "\n    out int r,\n    src comp \"bin/wide\",\n)\n\n" +
			"pipeline TOP(\n    in  int x,\n    out int r,\n)\n{\n    call WIDE(\n" + strings.Join(binds, "\n") +
			"\n    )\n\n    return (\n        r = WIDE.r,\n    )\n}\n\ncall TOP(\n    x = 1,\n)\n"
		_, _, ast, err := syntax.ParseSourceBytes([]byte(src), "verif.mro", nil, false)
		if err != nil {
			c.Res.note("ResolvedBindingMap.EncodeJSON provocation does not compile: %v", err)
		} else if graph, err := ast.MakeCallGraph("ID.ps.", ast.Call); err != nil {
			c.Res.note("ResolvedBindingMap.EncodeJSON provocation: %v", err)
		} else if node := graph.NodeClosure()["ID.ps.TOP.WIDE"]; node == nil {
			c.Res.note("ResolvedBindingMap.EncodeJSON provocation: node not found")
		} else {
			out[fmt.Sprintf("ResolvedBindingMap.EncodeJSON(%d inputs)", n)] = func() string {
				var buf bytes.Buffer
				if err := node.ResolvedInputs().EncodeJSON(&buf); err != nil {
					return "ERR:" + err.Error()
				}
				return buf.String()
			}
		}
	}
	// Metadata.serializeState: 14 metadata files in a fork's directory
	if rt, err := core.VerifNewLocalRuntime(); err == nil {
		src := "stage ST(\n    in  int x,\n    out int r,\n    src comp \"bin/st\",\n)\n\ncall ST(\n    x = 1,\n)\n"
		psdir := filepath.Join(c.Scratch, "c10meta")
		ps, err := rt.InvokePipeline(src, filepath.Join(c.Scratch, "meta.mro"), "ps", psdir, nil, "verif", nil, nil)
		if err != nil {
			c.Res.note("Metadata.serializeState provocation: %v", err)
		} else {
			files := []string{"zeta", "args", "outs", "log", "stdout", "stderr", "jobinfo", "complete", "perf", "alpha", "Mid", "chunk_defs", "vdrkill", "b2"}
			out[fmt.Sprintf("Metadata.serializeState(%d files)", len(files))] = func() string {
				names, err := ps.VerifC10MetadataNames("ID.ps.ST", files)
				if err != nil {
					return "ERR:" + err.Error()
				}
				return strings.Join(names, " ")
			}
		}
	}
}
