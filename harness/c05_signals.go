package main

// C05 "a handled termination signal leaves the pipestance unlocked": signals in
// close succession.  Deterministic, no lucky timing: a helper process (this
// binary in `-stage __sighelper` mode) does what mrp does — SetupSignalHandlers,
// InvokePipeline (takes _lock, registers the pipestance with the signal
// handler) — and then sits inside a critical section (as sendJob, ZipMetadata,
// vdrKill, runJob do) until the parent releases it.  The parent sends a first
// handled signal, lets the handler take it (it now waits for the critical
// section), sends a SECOND handled signal, and only then lets the helper leave
// the critical section.  Oracle: the helper terminates and _lock is gone.

import (
	"fmt"
	"os"
	"os/exec"
	"path/filepath"
	"strings"
	"syscall"
	"time"

	"github.com/martian-lang/martian/martian/core"
	"github.com/martian-lang/martian/martian/util"
)

const sigHelperSrc = `stage WORK(
    in  int  x,
    out int  y,
    src comp "fake",
)

pipeline TOP(
    out int y,
)
{
    call WORK(
        x = 1,
    )

    return (
        y = WORK.y,
    )
}

call TOP()
`

// sigHelperMain: args = [dir].  Prints the pipestance directory, then READY.
func sigHelperMain(args []string) {
	if len(args) != 1 {
		os.Exit(64)
	}
	dir := args[0]
	taInit()
	util.SetupSignalHandlers()
	run, err := NewTARun(sigHelperSrc, dir, 1, TAOpts{})
	if err != nil {
		fmt.Println("ERROR", err)
		os.Exit(65)
	}
	util.EnterCriticalSection()
	fmt.Println("PSDIR", run.PsDir)
	fmt.Println("READY")
	os.Stdout.Sync()
	for {
		if _, err := os.Stat(filepath.Join(dir, "release")); err == nil {
			break
		}
		time.Sleep(2 * time.Millisecond)
	}
	util.ExitCriticalSection()
	// the signal handler now runs the HandleSignal methods and exits the process
	time.Sleep(10 * time.Second)
	fmt.Println("NOT-TERMINATED")
	os.Exit(3)
}

var c05SigNames = map[string]syscall.Signal{"TERM": syscall.SIGTERM, "INT": syscall.SIGINT, "HUP": syscall.SIGHUP}

// c05SignalSequences: every sequence of one or two handled signals (quick: all 3 + 9 = 12 are cheap).
func c05SignalSequences(c *Ctx) {
	r := c.Res
	self, err := os.Executable()
	if err != nil {
		r.note("signal sequences skipped: %v", err)
		return
	}
	var seqs [][]string
	for _, a := range []string{"TERM", "INT", "HUP"} {
		seqs = append(seqs, []string{a})
		for _, b := range []string{"TERM", "INT", "HUP"} {
			seqs = append(seqs, []string{a, b})
		}
	}
	for i, seq := range seqs {
		dir := filepath.Join(c.Scratch, fmt.Sprintf("sig%d", i))
		os.MkdirAll(dir, 0o755)
		outPath := filepath.Join(dir, "out.txt")
		outF, _ := os.Create(outPath)
		cmd := exec.Command(self, "-stage", "__sighelper", dir)
		cmd.Stdout, cmd.Stderr = outF, outF
		cmd.SysProcAttr = &syscall.SysProcAttr{Setpgid: true}
		if err := cmd.Start(); err != nil {
			r.note("signal helper does not start: %v", err)
			outF.Close()
			continue
		}
		done := make(chan error, 1)
		go func() { done <- cmd.Wait() }()
		read := func() string { b, _ := os.ReadFile(outPath); return string(b) }
		waitFor := func(what string, d time.Duration) bool {
			for t0 := time.Now(); time.Since(t0) < d; time.Sleep(2 * time.Millisecond) {
				if strings.Contains(read(), what) {
					return true
				}
			}
			return false
		}
		key := strings.Join(seq, "+")
		r.hist("signal_sequence_runs")
		if !waitFor("READY", 20*time.Second) {
			r.note("signal helper not ready: %s", firstLine(read()))
			cmd.Process.Kill()
			<-done
			outF.Close()
			continue
		}
		psdir := ""
		for _, l := range strings.Split(read(), "\n") {
			if strings.HasPrefix(l, "PSDIR ") {
				psdir = strings.TrimSpace(l[6:])
			}
		}
		lock := filepath.Join(psdir, "_lock")
		if _, err := os.Stat(lock); err != nil {
			r.note("signal helper: no _lock after InvokePipeline (%v)", err)
		}
		alive := func() bool {
			select {
			case err := <-done:
				done <- err
				return false
			default:
				return true
			}
		}
		for j, s := range seq {
			cmd.Process.Signal(c05SigNames[s])
			// the handler goroutine takes the signal and blocks on the critical section
			time.Sleep(60 * time.Millisecond)
			if j == 0 && !alive() {
				break
			}
		}
		diedInside := !alive()
		os.WriteFile(filepath.Join(dir, "release"), nil, 0o644)
		terminated := false
		select {
		case <-done:
			terminated = true
		case <-time.After(8 * time.Second):
			cmd.Process.Kill()
			<-done
		}
		outF.Close()
		_, lockErr := os.Stat(lock)
		r.count("signals:"+key, len(seq) > 1)
		input := map[string]interface{}{"signals": seq, "scenario": "mrp-like helper inside a critical section (EnterCriticalSection) when the signals arrive; released afterwards"}
		switch {
		case !terminated:
			r.violate(Violation{Kind: "property", Key: "C05:signals-not-terminated:" + key,
				What: "after handled signal(s) " + key + " and the end of the critical section the process did not terminate", Input: input, Impl: read()})
		case lockErr == nil:
			what := "the process terminated after handled signal(s) " + key + " but left the pipestance locked (_lock present)"
			if diedInside {
				what += "; it died INSIDE the critical section the first signal was waiting for"
			}
			r.violate(Violation{Kind: "property", Key: "C05:lock-left-after-signals:" + key, What: what, Input: input, Impl: read()})
		case diedInside:
			r.violate(Violation{Kind: "property", Key: "C05:critical-section-interrupted:" + key,
				What: "the process terminated inside a critical section on signal(s) " + key, Input: input, Impl: read()})
		}
	}
}

// c05MrjobSignalWhileRecording: the real job monitor (mrjob, built from the tree) receives a handled
// signal at the instant it is recording the job's completion — made deterministic by turning the
// journal entry for _complete into a FIFO, in which mrjob blocks right after it wrote _complete.
// Oracle: a job whose completion is recorded is not marked failed afterwards (a job directory with
// both _complete and _errors is `failed`: the restarted mrp resets it and runs the job again).
func c05MrjobSignalWhileRecording(c *Ctx, env *TBEnv) {
	r := c.Res
	mrjob := filepath.Join(filepath.Dir(env.Mrp), "mrjob")
	if _, err := os.Stat(mrjob); err != nil {
		r.note("mrjob signal runs skipped: %v", err)
		return
	}
	for i, sig := range []string{"TERM", "INT", "HUP"} {
		dir := filepath.Join(c.Scratch, fmt.Sprintf("mrjobsig%d", i))
		md := filepath.Join(dir, "chnk0-u0123456789")
		files := filepath.Join(md, "files")
		journal := filepath.Join(dir, "journal")
		for _, d := range []string{md, files, journal} {
			os.MkdirAll(d, 0o777)
		}
		runFile := filepath.Join(journal, "PIPE.STAGE.fork0.chnk0.u0123456789")
		os.WriteFile(filepath.Join(md, "_jobinfo"), []byte(`{"name": "ID.v.PIPE.STAGE.fork0.chnk0", "type": "local", "threads": 1, "memGB": 1}`), 0o644)
		os.WriteFile(filepath.Join(md, "_outs"), []byte(`{"result": null}`), 0o644)
		stage := filepath.Join(dir, "stage.sh")
		os.WriteFile(stage, []byte("#!/bin/sh\necho '{\"result\": 1}' > \"$2/_outs\"\nexit 0\n"), 0o755)
		fifo := runFile + ".complete"
		if err := syscall.Mkfifo(fifo, 0o644); err != nil {
			r.note("mkfifo: %v", err)
			return
		}
		cmd := exec.Command(mrjob, stage, "main", md, files, runFile)
		cmd.SysProcAttr = &syscall.SysProcAttr{Setpgid: true}
		if err := cmd.Start(); err != nil {
			r.note("mrjob does not start: %v", err)
			return
		}
		exited := make(chan error, 1)
		go func() { exited <- cmd.Wait() }()
		exists := func(n string) bool { _, err := os.Stat(filepath.Join(md, n)); return err == nil }
		ok := false
		for t0 := time.Now(); time.Since(t0) < 20*time.Second; time.Sleep(5 * time.Millisecond) {
			if exists("_complete") {
				ok = true
				break
			}
		}
		r.hist("mrjob_signal_while_recording_runs")
		if !ok {
			cmd.Process.Kill()
			<-exited
			r.note("mrjob never wrote _complete (signal %s run)", sig)
			continue
		}
		time.Sleep(50 * time.Millisecond)
		cmd.Process.Signal(c05SigNames[sig])
		time.Sleep(300 * time.Millisecond)
		go func() {
			if f, err := os.OpenFile(fifo, os.O_RDONLY|syscall.O_NONBLOCK, 0); err == nil {
				defer f.Close()
				buf := make([]byte, 256)
				for end := time.Now().Add(5 * time.Second); time.Now().Before(end); time.Sleep(10 * time.Millisecond) {
					f.Read(buf)
				}
			}
		}()
		select {
		case <-exited:
		case <-time.After(20 * time.Second):
			cmd.Process.Kill()
			<-exited
			r.note("mrjob did not exit (signal %s run)", sig)
			continue
		}
		r.count("mrjob-signal-while-recording:"+sig, true)
		if exists("_complete") && exists("_errors") {
			b, _ := os.ReadFile(filepath.Join(md, "_errors"))
			r.violate(Violation{Kind: "property", Key: "C05:completed-job-marked-failed-by-signal:" + sig,
				What:  "the job monitor had recorded the job's completion (_complete) when SIG" + sig + " arrived, and marked the job failed afterwards (_errors: " + firstLine(string(b)) + "): the restarted mrp resets the job and executes it again",
				Input: map[string]interface{}{"signal": sig, "scenario": "real mrjob, journal entry of _complete is a FIFO so that the signal arrives inside runner.Complete()"}})
		}
	}
}

// c05ClusterSubmitWindow (cluster mode, the real RemoteJobManager.sendJob): several jobs are queued while
// the submit command is slow, so that all but one WAIT for the submit lock.  A job in that window has
// been handed to nobody; its `_queued_locally` is the only durable record of that (it is what
// restartQueuedLocal uses to resubmit it; the queue query only knows jobs with a `_jobid`, and
// restartLocal is not applied to cluster jobs).  Oracle, free of timing: if job X has `_jobinfo`, no
// `_queued_locally`, and its submit command has not started, while ANOTHER job's submit command is
// (still, checked afterwards) running — i.e. holds the lock — then an mrp terminated at that instant
// is restarted into a pipestance that waits for X for ever.
func c05ClusterSubmitWindow(c *Ctx) {
	r := c.Res
	dir := filepath.Join(c.Scratch, "submitwindow")
	os.MkdirAll(dir, 0o755)
	const k = 4
	submit := []string{"-c", "cat > /dev/null; touch ../_submit_started; sleep 0.25; echo job$$"}
	jm := core.VerifNewClusterJobManager(0, "/bin/sh", submit)
	fork, err := core.VerifLoadClusterFork(jm, "ID.c05.PIPE.STAGE", dir, k)
	if err != nil {
		r.note("cluster submit window: %v", err)
		return
	}
	_, _, chunks := fork.Metadatas()
	res := &core.JobResources{Threads: 1, MemGB: 1}
	for i := 0; i < k; i++ {
		// Node.runJob hands each job to the job manager from a goroutine of its own
		go core.VerifQueueJob(jm, chunks[i], res, fmt.Sprintf("ID.c05.PIPE.STAGE.fork0.chnk%d", i))
	}
	has := func(i int, f string) bool {
		_, err := os.Stat(filepath.Join(dir, fmt.Sprintf("chnk%d", i), f))
		return err == nil
	}
	submitting := func(i int) bool { return has(i, "_submit_started") && !has(i, "_jobid") && !has(i, "_errors") }
	bad := -1
	observations := 0
	deadline := time.Now().Add(20 * time.Second)
	for time.Now().Before(deadline) && bad < 0 {
		alldone := true
		for i := 0; i < k; i++ {
			if !has(i, "_jobid") && !has(i, "_errors") {
				alldone = false
			}
		}
		if alldone {
			break
		}
		for x := 0; x < k && bad < 0; x++ {
			if has(x, "_jobinfo") && !has(x, "_queued_locally") && !has(x, "_submit_started") {
				// confirm AFTERWARDS that somebody else still holds the submit lock
				for y := 0; y < k; y++ {
					if y != x && submitting(y) {
						bad = x
					}
				}
			}
			observations++
		}
		time.Sleep(time.Millisecond)
	}
	nerr, nid := 0, 0
	for i := 0; i < k; i++ {
		if has(i, "_errors") {
			nerr++
			if b, e := os.ReadFile(filepath.Join(dir, fmt.Sprintf("chnk%d", i), "_errors")); e == nil && nerr == 1 {
				r.note("cluster submit window: submit command failed: %s", firstLine(string(b)))
			}
		}
		if has(i, "_jobid") {
			nid++
		}
	}
	r.Histogram["cluster_submit_window_observations"] += observations
	r.Histogram["cluster_submit_window_submitted"] += nid
	r.hist("cluster_submit_window_runs")
	r.count("cluster-submit-window", true)
	if bad >= 0 {
		r.violate(Violation{Kind: "property", Key: "C05:cluster-job-unrestartable-while-waiting-for-submit",
			What: fmt.Sprintf("cluster mode: job chnk%d was waiting for the submit lock (another job's submit command was running) with _jobinfo but neither _queued_locally nor _jobid: an mrp terminated at that instant is restarted into a pipestance that takes the job to be queued on the cluster and waits for it for ever", bad),
			Input: map[string]interface{}{"jobs": k, "submit_command": strings.Join(submit, " "), "scenario": "real RemoteJobManager.sendJob, slow submit command"}})
	}
	// let the remaining submissions finish before the scratch directory goes away
	for w := 0; w < 400; w++ {
		done := true
		for i := 0; i < k; i++ {
			if !has(i, "_jobid") && !has(i, "_errors") {
				done = false
			}
		}
		if done {
			break
		}
		time.Sleep(10 * time.Millisecond)
	}
}
