package main

// C07 compile-time half, part 1: the fixed type universe of the tiny
// programs, the expression trees (with their MRO text and their driver
// encoding) and by-construction literals.

import (
	"fmt"
	"math/rand"
	"strings"

	"github.com/martian-lang/martian/martian/syntax"
)

// ---- type universe ----

const c07Decls = `filetype txt;
filetype bam;

struct PAIR(
    int    a,
    string b,
)

struct WIDE(
    int    a,
    string b,
    float  c,
    int[]  xs,
)

struct FLT(
    float  a,
    string b,
)

struct OUTER(
    PAIR        p,
    int[]       ys,
    map<int>    m,
    PAIR[]      ps,
    map<WIDE>   wm,
    map<PAIR[]> pam,
)

struct NARROWO(
    FLT   p,
    int[] ys,
)

struct FILES(
    txt    f,
    int    n,
    file[] fs,
    bam    b,
)

struct MAPPY(
    map         m,
    map<string> sm,
    path        p,
)

`

func c07B(n string) *c17Ty                 { return &c17Ty{kind: 'b', name: n} }
func c07U(n string) *c17Ty                 { return &c17Ty{kind: 'u', name: n} }
func c07A(t *c17Ty) *c17Ty                 { return &c17Ty{kind: 'a', elem: t} }
func c07M(t *c17Ty) *c17Ty                 { return &c17Ty{kind: 'm', elem: t} }
func c07S(n string, fs ...c17Field) *c17Ty { return &c17Ty{kind: 's', name: n, fields: fs} }

var (
	c07Pair  = c07S("PAIR", c17Field{"a", c07B("int")}, c17Field{"b", c07B("string")})
	c07Wide  = c07S("WIDE", c17Field{"a", c07B("int")}, c17Field{"b", c07B("string")}, c17Field{"c", c07B("float")}, c17Field{"xs", c07A(c07B("int"))})
	c07Flt   = c07S("FLT", c17Field{"a", c07B("float")}, c17Field{"b", c07B("string")})
	c07Outer = c07S("OUTER", c17Field{"p", c07Pair}, c17Field{"ys", c07A(c07B("int"))}, c17Field{"m", c07M(c07B("int"))},
		c17Field{"ps", c07A(c07Pair)}, c17Field{"wm", c07M(c07Wide)}, c17Field{"pam", c07M(c07A(c07Pair))})
	c07NarrowO = c07S("NARROWO", c17Field{"p", c07Flt}, c17Field{"ys", c07A(c07B("int"))})
	c07Files   = c07S("FILES", c17Field{"f", c07U("txt")}, c17Field{"n", c07B("int")}, c17Field{"fs", c07A(c07B("file"))}, c17Field{"b", c07U("bam")})
	c07Mappy   = c07S("MAPPY", c17Field{"m", c07B("map")}, c17Field{"sm", c07M(c07B("string"))}, c17Field{"p", c07B("path")})
	c07Bases   = []*c17Ty{c07B("string"), c07B("int"), c07B("float"), c07B("bool"), c07B("path"), c07B("file"), c07B("map"),
		c07U("txt"), c07U("bam"), c07Pair, c07Wide, c07Flt, c07Outer, c07NarrowO, c07Files, c07Mappy}
)

func c07RandType(rng *rand.Rand) *c17Ty {
	t := c07Bases[rng.Intn(len(c07Bases))]
	if rng.Intn(3) == 0 { // favour the scalars that have literals
		t = c07Bases[rng.Intn(7)]
	}
	switch rng.Intn(12) {
	case 0, 1, 2:
		t = c07A(t)
	case 3:
		t = c07A(c07A(t))
	case 4, 5:
		if !t.isMapInside() {
			t = c07M(t)
		}
	case 6:
		if !t.isMapInside() {
			t = c07M(c07A(t))
		}
	case 7:
		if !t.isMapInside() {
			t = c07A(c07M(t))
		}
	}
	return t
}

// c07FromReal converts a compiled type of the real compiler.
func c07FromReal(t syntax.Type, lk *syntax.TypeLookup, depth int) *c17Ty {
	if depth > 12 {
		return nil
	}
	switch t := t.(type) {
	case *syntax.BuiltinType:
		return c07B(t.Id)
	case *syntax.UserType:
		return c07U(t.Id)
	case *syntax.ArrayType:
		e := c07FromReal(t.Elem, lk, depth+1)
		if e == nil {
			return nil
		}
		for i := int16(0); i < t.Dim; i++ {
			e = c07A(e)
		}
		return e
	case *syntax.TypedMapType:
		e := c07FromReal(t.Elem, lk, depth+1)
		if e == nil {
			return nil
		}
		return c07M(e)
	case *syntax.StructType:
		r := &c17Ty{kind: 's', name: t.Id}
		for _, m := range t.Members {
			mt := lk.Get(m.Tname)
			if mt == nil {
				return nil
			}
			ft := c07FromReal(mt, lk, depth+1)
			if ft == nil {
				return nil
			}
			r.fields = append(r.fields, c17Field{m.Id, ft})
		}
		return r
	}
	return nil
}

// c07ParseTyEnc parses the driver's type encoding.
func c07ParseTyEnc(toks []string) (*c17Ty, []string) {
	if len(toks) == 0 {
		return nil, nil
	}
	switch toks[0] {
	case "U":
		if len(toks) < 2 {
			return nil, nil
		}
		return c07U(unhx(toks[1])), toks[2:]
	case "A":
		e, r := c07ParseTyEnc(toks[1:])
		if e == nil {
			return nil, nil
		}
		return c07A(e), r
	case "M":
		e, r := c07ParseTyEnc(toks[1:])
		if e == nil {
			return nil, nil
		}
		return c07M(e), r
	case "S":
		if len(toks) < 3 {
			return nil, nil
		}
		var n int
		fmt.Sscan(toks[2], &n)
		t := &c17Ty{kind: 's', name: unhx(toks[1])}
		r := toks[3:]
		for i := 0; i < n; i++ {
			if len(r) < 2 {
				return nil, nil
			}
			id := unhx(r[0])
			var ft *c17Ty
			ft, r = c07ParseTyEnc(r[1:])
			if ft == nil {
				return nil, nil
			}
			t.fields = append(t.fields, c17Field{id, ft})
		}
		return t, r
	}
	for _, b := range c17Builtins {
		if b == toks[0] {
			return c07B(b), toks[1:]
		}
	}
	return nil, nil
}

// ---- expressions ----

// kind: n i d s t f a m(map literal) S(struct literal) r(self ref) c(call ref)
type c07Exp struct {
	kind  byte
	ival  int64
	ftext string // float literal text
	fm    int64  // mantissa, exponent of the float literal
	fe    int64
	str   string
	elems []*c07Exp
	keys  []string
	id    string
	path  []string
}

type c07Float struct {
	text string
	m, e int64
}

// exactly representable float literals (text as the MRO lexer wants it)
var c07Floats = []c07Float{{"1.5", 15, -1}, {"0.25", 25, -2}, {"3.0", 30, -1}, {"-2.0", -20, -1}, {"1e3", 1, 3},
	{"2.5e2", 25, 1}, {"1e-3", 1, -3}, {"123456.0", 1234560, -1}, {"999999.0", 9999990, -1},
	{"1e6", 1, 6}, {"1000000.0", 10000000, -1}, {"-4e7", -4, 7}, {"9e18", 9, 18}, {"1e19", 1, 19}, {"0.0", 0, -1}}

func c07Null() *c07Exp             { return &c07Exp{kind: 'n'} }
func c07Int(v int64) *c07Exp       { return &c07Exp{kind: 'i', ival: v} }
func c07Str(s string) *c07Exp      { return &c07Exp{kind: 's', str: s} }
func c07Bool(b bool) *c07Exp       { return &c07Exp{kind: map[bool]byte{true: 't', false: 'f'}[b]} }
func c07Flo(f c07Float) *c07Exp    { return &c07Exp{kind: 'd', ftext: f.text, fm: f.m, fe: f.e} }
func c07Arr(xs ...*c07Exp) *c07Exp { return &c07Exp{kind: 'a', elems: xs} }
func c07Ref(kind byte, id string, path ...string) *c07Exp {
	return &c07Exp{kind: kind, id: id, path: path}
}

func (e *c07Exp) mro() string {
	switch e.kind {
	case 'n':
		return "null"
	case 'i':
		return fmt.Sprint(e.ival)
	case 'd':
		return e.ftext
	case 's':
		return `"` + e.str + `"` // generator only uses strings without escapes
	case 't':
		return "true"
	case 'f':
		return "false"
	case 'a':
		parts := make([]string, len(e.elems))
		for i, x := range e.elems {
			parts[i] = x.mro()
		}
		return "[" + strings.Join(parts, ", ") + "]"
	case 'm', 'S':
		parts := make([]string, len(e.elems))
		for i, x := range e.elems {
			if e.kind == 'm' {
				parts[i] = `"` + e.keys[i] + `": ` + x.mro()
			} else {
				parts[i] = e.keys[i] + ": " + x.mro()
			}
		}
		return "{" + strings.Join(parts, ", ") + "}"
	case 'x': // verbatim text (mutation oracle only)
		return e.str
	case 'r':
		return "self." + strings.Join(append([]string{e.id}, e.path...), ".")
	case 'c':
		return strings.Join(append([]string{e.id}, e.path...), ".")
	}
	return "?"
}

// json: the JSON text of a reference-free literal
func (e *c07Exp) json() string {
	switch e.kind {
	case 'n':
		return "null"
	case 'i':
		return fmt.Sprint(e.ival)
	case 'd':
		return e.ftext
	case 's':
		return fmt.Sprintf("%q", e.str)
	case 't':
		return "true"
	case 'f':
		return "false"
	case 'a':
		parts := make([]string, len(e.elems))
		for i, x := range e.elems {
			parts[i] = x.json()
		}
		return "[" + strings.Join(parts, ",") + "]"
	case 'm', 'S':
		parts := make([]string, len(e.elems))
		for i, x := range e.elems {
			parts[i] = fmt.Sprintf("%q:%s", e.keys[i], x.json())
		}
		return "{" + strings.Join(parts, ",") + "}"
	}
	return "null"
}

func (e *c07Exp) enc() string {
	var sb strings.Builder
	e.encTo(&sb)
	return sb.String()
}

func (e *c07Exp) encTo(sb *strings.Builder) {
	switch e.kind {
	case 'n', 't', 'f':
		sb.WriteByte(e.kind)
	case 'i':
		fmt.Fprintf(sb, "i %d", e.ival)
	case 'd':
		fmt.Fprintf(sb, "d %d %d", e.fm, e.fe)
	case 's':
		sb.WriteString("s " + hx(e.str))
	case 'a':
		fmt.Fprintf(sb, "a %d", len(e.elems))
		for _, x := range e.elems {
			sb.WriteByte(' ')
			x.encTo(sb)
		}
	case 'm', 'S':
		fmt.Fprintf(sb, "%c %d", e.kind, len(e.elems))
		for i, x := range e.elems {
			sb.WriteString(" " + hx(e.keys[i]) + " ")
			x.encTo(sb)
		}
	case 'r':
		sb.WriteString("self " + hx(e.id) + " " + hxList(e.path))
	case 'c':
		sb.WriteString("call " + hx(e.id) + " " + hxList(e.path))
	}
}

func (e *c07Exp) hasRef() bool {
	if e.kind == 'r' || e.kind == 'c' {
		return true
	}
	for _, x := range e.elems {
		if x.hasRef() {
			return true
		}
	}
	return false
}

func (e *c07Exp) hasBigIntegralFloat() bool {
	if e.kind == 'd' && e.fe >= 0 || e.kind == 'd' && e.fe == -1 && e.fm%10 == 0 {
		v := float64(e.fm)
		for i := int64(0); i < e.fe; i++ {
			v *= 10
		}
		if e.fe == -1 {
			v /= 10
		}
		if v >= 1e6 || v <= -1e6 {
			return true
		}
	}
	for _, x := range e.elems {
		if x.hasBigIntegralFloat() {
			return true
		}
	}
	return false
}

type c07Bind struct {
	split bool
	e     *c07Exp
}

func (b c07Bind) mro() string {
	if b.split {
		return "split " + b.e.mro()
	}
	return b.e.mro()
}

func (b c07Bind) enc() string {
	if b.split {
		return "X " + b.e.enc()
	}
	return "P " + b.e.enc()
}

// ---- by-construction literals ----

// c07Witness: a literal of type t without null and without empty collections
// (valid for t; has exactly the array nesting of t).
func c07Witness(t *c17Ty) *c07Exp {
	switch t.kind {
	case 'b':
		switch t.name {
		case "int":
			return c07Int(7)
		case "float":
			return c07Flo(c07Floats[0])
		case "string":
			return c07Str("w")
		case "bool":
			return c07Bool(true)
		case "map":
			return &c07Exp{kind: 'm', keys: []string{"k"}, elems: []*c07Exp{c07Int(1)}}
		default:
			return c07Str("w.dat")
		}
	case 'u':
		return c07Str("w." + t.name)
	case 'a':
		return c07Arr(c07Witness(t.elem))
	case 'm':
		return &c07Exp{kind: 'm', keys: []string{"k"}, elems: []*c07Exp{c07Witness(t.elem)}}
	case 's':
		e := &c07Exp{kind: 'S'}
		for _, f := range t.fields {
			e.keys = append(e.keys, f.id)
			e.elems = append(e.elems, c07Witness(f.t))
		}
		return e
	}
	return c07Null()
}

// c07WrongScalar: a non-null scalar literal no implicit conversion turns into t.
func c07WrongScalar(t *c17Ty, alt bool) *c07Exp {
	if t.kind == 'b' {
		switch t.name {
		case "int", "float":
			if alt {
				return c07Bool(true)
			}
			return c07Str("s")
		case "bool":
			if alt {
				return c07Int(7)
			}
			return c07Str("s")
		case "string", "path", "file":
			if alt {
				return c07Bool(false)
			}
			return c07Int(7)
		}
	}
	if t.kind == 'u' {
		if alt {
			return c07Bool(false)
		}
		return c07Int(7)
	}
	// map, arrays, typed maps, structs: no scalar is acceptable
	if alt {
		return c07Str("s")
	}
	return c07Int(7)
}

// c07WrongNested: the witness of t with its first innermost scalar leaf
// replaced by a wrong scalar (nil if t has no typed leaf, e.g. untyped map).
func c07WrongNested(t *c17Ty) *c07Exp {
	switch t.kind {
	case 'a':
		if x := c07WrongNested(t.elem); x != nil {
			return c07Arr(x)
		}
		return nil
	case 'm':
		if x := c07WrongNested(t.elem); x != nil {
			return &c07Exp{kind: 'm', keys: []string{"k"}, elems: []*c07Exp{x}}
		}
		return nil
	case 's':
		w := c07Witness(t)
		for i, f := range t.fields {
			if x := c07WrongNested(f.t); x != nil {
				w.elems[i] = x
				return w
			}
		}
		return nil
	case 'b':
		if t.name == "map" {
			return nil
		}
	}
	return c07WrongScalar(t, false)
}
