package main

// C16, the text leg (audit C16-H1/H6).  Ties lean/Martian/InvocationText.lean – the composition of
// the invocation model with C09's byte-exact printer / lexer / parser models – to the real code on
// every binding and every call of direction A:
//   printExp  ~ syntax.FormatExp of the expression convertToExp built        (bytes)
//   textLeg   ~ Parser.ParseValExp of that text                              (tree)
//   printCall ~ the call statement inside Ast.Format() of BuildCallAst        (bytes)
//   callTextLeg ~ the call UncheckedParse reads back from it                  (callable, ids, split flags, trees)
// strconv enters the model as an oracle: the harness sends, for every float of the value, the text
// the real formatter prints for it; the driver evaluates the theorem hypotheses (`wfText` /
// `wfCallText`, `floatsOk`) on the real input and the harness RAISES a violation when a hypothesis
// fails on an input whose real text leg works (so the theorems cover what the runs cover), except
// for -0.0 (known finding C16-N5: wfText is false there - strconv prints "-0", neither a NUM_FLOAT
// token nor a canonical integer; floatsOk must still hold).

import (
	"bytes"
	"encoding/json"
	"fmt"
	"math"
	"strconv"
	"strings"

	"github.com/martian-lang/martian/martian/core"
	"github.com/martian-lang/martian/martian/syntax"
)

func c16CollectFloats(e syntax.Exp, tbl map[string]string, bad *bool, negZero *bool) {
	switch e := e.(type) {
	case *syntax.FloatExp:
		if math.IsInf(e.Value, 0) || math.IsNaN(e.Value) {
			*bad = true
			return
		}
		if e.Value == 0 && math.Signbit(e.Value) {
			*negZero = true
		}
		tbl[strings.TrimPrefix(c16FltTok(e.Value), "d")] = syntax.VerifFormatExp(e, "")
	case *syntax.ArrayExp:
		for _, x := range e.Value {
			c16CollectFloats(x, tbl, bad, negZero)
		}
	case *syntax.MapExp:
		for _, x := range e.Value {
			c16CollectFloats(x, tbl, bad, negZero)
		}
	case *syntax.SplitExp:
		c16CollectFloats(e.Value, tbl, bad, negZero)
	}
}

func c16FloatTable(tbl map[string]string) string {
	if len(tbl) == 0 {
		return "."
	}
	keys := c16SortedKeysOf(tbl)
	parts := make([]string, len(keys))
	for i, k := range keys {
		parts[i] = k + "=" + hx(tbl[k])
	}
	return strings.Join(parts, ",")
}

func c16SortedKeysOf(m map[string]string) []string {
	keys := make([]string, 0, len(m))
	for k := range m {
		keys = append(keys, k)
	}
	return c16SortedCopy(keys)
}

func c16ParseReply(rep string) map[string]string {
	out := map[string]string{}
	for _, key := range []string{"wf=", "fok=", "text=", "back="} {
		i := strings.Index(rep, key)
		if i < 0 {
			continue
		}
		rest := rep[i+len(key):]
		if key != "back=" {
			if j := strings.IndexByte(rest, ' '); j >= 0 {
				rest = rest[:j]
			}
		}
		out[strings.TrimSuffix(key, "=")] = rest
	}
	return out
}

// textLegExp: one value expression through the real formatter and ParseValExp vs the model.
func (x *c16Runner) textLegExp(k *c16Case, id string, e syntax.Exp) {
	r := x.r
	if s, ok := e.(*syntax.SplitExp); ok {
		e = s.Value
	}
	tbl := map[string]string{}
	bad, negZero := false, false
	c16CollectFloats(e, tbl, &bad, &negZero)
	if bad {
		return
	}
	var sb strings.Builder
	c16ExpTok(e, &sb)
	etok := strings.TrimSpace(sb.String())
	realText := syntax.VerifFormatExp(e, "")
	realBack := "none"
	var parser syntax.Parser
	if pan := c16Recover(func() {
		if e2, err := parser.ParseValExp([]byte(realText)); err == nil {
			var sb2 strings.Builder
			c16ExpTok(e2, &sb2)
			realBack = strings.TrimSpace(sb2.String())
		}
	}); pan != nil {
		realBack = "panic"
	}
	in := map[string]interface{}{"param": id, "expression": etok, "real_text": realText, "case": k.input()}
	x.ask([]string{"C16.textleg", c16FloatTable(tbl), etok}, func(rep string) {
		f := c16ParseReply(rep)
		r.hist("textleg_exp")
		if unhx(f["text"]) != realText {
			r.violate(Violation{Kind: "correspondence", Key: k.key("textleg:print"),
				What:  "the text the real formatter prints for the converted expression differs from the model's (InvocationText.printExp = FormatExp.fmt ∘ toF)",
				Input: in, Impl: realText, Model: unhx(f["text"]), Broken: "correspondence C16.textleg (printExp ~ syntax.FormatExp)"})
			return
		}
		if realBack != "panic" && f["back"] != realBack {
			r.violate(Violation{Kind: "correspondence", Key: k.key("textleg:parse"),
				What:  "what ParseValExp reads from the formatted expression differs from the model's text leg (parseValExp ∘ fmt)",
				Input: in, Impl: realBack, Model: f["back"], Broken: "correspondence C16.textleg (textLeg ~ ParseValExp ∘ FormatExp)"})
			return
		}
		hyp := f["wf"] == "true" && f["fok"] == "true"
		if hyp {
			r.hist("textleg_exp_hypotheses_hold")
		} else if negZero && f["fok"] == "true" {
			// -0.0: strconv prints "-0", which fails wfText (neither a NUM_FLOAT token nor a canonical
			// integer); floatsOk must still hold, and the trees were compared above
			r.hist("textleg_exp_wf_fails_negative_zero")
		} else if realBack != "none" && realBack != "panic" {
			r.violate(Violation{Kind: "correspondence", Key: k.key("textleg:hypothesis"),
				What:  fmt.Sprintf("a hypothesis of text_leg_is_format_parse_partial fails (wfText=%s floatsOk=%s) on an expression whose real text leg works: the theorem does not cover an input the runs cover", f["wf"], f["fok"]),
				Input: in, Broken: "text_leg_is_format_parse_partial (hypotheses wfText / floatsOk)"})
		} else {
			r.hist("textleg_exp_hypotheses_fail_and_real_fails")
		}
	})
}

// c16CallPart: the call statement inside the text Ast.Format() printed
func c16CallPart(src string) string {
	lines := strings.SplitAfter(src, "\n")
	for i, l := range lines {
		if strings.HasPrefix(l, "call ") || strings.HasPrefix(l, "map call ") {
			return strings.Join(lines[i:], "")
		}
	}
	return ""
}

func c16CallTok(call *syntax.CallStm) string {
	var parts []string
	for _, b := range call.Bindings.List {
		parts = append(parts, hx(b.Id)+"="+c16ArgTok(b.Exp))
	}
	return hx(call.DecId) + " " + strings.Join(parts, ";")
}

// textLegCall: the whole call through Ast.Format() and the parser vs the model.
func (x *c16Runner) textLegCall(k *c16Case, inv *core.InvocationData, src string) {
	r := x.r
	var ast *syntax.Ast
	var err error
	if pan := c16Recover(func() { ast, err = inv.BuildCallAst(k.MroPaths) }); pan != nil || err != nil || ast == nil || ast.Call == nil {
		return
	}
	tbl := map[string]string{}
	bad, negZero := false, false
	req := []string{"C16.calltext", "", hx(ast.Call.DecId)}
	for _, b := range ast.Call.Bindings.List {
		c16CollectFloats(b.Exp, tbl, &bad, &negZero)
		req = append(req, hx(b.Id)+"="+c16ArgTok(b.Exp))
	}
	if bad {
		return
	}
	req[1] = c16FloatTable(tbl)
	realText := c16CallPart(src)
	realBack := "none"
	if pan := c16Recover(func() {
		if a2, err := new(syntax.Parser).UncheckedParseIncludes([]byte(src), "", k.MroPaths); err == nil && a2.Call != nil {
			realBack = c16CallTok(a2.Call)
		}
	}); pan != nil {
		realBack = "panic"
	}
	in := map[string]interface{}{"case": k.input(), "real_text": src}
	x.ask(req, func(rep string) {
		f := c16ParseReply(rep)
		r.hist("textleg_call")
		if unhx(f["text"]) != realText {
			r.violate(Violation{Kind: "correspondence", Key: k.key("textleg:call-print"),
				What:  "the call statement Ast.Format() prints differs from the model's (InvocationText.printCall = FormatCall.fmtCall ∘ toFCall)",
				Input: in, Impl: realText, Model: unhx(f["text"]), Broken: "correspondence C16.calltext (printCall ~ Ast.Format)"})
			return
		}
		if realBack != "panic" && f["back"] != realBack {
			r.violate(Violation{Kind: "correspondence", Key: k.key("textleg:call-parse"),
				What:  "the call the parser reads back from the printed text differs from the model's (parseCall ∘ fmtCall)",
				Input: in, Impl: realBack, Model: f["back"], Broken: "correspondence C16.calltext (callTextLeg ~ UncheckedParse ∘ Ast.Format)"})
			return
		}
		hyp := f["wf"] == "true" && f["fok"] == "true"
		if hyp {
			r.hist("textleg_call_hypotheses_hold")
		} else if negZero && f["fok"] == "true" {
			r.hist("textleg_call_wf_fails_negative_zero")
		} else if realBack != "none" && realBack != "panic" {
			r.violate(Violation{Kind: "correspondence", Key: k.key("textleg:call-hypothesis"),
				What:  fmt.Sprintf("a hypothesis of source_roundtrip_text_partial fails (wfCallText=%s floatsOkBinds=%s) on a call whose real text leg works", f["wf"], f["fok"]),
				Input: in, Broken: "source_roundtrip_text_partial (hypotheses wfCallText / floatsOkBinds)"})
		} else {
			r.hist("textleg_call_hypotheses_fail_and_real_fails")
		}
	})
}

// c16CanonTopOrdered: the token encoding of a JSON object with its members in SOURCE order and
// duplicates kept (the order matters for the split key: the last matching member wins); member
// values are canonicalised as usual.  Anything that is not an object is canonicalised as a whole.
func c16CanonTopOrdered(raw []byte) (string, error) {
	t := bytes.TrimSpace(raw)
	if len(t) == 0 || t[0] != '{' {
		return c16CanonText(raw, false)
	}
	dec := json.NewDecoder(bytes.NewReader(t))
	if _, err := dec.Token(); err != nil {
		return "", err
	}
	var sb strings.Builder
	sb.WriteString("{ ")
	for dec.More() {
		kt, err := dec.Token()
		if err != nil {
			return "", err
		}
		var val json.RawMessage
		if err := dec.Decode(&val); err != nil {
			return "", err
		}
		vt, err := c16CanonText(val, false)
		if err != nil {
			return "", err
		}
		sb.WriteString("k" + hx(kt.(string)) + " " + vt + " ")
	}
	sb.WriteString("}")
	return sb.String(), nil
}

// c16CanonOrdered: token encoding of JSON text with members in SOURCE order and duplicates kept, at
// every depth (what lean/Martian/InvocationJson.lean `treeOfBytes` yields); numbers: integer syntax
// -> exact integer, otherwise the float64 strconv.ParseFloat gives (the sign of a zero dropped: the
// model's numerals have none).
func c16CanonOrdered(raw []byte) (string, error) {
	dec := json.NewDecoder(bytes.NewReader(raw))
	dec.UseNumber()
	var sb strings.Builder
	if err := c16CanonOrderedVal(dec, &sb); err != nil {
		return "", err
	}
	if _, err := dec.Token(); err == nil {
		return "", fmt.Errorf("trailing data")
	}
	return strings.TrimSpace(sb.String()), nil
}

func c16CanonOrderedVal(dec *json.Decoder, sb *strings.Builder) error {
	tok, err := dec.Token()
	if err != nil {
		return err
	}
	switch t := tok.(type) {
	case json.Delim:
		switch t {
		case '[':
			sb.WriteString("[ ")
			for dec.More() {
				if err := c16CanonOrderedVal(dec, sb); err != nil {
					return err
				}
			}
			if _, err := dec.Token(); err != nil {
				return err
			}
			sb.WriteString("] ")
		case '{':
			sb.WriteString("{ ")
			for dec.More() {
				kt, err := dec.Token()
				if err != nil {
					return err
				}
				sb.WriteString("k" + hx(kt.(string)) + " ")
				if err := c16CanonOrderedVal(dec, sb); err != nil {
					return err
				}
			}
			if _, err := dec.Token(); err != nil {
				return err
			}
			sb.WriteString("} ")
		}
	case json.Number:
		s := string(t)
		if !strings.ContainsAny(s, ".eE") {
			c16Canon(t, false, sb)
			return nil
		}
		f, err := strconv.ParseFloat(s, 64)
		if err != nil {
			return fmt.Errorf("out of range")
		}
		if f == 0 {
			f = 0 // drop the sign
		}
		sb.WriteString(c16FltTok(f) + " ")
	default:
		c16Canon(tok, false, sb)
	}
	return nil
}

// jsonTree: the bytes of an argument -> tree, model (grammar + rounding) vs encoding/json + strconv
func (x *c16Runner) jsonTree(k *c16Case, id string, raw []byte) {
	want := "none"
	if t, err := c16CanonOrdered(raw); err == nil {
		want = "some " + t
	}
	x.ask([]string{"C16.jsontree", hx(string(raw))}, func(rep string) {
		x.r.hist("jsontree")
		if rep != want {
			x.r.violate(Violation{Kind: "correspondence", Key: k.key("jsontree"),
				What:  "the tree of an argument's bytes differs between the model (JsonBytes.parseTop + Num.round64) and encoding/json + strconv.ParseFloat",
				Input: map[string]interface{}{"param": id, "json": string(raw)}, Impl: want, Model: rep,
				Broken: "correspondence C16.jsontree (InvocationJson.treeOfBytes)"})
		}
	})
}

// sortKeys (audit pass 2, C16-M1): JSON objects whose members are in RANDOM order with duplicated keys
// at every depth.  Real: ParseValExp builds Go maps (later duplicate wins) and the formatter prints
// the keys sorted; model: ofJ keeps source order and InvocationSort.sortE is the map in printing
// order.  Compared: the real expression tree (read through sorted keys) = sortE of the members as
// written; the text the real formatter prints re-parses to the same tree.
func (x *c16Runner) sortKeys(n int) {
	c, r := x.c, x.r
	keys := []string{"a", "b", "c", "ab", "B", "", "é", "a b", "z"}
	var gen func(depth int, sb *strings.Builder)
	gen = func(depth int, sb *strings.Builder) {
		switch k := c.Rng.Intn(6); {
		case depth > 0 && k < 3:
			sb.WriteByte('{')
			m := c.Rng.Intn(5)
			for i := 0; i < m; i++ {
				if i > 0 {
					sb.WriteByte(',')
				}
				kb, _ := json.Marshal(keys[c.Rng.Intn(len(keys))])
				sb.Write(kb)
				sb.WriteByte(':')
				gen(depth-1, sb)
			}
			sb.WriteByte('}')
		case depth > 0 && k == 3:
			sb.WriteByte('[')
			m := c.Rng.Intn(3)
			for i := 0; i < m; i++ {
				if i > 0 {
					sb.WriteByte(',')
				}
				gen(depth-1, sb)
			}
			sb.WriteByte(']')
		case k == 4:
			sb.WriteString(`"s"`)
		default:
			fmt.Fprintf(sb, "%d", c.Rng.Intn(10))
		}
	}
	for i := 0; i < n; i++ {
		var sb strings.Builder
		sb.WriteByte('{')
		m := 1 + c.Rng.Intn(5)
		for j := 0; j < m; j++ {
			if j > 0 {
				sb.WriteByte(',')
			}
			kb, _ := json.Marshal(keys[c.Rng.Intn(len(keys))])
			sb.Write(kb)
			sb.WriteByte(':')
			gen(3, &sb)
		}
		sb.WriteByte('}')
		text := sb.String()
		ordered, err := c16CanonOrdered([]byte(text))
		if err != nil {
			continue
		}
		var parser syntax.Parser
		exp, perr := parser.ParseValExp([]byte(text))
		if perr != nil {
			r.violate(Violation{Kind: "property", Key: "C16:member-order:parse", What: "ParseValExp rejects a JSON object: " + perr.Error(), Input: text})
			continue
		}
		var rb strings.Builder
		c16ExpTok(exp, &rb)
		real := strings.TrimSpace(rb.String())
		// the printed text reads back as the same tree
		printed := syntax.VerifFormatExp(exp, "")
		back := ""
		if e2, err := parser.ParseValExp([]byte(printed)); err == nil {
			var bb strings.Builder
			c16ExpTok(e2, &bb)
			back = strings.TrimSpace(bb.String())
		}
		r.count("SORT:"+text, strings.Count(text, "{") > 1)
		x.ask([]string{"C16.sortkeys", ordered}, func(rep string) {
			r.hist("member_order_case")
			i := strings.IndexByte(rep, ' ')
			if i < 0 {
				r.violate(Violation{Kind: "correspondence", Key: "C16:member-order:request", What: "driver reply: " + rep, Input: text, Broken: "correspondence C16.sortkeys"})
				return
			}
			if strings.HasPrefix(rep, "sorted=false") {
				r.hist("member_order_input_not_in_printing_order")
			}
			if rep[i+1:] != real {
				r.violate(Violation{Kind: "correspondence", Key: "C16:member-order:tree",
					What:  "the expression ParseValExp builds of a JSON object (Go map: no order, last duplicate wins; read through sorted keys) differs from the model's sortE of the members as written",
					Input: text, Impl: real, Model: rep[i+1:], Broken: "correspondence C16.sortkeys (InvocationSort.sortE ~ the Go map behind MapExp)"})
				return
			}
			if back != real {
				r.violate(Violation{Kind: "property", Key: "C16:member-order:text",
					What: "the text the formatter prints for the parsed object does not read back as the same tree", Input: text, Impl: back, Expect: real})
			}
		})
	}
	x.flush()
}
