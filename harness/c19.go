package main

// C19 — semantic edits (mro edit) preserve behaviour.
//
// For every program (corpus, the repository's own single-file testdata,
// generated programs) and EVERY applicable edit on EVERY callable/parameter:
//   * real refactoring.Refactor -> Apply on the unchecked AST -> Format
//     (the flow of cmd/mro/edit) -> recompile -> MakeCallGraph before/after;
//     oracle = graph equal modulo the renaming / minus removed unused elements;
//     X->Y->X must give back the formatted original and be EquivalentCall;
//   * the same program+edit goes through the Lean model (Martian.Refactor via
//     the driver) and the resulting ASTs are compared in canonical text.

import (
	"bufio"
	"bytes"
	"encoding/json"
	"fmt"
	"math/rand"
	"os"
	"os/exec"
	"path/filepath"
	"sort"
	"strings"
	"time"

	"github.com/martian-lang/martian/martian/syntax"
	"github.com/martian-lang/martian/martian/util"
)

func init() {
	if os.Getenv("C19_CHILD") == "1" {
		c19ChildMain()
		os.Exit(0)
	}
	register("C19", runC19)
}

// The refactoring code can die with an unrecoverable Go runtime error
// (`fatal error: stack overflow` from unbounded recursion), which recover()
// cannot catch.  Every Refactor/Apply therefore runs in a child process (this
// same binary, C19_CHILD=1) speaking JSON lines; a dead child is reported as
// a crash of that edit and the child is restarted.
type c19ApplyReq struct {
	Src   string    `json:"src"`
	Path  string    `json:"path"`
	Edit  c19Edit   `json:"edit"`
	Files []c19File `json:"files,omitempty"` // several files in one Refactor invocation
}

type c19ApplyResp struct {
	Out     string   `json:"out"`
	Enc     string   `json:"enc"`
	Count   int      `json:"count"`
	Err     string   `json:"err"`
	NoSplit bool     `json:"nosplit"`
	Incons  string   `json:"inconsistent"` // compiled AST tables no longer match its lists after a rename
	Outs    []string `json:"outs,omitempty"`
	Encs    []string `json:"encs,omitempty"`
}

func c19ChildMain() {
	if devnull, err := os.OpenFile(os.DevNull, os.O_WRONLY, 0); err == nil {
		// keep the real stderr for the Go runtime's fatal messages (fd 2);
		// only the package-level os.Stderr used by fmt.Fprintf is silenced
		os.Stderr = devnull
	}
	util.ENABLE_LOGGING = false
	in := bufio.NewReaderSize(os.Stdin, 1<<20)
	out := bufio.NewWriter(os.Stdout)
	for {
		line, err := in.ReadBytes('\n')
		if len(line) == 0 && err != nil {
			return
		}
		var req c19ApplyReq
		if json.Unmarshal(line, &req) != nil {
			return
		}
		var resp c19ApplyResp
		if len(req.Files) > 0 {
			outs, encs, ferr := c19ApplyFiles(req.Files, req.Edit)
			resp.Outs, resp.Encs = outs, encs
			if ferr != nil {
				resp.Err = ferr.Error()
			}
			b, _ := json.Marshal(resp)
			out.Write(b)
			out.WriteByte('\n')
			out.Flush()
			if err != nil {
				return
			}
			continue
		}
		newSrc, edited, count, incons, aerr := c19Apply(req.Src, req.Path, req.Edit)
		resp.Out, resp.Count, resp.Incons = newSrc, count, incons
		if aerr != nil {
			resp.Err = aerr.Error()
		} else if edited != nil {
			func() {
				defer func() {
					if p := recover(); p != nil {
						resp.Err = fmt.Sprintf("PANIC: encode: %v", p)
					}
				}()
				resp.Enc = c19Encode(edited)
				resp.NoSplit = c19MapCallWithoutSplit(edited)
				var parser syntax.Parser
				if before, err := parser.UncheckedParse([]byte(req.Src), req.Path); err == nil &&
					c19SplitCalls(edited) < c19SplitCalls(before)-c19RemovedCalls(before, edited) {
					resp.NoSplit = true
				}
			}()
		}
		b, _ := json.Marshal(resp)
		out.Write(b)
		out.WriteByte('\n')
		out.Flush()
		if err != nil {
			return
		}
	}
}

type c19Worker struct {
	cmd    *exec.Cmd
	in     *bufio.Writer
	out    *bufio.Reader
	stderr *bytes.Buffer
	deaths int
}

var c19W = &c19Worker{}

func (w *c19Worker) start() error {
	cmd := exec.Command(os.Args[0])
	cmd.Env = append(os.Environ(), "C19_CHILD=1")
	stdin, err := cmd.StdinPipe()
	if err != nil {
		return err
	}
	stdout, err := cmd.StdoutPipe()
	if err != nil {
		return err
	}
	w.stderr = &bytes.Buffer{}
	cmd.Stderr = &c19CapWriter{buf: w.stderr, max: 4096}
	if err := cmd.Start(); err != nil {
		return err
	}
	w.cmd, w.in, w.out = cmd, bufio.NewWriter(stdin), bufio.NewReaderSize(stdout, 1<<20)
	return nil
}

type c19CapWriter struct {
	buf *bytes.Buffer
	max int
}

func (c *c19CapWriter) Write(p []byte) (int, error) {
	if c.buf.Len() < c.max {
		n := c.max - c.buf.Len()
		if n > len(p) {
			n = len(p)
		}
		c.buf.Write(p[:n])
	}
	return len(p), nil
}

func (w *c19Worker) stop() {
	if w.cmd != nil {
		w.cmd.Process.Kill()
		w.cmd.Wait()
		w.cmd = nil
	}
}

func (w *c19Worker) apply(src, path string, e c19Edit) c19ApplyResp {
	return w.request(c19ApplyReq{Src: src, Path: path, Edit: e})
}

func (w *c19Worker) request(req c19ApplyReq) c19ApplyResp {
	if w.cmd == nil {
		if err := w.start(); err != nil {
			return c19ApplyResp{Err: "harness: cannot start child: " + err.Error()}
		}
	}
	b, _ := json.Marshal(req)
	w.in.Write(b)
	w.in.WriteByte('\n')
	w.in.Flush()
	line, err := w.out.ReadBytes('\n')
	var resp c19ApplyResp
	if err != nil || json.Unmarshal(line, &resp) != nil {
		w.cmd.Wait()
		msg := c19FirstLine(strings.TrimSpace(w.stderr.String()))
		if msg == "" {
			msg = "child process died"
		}
		w.cmd = nil
		w.deaths++
		return c19ApplyResp{Err: "CRASH: " + msg}
	}
	return resp
}

type c19Case struct {
	Name string
	Src  string // formatted
	Path string
}

type c19Replay struct {
	Program string  `json:"program"`
	Edit    c19Edit `json:"edit"`
	Note    string  `json:"note,omitempty"`
}

func c19Format(src, path string) (string, error) {
	var parser syntax.Parser
	ast, err := parser.UncheckedParse([]byte(src), path)
	if err != nil {
		return "", err
	}
	return ast.Format(), nil
}

// ---- inspection helpers on a compiled AST ----

func c19PipeRefs(p *syntax.Pipeline) []*syntax.RefExp {
	var refs []*syntax.RefExp
	add := func(b *syntax.BindStms) {
		if b == nil {
			return
		}
		for _, s := range b.List {
			if r, ok := s.Exp.(*syntax.RefExp); ok {
				refs = append(refs, r)
			} else {
				refs = append(refs, s.Exp.FindRefs()...)
			}
		}
	}
	for _, c := range p.Calls {
		add(c.Bindings)
		if c.Modifiers != nil {
			add(c.Modifiers.Bindings)
		}
	}
	if p.Ret != nil {
		add(p.Ret.Bindings)
	}
	if p.Retain != nil {
		refs = append(refs, p.Retain.Refs...)
	}
	return refs
}

func c19Head(outputId string) string {
	if i := strings.IndexByte(outputId, '.'); i >= 0 {
		return outputId[:i]
	}
	return outputId
}

func c19InputUsed(p *syntax.Pipeline, in string) bool {
	for _, r := range c19PipeRefs(p) {
		if r.Kind == syntax.KindSelf && (r.Id == in || r.Id == "") {
			if r.Id == in {
				return true
			}
		}
	}
	return false
}

// c19OutputUse: "" unused; otherwise how it is used ("whole-call" wins).
func c19OutputUse(ast *syntax.Ast, callable, out string) string {
	use := ""
	for _, p := range ast.Pipelines {
		for _, r := range c19PipeRefs(p) {
			if r.Kind != syntax.KindCall {
				continue
			}
			var dec string
			for _, c := range p.Calls {
				if c.Id == r.Id {
					dec = c.DecId
				}
			}
			if dec != callable {
				continue
			}
			if r.OutputId == "" {
				return "whole-call"
			}
			if c19Head(r.OutputId) == out {
				use = "ref"
			}
		}
	}
	return use
}

func c19HasWildcard(b *syntax.BindStms) bool {
	if b == nil {
		return false
	}
	for _, s := range b.List {
		if s.Id == "*" {
			return true
		}
	}
	return false
}

// c19Tag names the syntactic situation an edit meets (used in violation keys
// so that known findings are matched by input class).
func c19Tag(ast *syntax.Ast, e c19Edit) string {
	var tags []string
	callable := ast.Callables.Table[e.Callable]
	switch e.Op {
	case "renameInput", "removeInput":
		for _, p := range ast.Pipelines {
			for _, c := range p.Calls {
				if !c19HasWildcard(c.Bindings) {
					continue
				}
				if e.Op == "renameInput" && (c.DecId == e.Callable || p.Id == e.Callable) {
					// the new name may be captured by (or escape from) the wildcard
					tags = append(tags, "wildcard-in-scope")
				}
				if c.DecId == e.Callable {
					// is the param supplied by the wildcard?
					explicit := false
					for _, s := range c.Bindings.List {
						if s.Id == "*" {
							break
						}
						if s.Id == e.Param {
							explicit = true
						}
					}
					if !explicit {
						tags = append(tags, "callee-param-bound-by-wildcard")
					}
				}
				if p.Id == e.Callable {
					if w := c.Bindings.Table[e.Param]; w != nil {
						if r, ok := w.Exp.(*syntax.RefExp); ok && r.Kind == syntax.KindSelf && r.Id == e.Param {
							explicit := false
							for _, s := range c.Bindings.List {
								if s.Id == "*" {
									break
								}
								if s == w {
									explicit = true
								}
							}
							if !explicit {
								tags = append(tags, "self-input-forwarded-by-wildcard")
							}
						}
					}
				}
			}
		}
	case "renameOutput", "removeOutput":
		if u := c19OutputUse(ast, e.Callable, e.Param); u == "whole-call" {
			tags = append(tags, "whole-call-struct-ref")
		}
		if ast.Call != nil && ast.Call.DecId == e.Callable && ast.Call.Bindings != nil {
			for _, s := range ast.Call.Bindings.List {
				if s.Id == e.Param {
					tags = append(tags, "top-call-binds-same-named-input")
				}
			}
		}
		if p, ok := callable.(*syntax.Pipeline); ok && p.Ret != nil && c19HasWildcard(p.Ret.Bindings) {
			tags = append(tags, "return-wildcard")
		}
		for _, p := range ast.Pipelines {
			for _, c := range p.Calls {
				if !c19HasWildcard(c.Bindings) {
					continue
				}
				for _, s := range c.Bindings.List {
					if s.Id != "*" {
						continue
					}
					if r, ok := s.Exp.(*syntax.RefExp); ok && r.Kind == syntax.KindCall {
						for _, c2 := range p.Calls {
							if c2.Id == r.Id && c2.DecId == e.Callable {
								tags = append(tags, "wildcard-over-call-output")
							}
						}
					}
				}
			}
		}
	case "removeUnused":
		if len(e.Top) > 0 {
			reach := map[string]bool{}
			var visit func(name string)
			visit = func(name string) {
				if reach[name] {
					return
				}
				reach[name] = true
				if p, ok := ast.Callables.Table[name].(*syntax.Pipeline); ok && p != nil {
					for _, c := range p.Calls {
						visit(c.DecId)
					}
				}
			}
			for _, t := range e.Top {
				visit(t)
			}
			for _, p := range ast.Pipelines {
				if !reach[p.Id] {
					tags = append(tags, "pipeline-outside-top-call-graph")
					break
				}
			}
		}
	case "renameCallable":
		for _, p := range ast.Pipelines {
			for _, c := range p.Calls {
				if c.Id == e.NewName && c.DecId == e.Callable {
					tags = append(tags, "new-name-is-an-alias-of-a-call-to-it")
				} else if c.Id == e.NewName && c.DecId != e.NewName {
					tags = append(tags, "new-name-is-a-call-alias")
				}
				if c.Id == e.Callable && c.DecId != e.Callable {
					tags = append(tags, "old-name-is-a-call-alias")
				}
			}
		}
	}
	if e.Op == "renameCallable" || e.Op == "renameOutput" || e.Op == "removeOutput" {
		if c19UsedAsType(ast, e.Callable) {
			tags = append(tags, "callable-used-as-type")
		}
	}
	sort.Strings(tags)
	var u []string
	for i, t := range tags {
		if i == 0 || tags[i-1] != t {
			u = append(u, t)
		}
	}
	if len(u) == 0 {
		return "plain"
	}
	return strings.Join(u, "+")
}

// c19UsedAsType: some parameter or struct member is declared with the
// callable's name as its type (a callable's outputs form a struct type).
func c19UsedAsType(ast *syntax.Ast, name string) bool {
	for _, c := range ast.Callables.List {
		if ins := c.GetInParams(); ins != nil {
			for _, p := range ins.List {
				if p.Tname.Tname == name {
					return true
				}
			}
		}
		if outs := c.GetOutParams(); outs != nil {
			for _, p := range outs.List {
				if p.Tname.Tname == name {
					return true
				}
			}
		}
	}
	for _, st := range ast.StructTypes {
		for _, m := range st.Members {
			if m.Tname.Tname == name {
				return true
			}
		}
	}
	return false
}

// c19MapCallWithoutSplit: the edited AST has a `map call` none of whose
// bindings is a split any more.
func c19MapCallWithoutSplit(ast *syntax.Ast) bool {
	for _, p := range ast.Pipelines {
		for _, c := range p.Calls {
			if c.CallMode() == syntax.ModeSingleCall {
				continue
			}
			has := false
			if c.Bindings != nil {
				for _, b := range c.Bindings.List {
					if _, ok := b.Exp.(*syntax.SplitExp); ok {
						has = true
					}
				}
			}
			if !has {
				return true
			}
		}
	}
	return false
}

// c19SplitCalls counts the calls that have at least one split binding.
func c19SplitCalls(ast *syntax.Ast) int {
	n := 0
	if ast.Call != nil && ast.Call.Bindings != nil {
		for _, b := range ast.Call.Bindings.List {
			if _, ok := b.Exp.(*syntax.SplitExp); ok {
				n++
				break
			}
		}
	}
	for _, p := range ast.Pipelines {
		for _, c := range p.Calls {
			if c.Bindings == nil {
				continue
			}
			for _, b := range c.Bindings.List {
				if _, ok := b.Exp.(*syntax.SplitExp); ok {
					n++
					break
				}
			}
		}
	}
	return n
}

// c19RemovedCalls: how many calls with a split binding disappeared entirely.
func c19RemovedCalls(before, after *syntax.Ast) int {
	have := map[string]bool{}
	for _, p := range after.Pipelines {
		for _, c := range p.Calls {
			have[p.Id+"."+c.Id] = true
		}
	}
	n := 0
	for _, p := range before.Pipelines {
		for _, c := range p.Calls {
			if have[p.Id+"."+c.Id] || c.Bindings == nil {
				continue
			}
			for _, b := range c.Bindings.List {
				if _, ok := b.Exp.(*syntax.SplitExp); ok {
					n++
					break
				}
			}
		}
	}
	return n
}

// c19Family maps a failure to the key used for known-findings matching: the
// documented defect families get one key each, anything else keeps its
// specific key (and fails the run).
func c19Family(op, what, tag string) string {
	has := func(s string) bool { return strings.Contains(tag, s) }
	switch {
	case what == "refactor-crash" || what == "refactor-panic":
		return "C19:" + op + ":" + what + ":" + tag
	case has("later-step-renames-a-name-an-earlier-edit-reads"):
		return "C19:multi-step-edits-read-mutated-names"
	case strings.HasPrefix(op, "rename") && strings.HasPrefix(what, "roundtrip") && has("new-name-is-an-alias-of-a-call-to-it"):
		return "C19:rename-to-own-alias-not-reversible"
	case has("leaves-map-call-without-split"):
		return "C19:removal-leaves-map-call-without-split"
	case has("whole-call-struct-ref") || has("callable-used-as-type"):
		return "C19:callable-outputs-used-as-struct"
	case has("wildcard"):
		return "C19:wildcard-binding-not-adjusted"
	case op == "removeUnused" && what == "compile-NoSuchOutputError" && has("pipeline-outside-top-call-graph"):
		return "C19:unused-outputs-breaks-pipelines-outside-top-calls"
	case (strings.HasPrefix(op, "remove") || strings.Contains(op, "remove")) && what == "compile-UnusedInputError":
		return "C19:removal-leaves-unused-pipeline-input"
	}
	return "C19:" + op + ":" + what + ":" + tag
}

func c19ErrKind(err error) string {
	s := err.Error()
	if strings.HasPrefix(s, "PANIC") {
		return "panic"
	}
	if strings.HasPrefix(s, "CRASH") {
		return "crash"
	}
	if strings.Contains(s, "NoSuchOutputError") {
		return "NoSuchOutputError"
	}
	for _, w := range strings.FieldsFunc(s, func(r rune) bool {
		return !(r >= 'A' && r <= 'Z' || r >= 'a' && r <= 'z')
	}) {
		if strings.HasSuffix(w, "Error") && len(w) > 5 {
			return w
		}
	}
	if strings.Contains(s, "DuplicateBinding") {
		return "DuplicateBinding"
	}
	return "error"
}

// ---- edit enumeration ----

type c19Planned struct {
	Edit       c19Edit
	Applicable bool   // the property's oracle applies (otherwise only totality + model correspondence)
	Class      string // histogram class
}

func c19Enumerate(ast *syntax.Ast, fresh func() string) []c19Planned {
	var plan []c19Planned
	isCallable := func(n string) bool { return ast.Callables.Table[n] != nil }
	taken := func(n string) bool {
		if isCallable(n) {
			return true
		}
		for _, s := range ast.StructTypes {
			if s.Id == n {
				return true
			}
		}
		for _, s := range ast.UserTypes {
			if s.Id == n {
				return true
			}
		}
		return false
	}
	for _, c := range ast.Callables.List {
		name := c.GetId()
		plan = append(plan, c19Planned{c19Edit{Op: "renameCallable", Callable: name, NewName: fresh()}, true, "renameCallable:fresh"})
		// names that collide with an existing call id in a pipeline that calls `name`
		seen := map[string]bool{}
		for _, p := range ast.Pipelines {
			callsIt := false
			for _, call := range p.Calls {
				if call.DecId == name {
					callsIt = true
				}
			}
			if !callsIt {
				continue
			}
			for _, call := range p.Calls {
				if call.Id != call.DecId && !taken(call.Id) && !seen[call.Id] {
					seen[call.Id] = true
					plan = append(plan, c19Planned{c19Edit{Op: "renameCallable", Callable: name, NewName: call.Id}, true, "renameCallable:collides-with-alias"})
				}
			}
		}
		ins, outs := c.GetInParams(), c.GetOutParams()
		hasIn := func(n string) bool {
			if ins == nil {
				return false
			}
			_, ok := ins.Table[n]
			return ok
		}
		hasOut := func(n string) bool {
			if outs == nil {
				return false
			}
			_, ok := outs.Table[n]
			return ok
		}
		pipe, isPipe := c.(*syntax.Pipeline)
		if ins != nil {
			for _, q := range ins.List {
				plan = append(plan, c19Planned{c19Edit{Op: "renameInput", Callable: name, Param: q.Id, NewName: fresh()}, true, "renameInput:fresh"})
				if outs != nil {
					for _, o := range outs.List {
						if !hasIn(o.Id) {
							plan = append(plan, c19Planned{c19Edit{Op: "renameInput", Callable: name, Param: q.Id, NewName: o.Id}, true, "renameInput:to-output-name"})
							break
						}
					}
				}
				app := !isPipe || !c19InputUsed(pipe, q.Id)
				cl := "removeInput:stage"
				if isPipe {
					cl = "removeInput:pipeline-unused"
					if !app {
						cl = "removeInput:pipeline-used(not-applicable)"
					}
				}
				plan = append(plan, c19Planned{c19Edit{Op: "removeInput", Callable: name, Param: q.Id}, app, cl})
			}
		}
		if outs != nil {
			for _, o := range outs.List {
				plan = append(plan, c19Planned{c19Edit{Op: "renameOutput", Callable: name, Param: o.Id, NewName: fresh()}, true, "renameOutput:fresh"})
				if ins != nil {
					for _, q := range ins.List {
						if !hasOut(q.Id) {
							plan = append(plan, c19Planned{c19Edit{Op: "renameOutput", Callable: name, Param: o.Id, NewName: q.Id}, true, "renameOutput:to-input-name"})
							break
						}
					}
				}
				use := c19OutputUse(ast, name, o.Id)
				isTop := ast.Call != nil && ast.Call.DecId == name
				cl := "removeOutput:unused"
				if use != "" {
					cl = "removeOutput:used(not-applicable)"
				}
				plan = append(plan, c19Planned{c19Edit{Op: "removeOutput", Callable: name, Param: o.Id}, use == "" && !isTop, cl})
			}
		}
	}
	if ast.Call != nil {
		top := []string{ast.Call.DecId}
		plan = append(plan,
			c19Planned{c19Edit{Op: "removeUnused", Calls: true}, true, "removeUnused:calls"},
			c19Planned{c19Edit{Op: "removeUnused", Top: top}, true, "removeUnused:outputs"},
			c19Planned{c19Edit{Op: "removeUnused", Calls: true, Top: top}, true, "removeUnused:calls+outputs"})
		plan = append(plan, c19TopSubsets(ast)...)
	}
	return plan
}

// c19EnumRng drives the sampled part of the enumeration (nil: none).
var c19EnumRng *rand.Rand
var c19EnumSubsets = 5

// c19TopSubsets: remove-unused with sampled subsets of the pipelines as
// -top-calls (every subset when there are few pipelines): single pipelines
// other than the top-level one, pairs/triples, and in particular NESTED top
// calls (one top call calling another), whatever their declaration order.
func c19TopSubsets(ast *syntax.Ast) []c19Planned {
	if c19EnumRng == nil || len(ast.Pipelines) < 2 {
		return nil
	}
	r := c19EnumRng
	names := make([]string, len(ast.Pipelines))
	pos := map[string]int{}
	for i, p := range ast.Pipelines {
		names[i] = p.Id
		pos[p.Id] = i
	}
	var calls func(a, b string, depth int) bool
	calls = func(a, b string, depth int) bool {
		p, ok := ast.Callables.Table[a].(*syntax.Pipeline)
		if !ok || p == nil || depth > 8 {
			return false
		}
		for _, c := range p.Calls {
			if c.DecId == b || calls(c.DecId, b, depth+1) {
				return true
			}
		}
		return false
	}
	var subsets [][]string
	n := len(names)
	if n <= 3 {
		for mask := 1; mask < 1<<n; mask++ {
			var sub []string
			for i := 0; i < n; i++ {
				if mask&(1<<i) != 0 {
					sub = append(sub, names[i])
				}
			}
			subsets = append(subsets, sub)
		}
	} else {
		var nested [][]string
		for _, a := range names {
			for _, b := range names {
				if a != b && calls(a, b, 0) {
					nested = append(nested, []string{b, a})
				}
			}
		}
		r.Shuffle(len(nested), func(i, j int) { nested[i], nested[j] = nested[j], nested[i] })
		if len(nested) > (c19EnumSubsets+1)/2 {
			nested = nested[:(c19EnumSubsets+1)/2]
		}
		subsets = append(subsets, nested...)
		for len(subsets) < c19EnumSubsets {
			k := 1 + r.Intn(3)
			perm := r.Perm(n)[:k]
			sub := make([]string, k)
			for i, j := range perm {
				sub[i] = names[j]
			}
			subsets = append(subsets, sub)
		}
	}
	var out []c19Planned
	for _, sub := range subsets {
		sort.Strings(sub)
		class := fmt.Sprintf("removeUnused:top-subset(size %d)", len(sub))
		nestedCls := ""
		for _, a := range sub {
			for _, b := range sub {
				if a != b && calls(a, b, 0) {
					if pos[b] < pos[a] {
						nestedCls = ":nested(callee-declared-first)"
					} else if nestedCls == "" {
						nestedCls = ":nested(caller-declared-first)"
					}
				}
			}
		}
		out = append(out, c19Planned{c19Edit{Op: "removeUnused", Calls: r.Intn(2) == 0, Top: sub}, true, class + nestedCls})
	}
	return out
}

// ---- one edit on one program ----

type c19Outcome struct {
	Key   string // "" = ok
	What  string
	Impl  string
	Model string
	Kind  string
}

func c19ModelArgs(prog string, e c19Edit) []string {
	d := func(s string) string {
		if s == "" {
			return "-"
		}
		return s
	}
	calls := "0"
	if e.Calls {
		calls = "1"
	}
	tops := "."
	if len(e.Top) > 0 {
		tops = strings.Join(e.Top, ",")
	}
	return []string{"C19.apply", prog, e.Op, d(e.Callable), d(e.Param), d(e.NewName), calls, tops}
}

// c19Check runs the real code for one edit and evaluates the property oracle.
// modelOut is the model's answer for the same program+edit ("" = not asked).
var c19LastCorr *c19Outcome // set by c19Check when the model disagrees

func c19Check(cs *c19Case, base *c19Compiled, baseGraph *c19Node, pl c19Planned, modelOut string) (out c19Outcome, editedEnc string) {
	c19LastCorr = nil
	out, editedEnc = c19CheckProp(cs, base, baseGraph, pl, modelOut)
	if out.Key == "" && c19LastCorr != nil {
		out = *c19LastCorr
		c19LastCorr = nil
	}
	return out, editedEnc
}

func c19CheckProp(cs *c19Case, base *c19Compiled, baseGraph *c19Node, pl c19Planned, modelOut string) (out c19Outcome, editedEnc string) {
	e := pl.Edit
	tag := c19Tag(base.Ast, e)
	fail := func(kind, what, detail string) c19Outcome {
		return c19Outcome{Kind: kind, Key: c19Family(e.Op, what, tag), What: "[" + e.Op + ":" + what + ":" + tag + "] " + detail}
	}
	resp := c19W.apply(cs.Src, cs.Path, e)
	if resp.Err != "" {
		err := fmt.Errorf("%s", resp.Err)
		if pl.Applicable || c19ErrKind(err) == "panic" || c19ErrKind(err) == "crash" {
			return fail("property", "refactor-"+c19ErrKind(err), "Refactor/Apply failed: "+resp.Err), ""
		}
		return c19Outcome{}, ""
	}
	newSrc := resp.Out
	editedEnc = resp.Enc
	if strings.HasPrefix(e.Op, "remove") && resp.NoSplit {
		if tag == "plain" {
			tag = "leaves-map-call-without-split"
		} else {
			tag += "+leaves-map-call-without-split"
		}
	}
	if resp.Incons != "" {
		return fail("property", "compiled-ast-tables", "after the edit the compiled AST's lookup tables no longer match it (later steps of the same Refactor call read them): "+resp.Incons), editedEnc
	}
	if modelOut == "unsupported" {
		modelOut = "" // removeOutput is not modelled (see manifest): real-code oracle only
	}
	if modelOut != "" && modelOut != editedEnc {
		// reported in addition to whatever the property oracle says below
		c19LastCorr = &c19Outcome{Kind: "correspondence", Key: "C19:model:" + e.Op, What: "model result differs from the real edited AST",
			Impl: editedEnc, Model: modelOut}
	}
	if !pl.Applicable {
		return c19Outcome{}, editedEnc
	}
	after, err := c19Compile(newSrc, cs.Path)
	if err != nil {
		return fail("property", "compile-"+c19ErrKind(err), "edited program no longer compiles: "+c19FirstLine(err.Error())+"\n--- edited ---\n"+newSrc), editedEnc
	}
	if baseGraph != nil {
		if after.Graph == nil {
			return fail("property", "graph-missing", "no call graph after the edit"), editedEnc
		}
		ag, err := c19Dump(after.Graph)
		if err != nil {
			return fail("property", "graph-json", err.Error()), editedEnc
		}
		var diff string
		switch e.Op {
		case "renameCallable", "renameInput", "renameOutput":
			diff = c19CompareRenamed(baseGraph, ag, e)
		case "removeInput":
			// a stage that loses its only split-dependent input is no longer forked:
			// fork roots and the merge structure of enclosing outputs legitimately change
			diff = c19CompareRemoved(baseGraph, ag, &c19Removal{inOf: map[string]map[string]bool{e.Callable: {e.Param: true}}, anyPipeIn: true, ignoreForks: true})
		case "removeOutput":
			diff = c19CompareRemoved(baseGraph, ag, &c19Removal{outOf: map[string]map[string]bool{e.Callable: {e.Param: true}}, anyPipeIn: true})
		case "removeUnused":
			tops := map[string]bool{}
			for _, t := range e.Top {
				tops[t] = true
			}
			diff = c19CompareRemoved(baseGraph, ag, &c19Removal{nodeLoss: e.Calls, anyPipeIn: true, anyPipeOut: len(e.Top) > 0, tops: tops})
			// every -top-calls pipeline is a top-level call in its own right: it keeps its
			// outputs and its own resolved call graph only loses unused elements
			for _, t := range e.Top {
				if diff != "" {
					break
				}
				bp, _ := base.Ast.Callables.Table[t].(*syntax.Pipeline)
				ap, _ := after.Ast.Callables.Table[t].(*syntax.Pipeline)
				if bp == nil || ap == nil {
					continue
				}
				var bo, ao []string
				for _, o := range bp.OutParams.List {
					bo = append(bo, o.Id)
				}
				for _, o := range ap.OutParams.List {
					ao = append(ao, o.Id)
				}
				if strings.Join(bo, ",") != strings.Join(ao, ",") {
					diff = fmt.Sprintf("top call %s lost outputs: %v -> %v", t, bo, ao)
					break
				}
				if t == base.Ast.Call.DecId {
					continue
				}
				bg, err1 := c19GraphOfPipeline(base.Ast, t)
				tg, err2 := c19GraphOfPipeline(after.Ast, t)
				if err1 != nil {
					continue // the abstract call of this pipeline does not resolve even before the edit
				}
				if err2 != nil {
					diff = fmt.Sprintf("top call %s: call graph no longer resolves: %v", t, err2)
					break
				}
				if d := c19CompareRemoved(bg, tg, &c19Removal{nodeLoss: e.Calls, anyPipeIn: true, anyPipeOut: true, tops: tops}); d != "" {
					diff = "as top call " + t + ": " + d
				}
			}
		}
		if diff != "" {
			return fail("property", "graph", "resolved call graph changed: "+diff+"\n--- edited ---\n"+newSrc), editedEnc
		}
	}
	// round trip for renames
	if strings.HasPrefix(e.Op, "rename") {
		back := e
		back.NewName = e.Param
		back.Param = e.NewName
		if e.Op == "renameCallable" {
			back.Callable, back.NewName, back.Param = e.NewName, e.Callable, ""
		}
		bresp := c19W.apply(newSrc, cs.Path, back)
		if bresp.Err != "" {
			return fail("property", "roundtrip-refactor-"+c19ErrKind(fmt.Errorf("%s", bresp.Err)), "reverse rename failed: "+bresp.Err), editedEnc
		}
		backSrc := bresp.Out
		again, err := c19Compile(backSrc, cs.Path)
		if err != nil {
			return fail("property", "roundtrip-compile-"+c19ErrKind(err), "X->Y->X no longer compiles: "+c19FirstLine(err.Error())), editedEnc
		}
		if base.Ast.Call != nil && !base.Ast.EquivalentCall(again.Ast) {
			return fail("property", "roundtrip-not-equivalent", "X->Y->X is not EquivalentCall to the original\n--- result ---\n"+backSrc), editedEnc
		}
		if backSrc != cs.Src {
			return fail("property", "roundtrip-text", "X->Y->X differs from the formatted original\n--- result ---\n"+backSrc), editedEnc
		}
	}
	return c19Outcome{}, editedEnc
}

func c19FirstLine(s string) string {
	if i := strings.IndexByte(s, '\n'); i >= 0 {
		return s[:i]
	}
	return s
}

// ---- shrinking (drop calls / callables / params / bindings, keep the key) ----

func c19Variants(src, path string) []string {
	var out []string
	n := 0
	for {
		var parser syntax.Parser
		ast, err := parser.UncheckedParse([]byte(src), path)
		if err != nil {
			return out
		}
		k := 0
		done := false
		try := func(f func()) {
			if done {
				return
			}
			if k == n {
				f()
				done = true
			}
			k++
		}
		for i := range ast.Callables.List {
			i := i
			try(func() {
				c := ast.Callables.List[i]
				ast.Callables.List = append(ast.Callables.List[:i:i], ast.Callables.List[i+1:]...)
				for j, s := range ast.Stages {
					if syntax.Callable(s) == c {
						ast.Stages = append(ast.Stages[:j:j], ast.Stages[j+1:]...)
						break
					}
				}
				for j, s := range ast.Pipelines {
					if syntax.Callable(s) == c {
						ast.Pipelines = append(ast.Pipelines[:j:j], ast.Pipelines[j+1:]...)
						break
					}
				}
			})
		}
		for _, p := range ast.Pipelines {
			p := p
			for i := range p.Calls {
				i := i
				c := p.Calls[i]
				try(func() { p.Calls = append(p.Calls[:i:i], p.Calls[i+1:]...) })
				if done {
					break
				}
				if c.Modifiers != nil && c.Modifiers.Bindings != nil && len(c.Modifiers.Bindings.List) > 0 {
					try(func() { c.Modifiers.Bindings.List = nil })
				}
				for j := range c.Bindings.List {
					j := j
					try(func() { c.Bindings.List = append(c.Bindings.List[:j:j], c.Bindings.List[j+1:]...) })
				}
			}
			if p.Ret != nil && p.Ret.Bindings != nil {
				for j := range p.Ret.Bindings.List {
					j := j
					try(func() {
						p.Ret.Bindings.List = append(p.Ret.Bindings.List[:j:j], p.Ret.Bindings.List[j+1:]...)
					})
				}
			}
			if p.Retain != nil {
				try(func() { p.Retain = nil })
			}
		}
		for _, c := range ast.Callables.List {
			if ins := c.GetInParams(); ins != nil {
				for j := range ins.List {
					j := j
					try(func() { ins.List = append(ins.List[:j:j], ins.List[j+1:]...) })
				}
			}
			if outs := c.GetOutParams(); outs != nil {
				for j := range outs.List {
					j := j
					try(func() { outs.List = append(outs.List[:j:j], outs.List[j+1:]...) })
				}
			}
			if s, ok := c.(*syntax.Stage); ok && s.Retain != nil {
				try(func() { s.Retain = nil })
			}
		}
		if ast.Call != nil && ast.Call.Bindings != nil {
			for j := range ast.Call.Bindings.List {
				j := j
				try(func() {
					ast.Call.Bindings.List = append(ast.Call.Bindings.List[:j:j], ast.Call.Bindings.List[j+1:]...)
				})
			}
		}
		if !done {
			return out
		}
		func() {
			defer func() { recover() }()
			out = append(out, ast.Format())
		}()
		n++
		if n > 400 {
			return out
		}
	}
}

func c19Shrink(c *Ctx, cs *c19Case, pl c19Planned, key string) *c19Case {
	cur := cs
	for round := 0; round < 40; round++ {
		improved := false
		for _, v := range c19Variants(cur.Src, cur.Path) {
			if len(v) >= len(cur.Src) {
				continue
			}
			cand := &c19Case{Name: cs.Name + "-shrunk", Src: v, Path: cs.Path}
			base, err := c19Compile(v, cs.Path)
			if err != nil || base.Graph == nil {
				continue
			}
			if base.Ast.Callables.Table[pl.Edit.Callable] == nil && pl.Edit.Op != "removeUnused" {
				continue
			}
			// the edit must still be applicable in the same way
			ok := false
			for _, q := range c19Enumerate(base.Ast, func() string { return pl.Edit.NewName }) {
				if q.Edit.String() == pl.Edit.String() && q.Applicable == pl.Applicable {
					ok = true
				}
			}
			if pl.Edit.Op == "removeUnused" {
				ok = true
				for _, t := range pl.Edit.Top {
					if _, isPipe := base.Ast.Callables.Table[t].(*syntax.Pipeline); !isPipe {
						ok = false
					}
				}
			}
			if !ok {
				continue
			}
			g, err := c19Dump(base.Graph)
			if err != nil {
				continue
			}
			var model string
			if strings.HasPrefix(key, "C19:model:") && c.Drv != nil {
				var parser syntax.Parser
				plain, err := parser.UncheckedParse([]byte(v), cs.Path)
				if err != nil {
					continue
				}
				model = c.Drv.Ask(c19ModelArgs(c19Encode(plain), pl.Edit)[0], c19ModelArgs(c19Encode(plain), pl.Edit)[1:]...)
			}
			o, _ := c19Check(cand, base, g, pl, model)
			if o.Key == key {
				cur = cand
				improved = true
				break
			}
		}
		if !improved {
			break
		}
	}
	return cur
}

// ---- runner ----

func c19RepoPrograms(repo string) []*c19Case {
	var out []*c19Case
	pats := []string{"martian/syntax/refactoring/testdata/*.mro", "martian/syntax/testdata/*.mro", "test/*/*.mro"}
	for _, pat := range pats {
		files, _ := filepath.Glob(filepath.Join(repo, pat))
		sort.Strings(files)
		for _, f := range files {
			b, err := os.ReadFile(f)
			if err != nil || strings.Contains(string(b), "@include") {
				continue
			}
			rel, _ := filepath.Rel(repo, f)
			out = append(out, &c19Case{Name: rel, Src: string(b), Path: f})
		}
	}
	return out
}

func runC19(c *Ctx) {
	r := c.Res
	// the refactoring package reports every removed element on os.Stderr
	if devnull, err := os.OpenFile(os.DevNull, os.O_WRONLY, 0); err == nil {
		saved := os.Stderr
		os.Stderr = devnull
		defer func() { os.Stderr = saved; devnull.Close() }()
	}
	defer c19W.stop()
	savedLog := util.ENABLE_LOGGING
	util.ENABLE_LOGGING = false
	defer func() { util.ENABLE_LOGGING = savedLog }()
	r.Rule = "programs: corpus/C19/*.mro + the repository's single-file .mro testdata (syntax/testdata, refactoring/testdata, test/*) + PRNG-generated compiling programs (stages, nested pipelines, aliased calls incl. aliases that are other callables' names, map calls, disabled modifiers bound to inputs/outputs, struct outputs with projections, whole-call struct bindings, `* = self` and `* = self.pt` wildcards, retains, shared in/out names). For EVERY callable: rename to a fresh name and to every colliding call alias; for EVERY input/output: rename (fresh, and to a name of the opposite direction), remove; plus removeUnused (calls / outputs / both). Each edit: real Refactor->Apply->Format->recompile->MakeCallGraph, oracle = graph equal modulo the renaming or minus removed elements, X->Y->X byte-identical + EquivalentCall; the Lean model's edited AST compared with the real one. Multi-step edits: PRNG-chosen ordered pairs and triples of operations in ONE Refactor call (as `mro edit` with several options applies them: callable renames, input renames, output renames, input removals, output removals, remove-unused loop), later steps addressing the names produced by earlier ones, biased towards a callable rename followed by an operation on the renamed callable; oracle = the one-shot result equals the composition of the single steps done on freshly compiled programs (text, else compile + identical call graph) and equals the model's composition; after every rename the compiled AST's lookup tables must still match its lists. Generator name pools contain prefix-related names for parameters (pt/pt_alt, xt/xt_alt, a/a_2, f/f_idx), callables (X/X_B/X_P) and call ids (callee_N, callid_X); struct-typed outputs are projected in call bindings, disabled modifiers, returns and retains. remove-unused is also run with sampled subsets of the pipelines as -top-calls (all subsets for <= 3 pipelines; nested top calls in both declaration orders; every top call keeps its outputs and its own abstract-call graph only loses unused elements). One Refactor invocation over 2-3 files: unrelated programs with clashing callable/parameter names, unrelated with disjoint names, and a program split into lib.mro + main.mro (@include), in both file orders; oracle = every file comes out exactly as when the edit is run on its own program alone (untouched programs byte-identical), lib+main = the edited unsplit program. non-trivial = the edit changed the program text; distinct = distinct (program, edit)."
	if c.Drv != nil {
		if rep := c.Drv.Ask("C19.ping"); rep != "pong" {
			r.note("Lean driver has no C19 model (reply %q): model correspondence skipped", rep)
			c.Drv = nil
		}
	}
	var cases []*c19Case
	files, _ := filepath.Glob(filepath.Join(c.Corpus, "*.mro"))
	sort.Strings(files)
	for _, f := range files {
		if b, err := os.ReadFile(f); err == nil {
			cases = append(cases, &c19Case{Name: "corpus/" + filepath.Base(f), Src: string(b), Path: filepath.Join(c.Scratch, filepath.Base(f))})
		}
	}
	if os.Getenv("C19_ONLY_CORPUS") == "" {
		cases = append(cases, c19RepoPrograms(c.RepoDir)...)
	}
	nGen := 100
	if c.Thorough {
		nGen = 750
	}
	if os.Getenv("C19_ONLY_CORPUS") != "" {
		nGen = 0
	}
	genPath := filepath.Join(c.Scratch, "gen.mro")
	made, rejected := 0, 0
	for made < nGen && rejected < 20*nGen+100 {
		p := c19Gen(c.Rng)
		if p == nil {
			rejected++
			continue
		}
		if _, err := c19Compile(p.Src, genPath); err != nil {
			rejected++
			r.hist("generator:rejected-by-compiler")
			if os.Getenv("C19_DEBUG") != "" {
				r.hist("reject:" + c19FirstLine(err.Error()))
			}
			continue
		}
		made++
		r.hist("generator:" + c19FeatureKey(p.Features))
		cases = append(cases, &c19Case{Name: fmt.Sprintf("gen-%d-%d", c.Seed, made), Src: p.Src, Path: genPath})
	}
	c19EnumRng = c.Rng
	if c.Thorough {
		c19EnumSubsets = 10
	}
	freshN := 0
	reported := map[string]int{}
	var shrinkTime time.Duration
	for _, cs := range cases {
		f, err := c19Format(cs.Src, cs.Path)
		if err != nil {
			r.hist("program:unparsable")
			continue
		}
		cs.Src = f
		base, err := c19Compile(cs.Src, cs.Path)
		if err != nil {
			r.hist("program:does-not-compile(skipped)")
			continue
		}
		var baseGraph *c19Node
		if base.Graph != nil {
			baseGraph, err = c19Dump(base.Graph)
			if err != nil {
				r.note("graph dump failed for %s: %v", cs.Name, err)
				continue
			}
			r.hist("program:with-top-call")
		} else {
			r.hist("program:no-top-call")
		}
		plan := c19Enumerate(base.Ast, func() string { freshN++; return fmt.Sprintf("ZZ_NEW%d", freshN) })
		if !c.Thorough && len(plan) > 60 {
			// quick tier: a PRNG sample of the edits of big programs (thorough: all)
			c.Rng.Shuffle(len(plan), func(i, j int) { plan[i], plan[j] = plan[j], plan[i] })
			plan = plan[:60]
			r.hist("program:edits-sampled(quick)")
		}
		var modelOuts []string
		if c.Drv != nil {
			var parser syntax.Parser
			plain, err := parser.UncheckedParse([]byte(cs.Src), cs.Path)
			if err == nil {
				c19GraphTieCase(c, cs, plain, base)
				enc := c19Encode(plain)
				reqs := make([][]string, len(plan))
				for i, pl := range plan {
					reqs[i] = c19ModelArgs(enc, pl.Edit)
				}
				modelOuts = c.Drv.AskBatch(reqs)
				// instances of the property theorems on this program
				var treqs [][]string
				var tidx []int
				for i, pl := range plan {
					a := c19ModelArgs(enc, pl.Edit)
					switch pl.Edit.Op {
					case "renameCallable":
						treqs = append(treqs, []string{"C19.thm", enc, pl.Edit.Callable, pl.Edit.NewName, "1", a[7]})
						tidx = append(tidx, i)
					case "removeUnused":
						treqs = append(treqs, []string{"C19.thm", enc, "-", "-", a[6], a[7]})
						tidx = append(tidx, i)
					case "removeOutput":
						treqs = append(treqs, []string{"C19.thmout", enc, pl.Edit.Callable, pl.Edit.Param})
						tidx = append(tidx, i)
					}
				}
				for k, rep := range c.Drv.AskBatch(treqs) {
					pl := plan[tidx[k]]
					f := map[string]string{}
					for _, kv := range strings.Fields(rep) {
						if j := strings.IndexByte(kv, '='); j > 0 {
							f[kv[:j]] = kv[j+1:]
						}
					}
					bad := ""
					if pl.Edit.Op == "renameCallable" {
						r.hist("theorem-instance:rename wf=" + f["wf"] + " fresh=" + f["fresh"])
						if f["wf"] == "true" && f["fresh"] == "true" && (f["rt"] != "true" || f["cg"] != "true") {
							bad = "rename_rename_id_partial / rename_callgraph_partial"
						}
					} else if pl.Edit.Op == "removeOutput" {
						r.hist("theorem-instance:removeOutput unreferenced=" + f["unref"])
						if f["unref"] == "true" && f["same"] != "true" {
							bad = "remove_output_unused"
						}
					} else {
						r.hist("theorem-instance:removeLoop")
						if f["dec"] != "true" || f["fix"] != "true" {
							bad = "fixpoint_terminates"
						}
					}
					if rep == "bad-op" {
						bad = "driver could not evaluate the theorem instance"
					}
					if bad != "" {
						r.violate(Violation{Kind: "correspondence", Key: "C19:theorem-instance", What: "an instance of " + bad + " evaluates to false in the model: " + rep,
							Input: c19Replay{Program: cs.Src, Edit: pl.Edit}, Broken: bad})
					}
				}
			}
		}
		baseEnc := ""
		{
			var parser syntax.Parser
			if plain, err := parser.UncheckedParse([]byte(cs.Src), cs.Path); err == nil {
				baseEnc = c19Encode(plain)
			}
		}
		for i, pl := range plan {
			model := ""
			if modelOuts != nil {
				model = modelOuts[i]
			}
			if tf := os.Getenv("C19_TRACE"); tf != "" {
				os.WriteFile(tf, []byte(pl.Edit.String()+"\n"+cs.Src), 0o644)
			}
			o, enc := c19Check(cs, base, baseGraph, pl, model)
			if corr := c19LastCorr; corr != nil && o.Kind == "property" {
				// the model disagrees as well: keep one instance per op
				r.hist("violation:" + corr.Key)
				if reported[corr.Key] == 0 {
					r.violate(Violation{Kind: corr.Kind, Key: corr.Key, What: corr.What, Input: c19Replay{Program: cs.Src, Edit: pl.Edit},
						Impl: corr.Impl, Model: corr.Model, Broken: "correspondence Martian.Refactor.applyEdit ~ refactoring.Refactor+Apply"})
				}
				reported[corr.Key]++
			}
			r.hist("edit:" + pl.Class)
			r.count(cs.Src+"\x00"+pl.Edit.String(), enc != "" && enc != baseEnc)
			if o.Key == "" {
				if len(r.Samples) < 6 && enc != baseEnc && i%7 == 3 {
					r.sample(map[string]interface{}{"program": cs.Name, "edit": pl.Edit.String(), "class": pl.Class, "model_agrees": model != ""})
				}
				continue
			}
			r.hist("violation:" + o.Key)
			reported[o.Key]++
			if reported[o.Key] > 2 {
				continue
			}
			small := cs
			if reported[o.Key] == 1 && os.Getenv("C19_NOSHRINK") == "" {
				t0 := time.Now()
				small = c19Shrink(c, cs, pl, o.Key)
				shrinkTime += time.Since(t0)
			}
			v := Violation{Kind: o.Kind, Key: o.Key, What: o.What,
				Input: c19Replay{Program: small.Src, Edit: pl.Edit, Note: "found in " + cs.Name + "; replay: write program to a .mro file and run `mro edit` with the flags corresponding to the edit (or VERIF corpus: drop it in corpus/C19/)"},
				Impl:  o.Impl, Model: o.Model}
			if small != cs {
				// recompute the message on the shrunk program
				if b2, err := c19Compile(small.Src, small.Path); err == nil && b2.Graph != nil {
					if g2, err := c19Dump(b2.Graph); err == nil {
						m2 := ""
						if o.Kind == "correspondence" && c.Drv != nil {
							var parser syntax.Parser
							if plain, err := parser.UncheckedParse([]byte(small.Src), small.Path); err == nil {
								a := c19ModelArgs(c19Encode(plain), pl.Edit)
								m2 = c.Drv.Ask(a[0], a[1:]...)
							}
						}
						if o2, _ := c19Check(small, b2, g2, pl, m2); o2.Key == o.Key {
							v.What, v.Impl, v.Model = o2.What, o2.Impl, o2.Model
						}
					}
				}
			}
			if o.Kind == "correspondence" {
				v.Broken = "correspondence Martian.Refactor.applyEdit ~ refactoring.Refactor+Apply"
			}
			r.violate(v)
		}
		// ---- several operations in one Refactor call ----
		if base.Graph != nil {
			multis := c19PlanMulti(c, cs, plan, func() string { freshN++; return fmt.Sprintf("ZZ_NEW%d", freshN) })
			// explicit multi-step edits of a corpus program: corpus/C19/<name>.edits.json, run first
			if strings.HasPrefix(cs.Name, "corpus/") {
				ef := filepath.Join(c.Corpus, strings.TrimSuffix(strings.TrimPrefix(cs.Name, "corpus/"), ".mro")+".edits.json")
				if b, err := os.ReadFile(ef); err == nil {
					var fixed [][]c19Edit
					if err := json.Unmarshal(b, &fixed); err != nil {
						r.note("cannot read %s: %v", ef, err)
					} else {
						multis = append(fixed, multis...)
						r.hist("corpus:explicit-multi-step-edits")
					}
				}
			}
			for _, steps := range multis {
				multi := c19MultiEdit(steps)
				if tf := os.Getenv("C19_TRACE"); tf != "" {
					os.WriteFile(tf, []byte(multi.String()+"\n"+cs.Src), 0o644)
				}
				c19LastCorr = nil
				o, skip := c19CheckMulti(c, cs, steps)
				if skip != "" {
					r.hist("multi-skipped:" + skip)
					continue
				}
				r.hist("edit:multi:" + c19MultiClass(steps))
				r.count(cs.Src+"\x00"+multi.String(), true)
				outs := []c19Outcome{}
				if o.Key != "" {
					outs = append(outs, o)
				}
				if c19LastCorr != nil {
					outs = append(outs, *c19LastCorr)
				}
				for _, o := range outs {
					r.hist("violation:" + o.Key)
					reported[o.Key]++
					if reported[o.Key] > 2 {
						continue
					}
					small := cs
					if reported[o.Key] == 1 && os.Getenv("C19_NOSHRINK") == "" {
						t0 := time.Now()
						small = c19ShrinkMulti(c, cs, steps, o.Key)
						shrinkTime += time.Since(t0)
					}
					v := Violation{Kind: o.Kind, Key: o.Key, What: o.What, Impl: o.Impl, Model: o.Model,
						Input: c19Replay{Program: small.Src, Edit: multi, Note: "found in " + cs.Name + "; replay: `mro edit` with the options of all steps in one invocation"}}
					if small != cs {
						c19LastCorr = nil
						if o2, sk := c19CheckMulti(c, small, steps); sk == "" {
							if o2.Key == "" && c19LastCorr != nil {
								o2 = *c19LastCorr
							}
							if o2.Key == o.Key {
								v.What, v.Impl, v.Model = o2.What, o2.Impl, o2.Model
							}
						}
					}
					if o.Kind == "correspondence" {
						v.Broken = "correspondence Martian.Refactor (composition of single steps) ~ refactoring.Refactor with several operations"
					}
					r.violate(v)
				}
			}
		}
	}
	// ---- one Refactor invocation over several files ----
	var gens []*c19Case
	for _, cs := range cases {
		if strings.HasPrefix(cs.Name, "gen-") {
			if _, err := c19Compile(cs.Src, cs.Path); err == nil {
				gens = append(gens, cs)
			}
		}
	}
	if !c.Thorough && len(gens) > 40 {
		gens = gens[:40]
	}
	c19RunFiles(c, gens, func() string { freshN++; return fmt.Sprintf("ZZ_NEW%d", freshN) })
	if c.Drv != nil && os.Getenv("C19_ONLY_CORPUS") == "" {
		nx := 100
		if c.Thorough {
			nx = 150
		}
		c19GraphExtra(c, nx)
	}
	r.note("programs: %d (generated %d, rejected by the compiler %d); time spent shrinking failing inputs: %.1fs; child restarts after a crash: %d", len(cases), made, rejected, shrinkTime.Seconds(), c19W.deaths)
}
