package main

// C13, tier A: whole pipestances through the real runtime (fake stages write
// real files), post-processed by Pipestance.PostProcess.  Runs happen in child
// processes of this binary (pseudo-property "C13W": the runtime may end the
// process) with a run loop that snapshots the top-level record and the file
// tree immediately before PostProcess.  Misbehaving stages (missing file,
// file outside the pipestance, symlinked output, the same file twice) are
// produced through TAOpts.OutsHook inside the child.

import (
	"context"
	"encoding/json"
	"fmt"
	"math/rand"
	"net/url"
	"os"
	"os/exec"
	"path"
	"path/filepath"
	"runtime"
	"sort"
	"strings"
	"sync"
	"time"

	"github.com/martian-lang/martian/martian/core"
	"github.com/martian-lang/martian/martian/syntax"
	"github.com/martian-lang/martian/martian/util"
)

type c13TASpec struct {
	Name   string `json:"name"`
	Src    string `json:"src"`
	Seed   int64  `json:"seed"`
	Mapped string `json:"mapped"` // "" array map
	Hook   string `json:"hook"`   // "" | mix  (misbehaving stage)
	// fault injection around Pipestance.PostProcess:
	//   "fsize": RLIMIT_FSIZE = FaultArg bytes (SIGXFSZ ignored) while post-processing runs, then a second pass;
	//   "kill":  the child kills itself (SIGKILL) once FaultArg entries exist under outs/, a second
	//            child re-attaches to the pipestance directory (mrp restart) and post-processes again.
	Fault    string `json:"fault,omitempty"`
	FaultArg int    `json:"fault_arg,omitempty"`
	// Mapped == "map": the fork keys of the split literal (nil = the default two keys)
	Keys []string `json:"keys,omitempty"`
}

type c13TARes struct {
	Name     string            `json:"name"`
	Final    string            `json:"final"`
	ErrMsg   string            `json:"errmsg,omitempty"`
	PsDir    string            `json:"psdir"`
	Ext      string            `json:"ext"`
	Params   []c13Member       `json:"params"`
	PreOuts  string            `json:"pre_outs"`
	PostOuts string            `json:"post_outs"`
	Before   c13Tree           `json:"before"`
	After    c13Tree           `json:"after"`
	Contents map[string]int    `json:"contents"`
	Fails    []string          `json:"fails,omitempty"`
	Alias    []string          `json:"alias,omitempty"`
	Leafs    int               `json:"leafs"`
	Hooked   map[string]string `json:"hooked,omitempty"`
	ParseErr string            `json:"parse_err,omitempty"`
	// fault streams
	Fault       string   `json:"fault,omitempty"`
	FaultArg    int      `json:"fault_arg,omitempty"`
	FaultRecord string   `json:"fault_record,omitempty"` // state of _outs right after the fault: old | new
	FaultOuts   string   `json:"fault_outs,omitempty"`   // raw _outs right after the fault (truncated to 400 bytes)
	FaultFails  []string `json:"fault_fails,omitempty"`  // violated assertions on the state right after the fault
	FaultPoint  string   `json:"fault_point,omitempty"`  // kill: what existed when the child died; crashsim: the simulated point
	Before0     c13Tree  `json:"before0,omitempty"`      // crashsim: the tree before the simulated partial post-process
	// mapped over a typed map: the order in which Fork.postProcess visited the fork keys (console log),
	// and whether it reported "Could not move output files"
	FaultTmp string `json:"fault_tmp,omitempty"` // state of _outs.tmp right after the fault: N | S<hex> | L<len>
	FaultRaw string `json:"fault_raw,omitempty"` // raw _outs right after the fault: S<hex> (when small)
	Order   []string `json:"order,omitempty"`
	PostErr string   `json:"post_err,omitempty"`
}

func init() { register("C13W", c13Worker) }

// c13Worker: child process.  C13_SPECS = file with a JSON array of specs;
// C13_OUT = directory receiving one result file per spec (<index>.json).
func c13Worker(c *Ctx) {
	taInit()
	b, err := os.ReadFile(os.Getenv("C13_SPECS"))
	if err != nil {
		fatal("%v", err)
	}
	var specs []*c13TASpec
	if err := json.Unmarshal(b, &specs); err != nil {
		fatal("%v", err)
	}
	first := 0
	fmt.Sscan(os.Getenv("C13_FIRST"), &first)
	outDir := os.Getenv("C13_OUT")
	if pp := os.Getenv("C13_RESUME"); pp != "" {
		// second incarnation after a killed post-process: only spec `first`
		res := c13Resume(c, specs[first], pp)
		rb, _ := json.Marshal(res)
		os.WriteFile(filepath.Join(outDir, fmt.Sprintf("%d.json", first)), rb, 0o644)
		return
	}
	for i := first; i < len(specs); i++ {
		os.WriteFile(filepath.Join(outDir, fmt.Sprintf("%d.begin", i)), nil, 0o644)
		res := c13RunOne(c, specs[i], filepath.Join(outDir, fmt.Sprintf("%d.prepost.json", i)))
		rb, _ := json.Marshal(res)
		os.WriteFile(filepath.Join(outDir, fmt.Sprintf("%d.json", i)), rb, 0o644)
		if res.Final == "hang" {
			os.Exit(7)
		}
	}
}

func c13SkipMeta(rel string, info os.FileInfo) bool {
	base := filepath.Base(rel)
	if rel == "journal" || (base == "tmp" && info.IsDir()) {
		// journal/ and tmp/ are removed by PostProcess, chunk tmp/ dirs asynchronously
		return true
	}
	return !info.IsDir() && info.Mode()&os.ModeSymlink == 0 && strings.HasPrefix(base, "_")
}

func c13RunOne(c *Ctx, spec *c13TASpec, prepostFile string) *c13TARes {
	res := &c13TARes{Name: spec.Name, Fault: spec.Fault, FaultArg: spec.FaultArg}
	rng := rand.New(rand.NewSource(spec.Seed))
	opts := TAOpts{StepBias: 0.4, StartSeparate: 0.3}
	var run *TARun
	ext := ""
	hooked := map[string]string{}
	if spec.Hook == "keys" || spec.Hook == "badkeys" {
		// the stage returns its typed maps under other RUN-TIME KEYS: adversarial relative to the
		// naming scheme ("keys"), and with one key that is not a legal file name in one map of
		// directory kind ("badkeys": output verification must refuse it, the stage fails)
		usedBad := false
		var rekey func(ty *c13Ty, v interface{}, where string) interface{}
		rekey = func(ty *c13Ty, v interface{}, where string) interface{} {
			switch ty.Kind {
			case "a":
				if xs, ok := v.([]interface{}); ok {
					et := ty.Elem
					if ty.Extra > 0 {
						et = &c13Ty{Kind: "a", Elem: ty.Elem, Extra: ty.Extra - 1}
					}
					for i := range xs {
						xs[i] = rekey(et, xs[i], where)
					}
				}
			case "t":
				if m, ok := v.(map[string]interface{}); ok {
					for _, mm := range ty.Ms {
						if x, ok := m[mm.Id]; ok {
							m[mm.Id] = rekey(mm.Ty, x, where+"."+mm.Id)
						}
					}
				}
			case "m":
				if m, ok := v.(map[string]interface{}); ok && len(m) > 0 {
					old := make([]string, 0, len(m))
					for k := range m {
						old = append(old, k)
					}
					sort.Strings(old)
					bad := spec.Hook == "badkeys" && !usedBad && ty.hasFile()
					keys, _ := c13MapKeyNames(rng, ty.Elem, len(m), bad)
					if bad {
						usedBad = true
						hooked[where] = "illegal-key"
					} else {
						hooked[where] = "rekeyed"
					}
					nm := map[string]interface{}{}
					for i, k := range keys {
						if i < len(old) {
							nm[k] = rekey(ty.Elem, m[old[i]], where)
						} else if len(old) > 0 {
							// the extra (illegal) key: a structurally valid entry with nothing to move
							nm[k] = nil
						}
					}
					return nm
				}
			}
			return v
		}
		opts.OutsHook = func(job *TAJob, outs map[string]interface{}) {
			if job.ShellName == "split" || run == nil || run.Ast == nil {
				return
			}
			st, _ := run.Ast.Callables.Table[job.StageName].(*syntax.Stage)
			if st == nil {
				return
			}
			for _, p := range c13ParamsFromSyntax(&run.Ast.TypeTable, st.OutParams) {
				if v, ok := outs[p.Id]; ok {
					outs[p.Id] = rekey(p.Ty, v, p.Id)
				}
			}
		}
	} else if spec.Hook != "" {
		opts.OutsHook = func(job *TAJob, outs map[string]interface{}) {
			if job.ShellName == "split" {
				return
			}
			var leaves []string
			var collect func(v interface{})
			collect = func(v interface{}) {
				switch t := v.(type) {
				case string:
					if strings.HasPrefix(t, job.FilesPath+"/") {
						leaves = append(leaves, t)
					}
				case []interface{}:
					for _, x := range t {
						collect(x)
					}
				case map[string]interface{}:
					ks := make([]string, 0, len(t))
					for k := range t {
						ks = append(ks, k)
					}
					sort.Strings(ks)
					for _, k := range ks {
						collect(t[k])
					}
				}
			}
			collect(outs)
			var rewrite func(v interface{}) interface{}
			n := 0
			rewrite = func(v interface{}) interface{} {
				switch t := v.(type) {
				case string:
					if !strings.HasPrefix(t, job.FilesPath+"/") {
						return t
					}
					n++
					info, err := os.Lstat(t)
					if err != nil {
						return t
					}
					switch k := rng.Intn(12); {
					case k == 0:
						os.RemoveAll(t)
						hooked[t] = "missing"
					case k == 1:
						os.MkdirAll(ext, 0o755)
						np := filepath.Join(ext, fmt.Sprintf("o%d_%s", n, filepath.Base(t)))
						if os.Rename(t, np) == nil {
							hooked[t] = "outside"
							return np
						}
					case k == 2 && !info.IsDir():
						real := t + ".real"
						if os.Rename(t, real) == nil {
							os.Symlink(filepath.Base(real), t)
							hooked[t] = "symlink-rel"
						}
					case k == 3 && !info.IsDir():
						real := t + ".real"
						if os.Rename(t, real) == nil {
							os.Symlink(real, t)
							hooked[t] = "symlink-abs"
						}
					case k == 4 && len(leaves) > 1:
						o := leaves[rng.Intn(len(leaves))]
						if _, err := os.Lstat(o); err == nil && o != t {
							hooked[t] = "alias"
							return o
						}
					}
					return t
				case []interface{}:
					for i, x := range t {
						t[i] = rewrite(x)
					}
					return t
				case map[string]interface{}:
					ks := make([]string, 0, len(t))
					for k := range t {
						ks = append(ks, k)
					}
					sort.Strings(ks)
					for _, k := range ks {
						t[k] = rewrite(t[k])
					}
					return t
				}
				return v
			}
			ks := make([]string, 0, len(outs))
			for k := range outs {
				ks = append(ks, k)
			}
			sort.Strings(ks)
			for _, k := range ks {
				outs[k] = rewrite(outs[k])
			}
		}
	}
	run, err := NewTARun(spec.Src, c.Scratch, spec.Seed, opts)
	if err != nil {
		res.Final = "compile-error"
		res.ErrMsg = err.Error()
		return res
	}
	defer run.Close()
	run.Tracer = nil
	res.PsDir = run.PsDir
	ext = filepath.Join(filepath.Dir(run.PsDir), "ext")
	res.Ext = ext
	res.Hooked = hooked
	topName := run.Ast.Call.DecId
	top := run.Ast.Callables.Table[topName]
	if top == nil {
		res.Final = "error:no top callable"
		return res
	}
	res.Params = c13ParamsFromSyntax(&run.Ast.TypeTable, top.GetOutParams())
	cs := &c13Contents{}
	mon := newC13Mon(run.PsDir)
	var preJ *c13J
	topOuts := path.Join(run.PsDir, run.Ast.Call.Id, "fork0", "_outs")
	done := make(chan struct{})
	lg := &c13CapLog{}
	go func() {
		defer close(done)
		var restore func()
		c13Drive(run, func() {
			// the pipestance is complete; PostProcess has not run yet
			run.ps.VerifStorageBarrier()
			b, _ := os.ReadFile(topOuts)
			res.PreOuts = string(compactJSON(b))
			res.Before = c13Snapshot([]string{run.PsDir, ext}, cs, c13SkipMeta)
			if j, err := c13ParseJSON(b); err == nil {
				preJ = j
				c13RecordLeaves(spec.Mapped, j, res.Params, mon)
			}
			if os.Getenv("TA_LOG") == "" {
				util.SetPrintLogger(lg)
			}
			switch spec.Fault {
			case "crashsim":
				// deterministic crash point: an earlier post-process completed the move of the first
				// FaultArg/3 movable leaves (in the real visiting order) and FaultArg%3 of the three
				// steps (mkdir, rename, symlink) of the next one, then died; `_outs` is still the old
				// record.  The PostProcess that follows is the restarted pass.
				if preJ != nil {
					var movable []c13SrcDest
					for _, sd := range c13OrderedLeaves(spec.Mapped, res.Params, preJ, run.PsDir) {
						if mon.kind[sd.src] == "reg" && mon.occ[sd.src] == 1 && strings.HasPrefix(sd.src, run.PsDir+"/") {
							movable = append(movable, sd)
						}
					}
					res.Before0 = res.Before
					full, part := spec.FaultArg/3, spec.FaultArg%3
					if full >= len(movable) && !(full == len(movable) && part == 0) {
						res.FaultPoint = "beyond"
					} else {
						for j := 0; j < full; j++ {
							c13SimulateMove(movable[j], 3)
						}
						if part > 0 {
							c13SimulateMove(movable[full], part)
						}
						res.FaultPoint = fmt.Sprintf("leaf %d of %d, step %d", full, len(movable), part)
						res.Before = c13Snapshot([]string{run.PsDir, ext}, cs, c13SkipMeta)
					}
				}
			case "fsize":
				restore = c13LimitFileSize(spec.FaultArg)
			case "kill":
				res.Contents = cs.ids
				c13WritePrepost(prepostFile, res, mon)
				c13ArmKiller(filepath.Join(run.PsDir, "outs"), spec.FaultArg, prepostFile)
			}
		}, func() {
			// PostProcess has returned; the pipestance is still locked
			if os.Getenv("TA_LOG") == "" {
				util.SetPrintLogger(devNullLogger{})
				if spec.Mapped == "map" && preJ != nil && preJ.K == 'O' {
					res.Order, _ = c13ForkOrder(lg.sb.String(), preJ.Keys)
				}
				if i := strings.Index(lg.sb.String(), "Could not move output files:"); i >= 0 {
					res.PostErr = lg.sb.String()[i:]
					if len(res.PostErr) > 3000 {
						res.PostErr = res.PostErr[:3000]
					}
				}
			}
			switch spec.Fault {
			case "fsize":
				restore()
				if preJ != nil {
					c13CheckFaultState(res, spec, mon, preJ, run.PsDir, topOuts)
				}
				// mrp is restarted: post-processing runs once more, unhindered
				run.ps.PostProcess()
			case "kill":
				// post-processing finished before the kill condition was met: die now (lock left behind)
				c13KillSelf(prepostFile, "after-postprocess")
			}
		})
	}()
	select {
	case <-done:
	case <-time.After(150 * time.Second):
		buf := make([]byte, 1<<14)
		buf = buf[:runtime.Stack(buf, true)]
		res.Final = "hang"
		res.ErrMsg = string(buf)
		return res
	}
	res.Final = run.Final
	res.ErrMsg = run.ErrMsg
	if len(res.ErrMsg) > 3000 {
		res.ErrMsg = res.ErrMsg[:3000]
	}
	if run.Final != "complete" || preJ == nil {
		return res
	}
	run.ps.VerifStorageBarrier()
	c13Finish(res, spec, mon, preJ, cs, run.PsDir, ext, topOuts)
	return res
}

// c13RecordLeaves notes what every file leaf of the top-level record holds before post-processing.
func c13RecordLeaves(mapped string, j *c13J, params []c13Member, mon *c13Mon) {
	c13ForEachRecord(mapped, j, func(_ string, rec *c13J) {
		for _, p := range params {
			c13Leaves(p, rec.get(p.Id), func(_ c13Member, v *c13J) { mon.record(v) })
		}
	})
}

// c13WalkRecords runs the property monitor over all per-fork records.
func c13WalkRecords(mapped string, params []c13Member, mon *c13Mon, preJ, postJ *c13J, psDir string) {
	outsRoot := filepath.Join(psDir, "outs")
	postRecs := map[string]*c13J{}
	c13ForEachRecord(mapped, postJ, func(k string, rec *c13J) { postRecs[k] = rec })
	nrec := 0
	c13ForEachRecord(mapped, preJ, func(k string, rec *c13J) {
		nrec++
		post := postRecs[k]
		if post == nil {
			mon.failf("record %q missing from the rewritten outputs", k)
			return
		}
		dir := outsRoot
		if mapped != "" {
			dir = filepath.Join(outsRoot, k)
		}
		for _, p := range params {
			mon.walk(k+"/"+p.Id, p, rec.get(p.Id), post.get(p.Id), dir)
		}
	})
	if len(postRecs) != nrec {
		mon.failf("number of records changed: %d -> %d", nrec, len(postRecs))
	}
}

// c13Finish: the final record and tree, and the property monitor on them
// (needs the real file system: done in the child).
func c13Finish(res *c13TARes, spec *c13TASpec, mon *c13Mon, preJ *c13J, cs *c13Contents, psDir, ext, topOuts string) {
	b, _ := os.ReadFile(topOuts)
	res.PostOuts = string(compactJSON(b))
	res.After = c13Snapshot([]string{psDir, ext}, cs, c13SkipMeta)
	res.Contents = cs.ids
	postJ, err := c13ParseJSON(b)
	if err != nil {
		res.ParseErr = err.Error()
		return
	}
	if spec.Mapped == "map" && preJ.K == 'O' && postJ.K == 'O' {
		// since the F24 repair: forks whose key is not a legal file name are refused (entry unchanged)
		legalPre, legalPost := &c13J{K: 'O'}, &c13J{K: 'O'}
		for i, k := range preJ.Keys {
			if c13LegalKey(k) {
				legalPre.Keys, legalPre.Vals = append(legalPre.Keys, k), append(legalPre.Vals, preJ.Vals[i])
				if pv := postJ.get(k); pv != nil {
					legalPost.Keys, legalPost.Vals = append(legalPost.Keys, k), append(legalPost.Vals, pv)
				}
			} else if pv := postJ.get(k); pv == nil || pv.canon() != preJ.Vals[i].canon() {
				mon.failf("refused fork key %q: its record entry was changed or dropped", k)
			}
		}
		c13WalkRecords("map", res.Params, mon, legalPre, legalPost, psDir)
		c13MappedOwnLocation(res.Params, mon, legalPre, legalPost, psDir)
	} else {
		c13WalkRecords(spec.Mapped, res.Params, mon, preJ, postJ, psDir)
	}
	res.Fails = mon.fails
	res.Alias = mon.alias
	res.Leafs = mon.leafs
}

// c13ForEachRecord: the per-fork records of a top-level `_outs`.
func c13ForEachRecord(mapped string, j *c13J, f func(key string, rec *c13J)) {
	switch mapped {
	case "array":
		if j.K == 'A' {
			for i, x := range j.Arr {
				f(fmt.Sprint(i), x)
			}
		}
	case "map":
		if j.K == 'O' {
			for i, k := range j.Keys {
				f(k, j.Vals[i])
			}
		}
	default:
		f("", j)
	}
}

// c13Drive is TARun.Run without crashes, calling beforePost between the
// moment the pipestance is found complete and PostProcess, and afterPost
// between PostProcess and the release of the pipestance lock.
func c13Drive(r *TARun, beforePost, afterPost func()) {
	defer func() {
		if e := recover(); e != nil {
			r.Final = fmt.Sprintf("panic:%v", e)
			buf := make([]byte, 4096)
			buf = buf[:runtime.Stack(buf, false)]
			r.ErrMsg = string(buf)
		}
	}()
	ctx := context.Background()
	idle := 0
	for len(r.Events) < r.Opts.MaxEvents {
		doStep := len(r.Pending) == 0 || r.Rng.Float64() < r.Opts.StepBias
		if !doStep {
			job := r.Pending[r.Rng.Intn(len(r.Pending))]
			if !job.Started && r.Rng.Float64() < r.Opts.StartSeparate {
				r.startJob(job)
			} else {
				r.finishJob(job)
			}
			idle = 0
			continue
		}
		r.ps.RefreshState(ctx)
		switch state := r.ps.GetState(ctx); state {
		case core.Complete, core.DisabledState:
			r.log("complete", "", string(state))
			beforePost()
			r.ps.PostProcess()
			if afterPost != nil {
				afterPost()
			}
			r.ps.Unlock()
			r.Final = "complete"
			return
		case core.Failed:
			_, _, _, logmsg, kind, errPaths := r.ps.GetFatalError()
			r.ErrMsg = fmt.Sprintf("%s|%s|%s", kind, strings.Join(errPaths, ","), logmsg)
			r.ps.Unlock()
			r.Final = "failed"
			return
		}
		r.ps.CheckHeartbeats(ctx)
		r.insideStep = true
		p := r.ps.StepNodes(ctx)
		r.insideStep = false
		r.log("step", "", fmt.Sprint(p))
		if p {
			idle = 0
		}
		if !p && len(r.Pending) == 0 {
			idle++
			r.ps.VerifStorageBarrier()
			if idle > 6 {
				r.Final = "stall"
				r.ps.Unlock()
				return
			}
		}
	}
	r.Final = "error:event budget exhausted"
	if r.ps != nil {
		r.ps.Unlock()
	}
}

// ---- parent side ----

var (
	c13CallMu sync.Mutex
	c13Calls  int
)

func c13RunChildren(c *Ctx, specs []*c13TASpec, parallel int) []*c13TARes {
	results := make([]*c13TARes, len(specs))
	if len(specs) == 0 {
		return results
	}
	c13CallMu.Lock()
	c13Calls++
	callNo := c13Calls
	c13CallMu.Unlock()
	// contiguous batches, one child each
	if parallel > len(specs) {
		parallel = len(specs)
	}
	var wg sync.WaitGroup
	per := (len(specs) + parallel - 1) / parallel
	for w := 0; w < parallel; w++ {
		lo, hi := w*per, (w+1)*per
		if hi > len(specs) {
			hi = len(specs)
		}
		if lo >= hi {
			continue
		}
		wg.Add(1)
		go func(w, lo, hi int) {
			defer wg.Done()
			// a fresh directory per call and worker: a stale <i>.json of an earlier call must
			// never be taken for the result of a child that died before writing its own
			dir := filepath.Join(c13Scratch(c), fmt.Sprintf("call%d-w%d", callNo, w))
			os.RemoveAll(dir)
			os.MkdirAll(dir, 0o755)
			sb, _ := json.Marshal(specs[lo:hi])
			specFile := filepath.Join(dir, "specs.json")
			os.WriteFile(specFile, sb, 0o644)
			first := 0
			for first < hi-lo {
				cmd := exec.Command(os.Args[0], "-seed", fmt.Sprint(c.Seed), "-out", filepath.Join(dir, "worker.json"), "C13W")
				cmd.Env = append(os.Environ(), "C13_SPECS="+specFile, "C13_OUT="+dir, fmt.Sprintf("C13_FIRST=%d", first), "GOMAXPROCS=2", "TMPDIR="+dir)
				out, _ := cmd.CombinedOutput()
				// collect what was finished
				next := first
				for i := first; i < hi-lo; i++ {
					b, err := os.ReadFile(filepath.Join(dir, fmt.Sprintf("%d.json", i)))
					if err != nil {
						break
					}
					var res c13TARes
					if json.Unmarshal(b, &res) != nil || res.Name != specs[lo+i].Name {
						break
					}
					results[lo+i] = &res
					next = i + 1
				}
				if next < hi-lo && specs[lo+next].Fault == "kill" {
					pp := filepath.Join(dir, fmt.Sprintf("%d.prepost.json", next))
					if _, err := os.Stat(pp); err == nil {
						// the child killed itself during post-processing: restart on the same directory
						cmd := exec.Command(os.Args[0], "-seed", fmt.Sprint(c.Seed), "-out", filepath.Join(dir, "worker.json"), "C13W")
						cmd.Env = append(os.Environ(), "C13_SPECS="+specFile, "C13_OUT="+dir, fmt.Sprintf("C13_FIRST=%d", next),
							"C13_RESUME="+pp, "GOMAXPROCS=2", "TMPDIR="+dir)
						out2, _ := cmd.CombinedOutput()
						var res c13TARes
						if b, err := os.ReadFile(filepath.Join(dir, fmt.Sprintf("%d.json", next))); err == nil &&
							json.Unmarshal(b, &res) == nil && res.Name == specs[lo+next].Name {
							results[lo+next] = &res
						} else {
							msg := string(out2)
							if len(msg) > 1500 {
								msg = msg[len(msg)-1500:]
							}
							results[lo+next] = &c13TARes{Name: specs[lo+next].Name, Final: "process-exit", Fault: "kill",
								ErrMsg: "the restarted incarnation died: " + msg}
						}
						first = next + 1
						continue
					}
				}
				if next < hi-lo {
					if _, err := os.Stat(filepath.Join(dir, fmt.Sprintf("%d.begin", next))); err == nil {
						// the child died while running spec `next`
						msg := string(out)
						if len(msg) > 1500 {
							msg = msg[len(msg)-1500:]
						}
						results[lo+next] = &c13TARes{Name: specs[lo+next].Name, Final: "process-exit", ErrMsg: msg}
						next++
					} else if next == first {
						results[lo+next] = &c13TARes{Name: specs[lo+next].Name, Final: "process-exit", ErrMsg: "worker did not start: " + string(out)}
						next++
					}
				}
				first = next
			}
		}(w, lo, hi)
	}
	wg.Wait()
	return results
}

func c13FinalClass(f string) string {
	switch {
	case strings.HasPrefix(f, "panic:"):
		f = strings.SplitN(f, " goroutine", 2)[0]
		if len(f) > 50 {
			f = f[:50]
		}
		return f
	case strings.HasPrefix(f, "error:"):
		return "error"
	}
	return f
}

func c13TierA(c *Ctx, r *Result) {
	n := 120
	if c.Thorough {
		n = 1500
	}
	var specs []*c13TASpec
	for i := 0; i < n; i++ {
		rng := rand.New(rand.NewSource(c.Rng.Int63()))
		spec := &c13TASpec{Name: fmt.Sprintf("ta-%d", i), Seed: rng.Int63()}
		switch i % 6 {
		case 3:
			spec.Mapped = "array"
		case 4:
			spec.Mapped = "map"
		}
		if i%3 == 1 {
			spec.Hook = "mix"
		}
		if i%10 == 9 {
			// the shared program generator (deeper call graphs, mapped sub-pipelines)
			src, _ := GenProgram(rng, GenOpts{Files: true, MaxDepth: 2, MaxCalls: 3})
			spec.Src = src
			spec.Mapped = ""
			spec.Name += "-gen"
		} else {
			sig := c13GenSig(rng, false)
			dup := i%6 == 5 || i%12 == 3
			spec.Src = sig.mroDup(spec.Mapped, i%4 == 2, dup)
			if dup {
				spec.Name += "-dupreturn"
			}
		}
		if !strings.HasSuffix(spec.Name, "-gen") {
			switch i % 8 {
			case 1, 6:
				spec.Fault = "fsize"
				spec.FaultArg = []int{0, 1, 7, 40, 64, 150, 400, 100000}[rng.Intn(8)]
				spec.Name += fmt.Sprintf("-fsize%d", spec.FaultArg)
			case 3:
				spec.Fault = "kill"
				spec.FaultArg = []int{0, 1, 2, 3, 5, 8, 13, 1000}[rng.Intn(8)]
				spec.Name += fmt.Sprintf("-kill%d", spec.FaultArg)
			}
		}
		if spec.Mapped == "map" && spec.Fault == "" && !strings.HasSuffix(spec.Name, "-gen") {
			// adversarial fork keys through the whole runtime
			spec.Keys, _ = c13GenKeySet(rng, c13OutNamesOfSrc(spec.Src), true)
			spec.Src = c13ReplaceKeys(spec.Src, spec.Keys)
			spec.Name += "-keys"
		}
		specs = append(specs, spec)
	}
	// top-level calls mapped over a typed map with adversarial fork keys, through the whole runtime
	nkeys := 36
	if c.Thorough {
		nkeys = 400
	}
	for i := 0; i < nkeys; i++ {
		rng := rand.New(rand.NewSource(c.Rng.Int63()))
		spec := &c13TASpec{Name: fmt.Sprintf("ta-mapkeys-%d", i), Seed: rng.Int63(), Mapped: "map"}
		sig := c13GenSmallSig(rng, 9)
		spec.Src = sig.mroDup("map", i%4 == 2, false)
		if i%5 == 3 {
			spec.Hook = "mix"
		}
		spec.Keys, _ = c13GenKeySet(rng, c13OutNamesOfSrc(spec.Src), true)
		spec.Src = c13ReplaceKeys(spec.Src, spec.Keys)
		specs = append(specs, spec)
	}
	// stage outputs with typed maps under adversarial run-time keys ("keys"), and with a key that
	// is not a legal file name among legal ones ("badkeys")
	nnames := 30
	if c.Thorough {
		nnames = 400
	}
	for i := 0; i < nnames; i++ {
		rng := rand.New(rand.NewSource(c.Rng.Int63()))
		spec := &c13TASpec{Name: fmt.Sprintf("ta-keynames-%d", i), Seed: rng.Int63(), Hook: "keys"}
		if i%2 == 1 {
			spec.Hook = "badkeys"
			spec.Name += "-bad"
		}
		var sig *c13Sig
		for tries := 0; tries < 200; tries++ {
			sig = c13GenSig(rng, false)
			if sig.hasDirMap() && sig.maxLeaves() <= 40 {
				break
			}
		}
		spec.Src = sig.mroDup("", i%4 >= 2, false)
		specs = append(specs, spec)
	}
	// the outputs of a `map call` over a map collected into ONE typed map of structs that is the
	// top-level output: the fork keys become the keys of a map of directory kind
	ncollect := 16
	if c.Thorough {
		ncollect = 200
	}
	for i := 0; i < ncollect; i++ {
		rng := rand.New(rand.NewSource(c.Rng.Int63()))
		spec := &c13TASpec{Name: fmt.Sprintf("ta-collect-%d", i), Seed: rng.Int63()}
		sig := c13GenSmallSig(rng, 9)
		var names []string
		for _, p := range sig.Params {
			if p.Ty.hasFile() {
				names = append(names, p.expectName())
			}
		}
		keys, _ := c13GenKeySet(rng, names, true)
		spec.Src = sig.mroCollect(keys)
		specs = append(specs, spec)
	}
	// deterministic sweeps: every simulated crash point of a few programs, and the kill stream at
	// every entry count of one (quick) or a few (thorough) programs
	nsim, nkill, capSim, capKill := 3, 1, 37, 25
	if c.Thorough {
		nsim, nkill, capSim, capKill = 16, 5, 37, 40
	}
	for k := 0; k < nsim+nkill; k++ {
		rng := rand.New(rand.NewSource(c.Rng.Int63()))
		seed := rng.Int63()
		sig := c13GenSmallSig(rng, 12)
		mapped := []string{"", "", "array", "map"}[k%4]
		src := sig.mro(mapped, k%3 == 1)
		if k < nsim {
			for p := 0; p <= capSim; p++ {
				specs = append(specs, &c13TASpec{Name: fmt.Sprintf("ta-sweep%d-crashsim%d", k, p), Src: src, Seed: seed, Mapped: mapped,
					Fault: "crashsim", FaultArg: p})
			}
		} else {
			for p := 1; p <= capKill; p++ {
				specs = append(specs, &c13TASpec{Name: fmt.Sprintf("ta-sweep%d-kill%d", k, p), Src: src, Seed: seed, Mapped: mapped,
					Fault: "kill", FaultArg: p})
			}
		}
	}
	c13TACompare(c, r, specs, c13RunChildren(c, specs, 12), false)
}

// c13TACompare: histogram, property failures reported by the child, model comparison.
// A spec that produced a violation is re-executed alone (the machine may be heavily loaded:
// time-outs, kill points) and only what shows up again is reported.
func c13TACompare(c *Ctx, r *Result, specs []*c13TASpec, results []*c13TARes, corpus bool) {
	type pend struct {
		spec *c13TASpec
		vs   []Violation
	}
	var pending []pend
	for i := range specs {
		before := len(r.Violations)
		c13CompareAll(c, r, specs[i:i+1], results[i:i+1], corpus)
		if len(r.Violations) > before {
			vs := append([]Violation{}, r.Violations[before:]...)
			r.Violations = r.Violations[:before]
			pending = append(pending, pend{specs[i], vs})
		}
	}
	for _, p := range pending {
		tmp := &Result{}
		c13CompareAll(c, tmp, []*c13TASpec{p.spec}, c13RunChildren(c, []*c13TASpec{p.spec}, 1), true)
		again := map[string]bool{}
		for _, v := range tmp.Violations {
			again[v.Key] = true
		}
		for _, v := range p.vs {
			if again[v.Key] {
				r.violate(v)
			} else {
				r.hist("tierA:not-reproduced-alone:" + v.Key)
				r.note("tier A: %s (%s) was not reproduced when %s was re-executed alone; not reported", v.Key, c13Short(v.What), p.spec.Name)
			}
		}
	}
}

func c13CompareAll(c *Ctx, r *Result, specs []*c13TASpec, results []*c13TARes, corpus bool) {
	for i, res := range results {
		spec := specs[i]
		if res == nil {
			r.hist("tierA:final:no-result")
			continue
		}
		if os.Getenv("C13_TRACE") != "" {
			fmt.Fprintf(os.Stderr, "tierA compare %s final=%s fault=%s/%d/%s\n", spec.Name, res.Final, spec.Fault, spec.FaultArg, res.FaultPoint)
		}
		r.hist("tierA:final:" + c13FinalClass(res.Final))
		if res.Final == "compile-error" {
			if !strings.HasSuffix(spec.Name, "-gen") {
				r.note("tier A: generated signature did not compile: %s", c13Short(res.ErrMsg))
			}
			continue
		}
		if spec.Hook == "badkeys" && res.Final == "failed" {
			illegal := false
			for _, v := range res.Hooked {
				illegal = illegal || v == "illegal-key"
			}
			if illegal {
				// the correct outcome: output verification refuses the value, the pipestance does not complete
				r.hist("tierA:illegal-key:refused-by-verification")
			}
		}
		if res.Final != "complete" {
			continue
		}
		if spec.Hook == "badkeys" {
			for _, v := range res.Hooked {
				if v == "illegal-key" {
					r.hist("tierA:illegal-key:pipestance-completed")
				}
			}
		}
		if spec.Mapped != "" {
			r.hist("tierA:mapped:" + spec.Mapped)
		}
		if strings.Contains(spec.Name, "-dupreturn") {
			r.hist("tierA:one-file-two-top-level-outputs")
		}
		for _, k := range res.Hooked {
			r.hist("tierA:hook:" + k)
		}
		for _, p := range res.Params {
			if p.Ty.hasFile() {
				r.hist("tierA:type:" + p.Ty.shape())
			}
		}
		strip := func(s string) string {
			return strings.ReplaceAll(strings.ReplaceAll(s, res.PsDir, "$PS"), res.Ext, "$EXT")
		}
		input := map[string]interface{}{"name": res.Name, "mro": spec.Src, "seed": spec.Seed, "mapped": spec.Mapped, "hook": spec.Hook,
			"pre_outs": strip(res.PreOuts), "hooked": res.Hooked}
		keyClass := ""
		if spec.Mapped == "map" {
			if pj, err := c13ParseJSON([]byte(res.PreOuts)); err == nil && pj.K == 'O' {
				outsRoot := filepath.Join(res.PsDir, "outs")
				dirs, class := c13KeyDirsGo(outsRoot, pj.Keys)
				keyClass = "separable" // distinct legal keys; the others are refused since the F24 repair
				var illegal []string
				for _, k := range pj.Keys {
					if !c13LegalKey(k) {
						illegal = append(illegal, k)
					}
				}
				if len(illegal) > 0 {
					r.hist("tierA:mapped:map:has-illegal-key")
					silent := false
					for _, k := range illegal {
						if !strings.Contains(res.PostErr, fmt.Sprintf("%q", k)) {
							silent = true
						}
					}
					if silent {
						r.violate(Violation{Kind: "property", Key: "C13:mapped-illegal-key",
							What:  fmt.Sprintf("top-level call mapped over a typed map: fork keys %q are not legal file names, but post-processing reported no error naming them", illegal),
							Input: input, Impl: strip(res.PostErr), Expect: "an error naming every such key (mapped_illegal_key_is_refused)"})
					} else {
						r.hist("tierA:mapped:map:illegal-key-refused-with-error")
					}
				}
				r.hist("tierA:mapped:map:keys:" + class)
				if spec.Keys != nil {
					c13CheckKeyDirs(c, r, outsRoot, pj.Keys, dirs, class)
				}
				input["keys"] = pj.Keys
				input["key_class"] = class
				input["visited_in_order"] = res.Order
				if res.PostErr != "" {
					input["post_err"] = strip(res.PostErr)
					r.hist("tierA:mapped:map:postprocess-reported-error:" + class)
				}
			}
		}
		r.count(spec.Src+"|"+strip(res.PreOuts), res.Leafs > 0)
		if res.ParseErr != "" {
			r.violate(Violation{Kind: "property", Key: "C13:invalid-json", What: "top-level _outs is not valid JSON after post-processing: " + res.ParseErr,
				Input: input, Impl: strip(res.PostOuts)})
			continue
		}
		pre, err := c13ParseJSON([]byte(res.PreOuts))
		if err != nil {
			r.note("tier A: pre-post-process _outs unreadable: %v", err)
			continue
		}
		if ks := c13UnverifiedForkKeys(spec.Mapped, res, pre); len(ks) > 0 && len(res.Fails) > 0 {
			// F25 (repaired): a fork key of a map call that became a key of a typed-map OUTPUT and is not a
			// legal file name: the entry is dropped, and post-processing must REPORT it
			reported := true
			for _, k := range ks {
				if !strings.Contains(res.PostErr, fmt.Sprintf("%q", k)) {
					reported = false
				}
			}
			if reported {
				r.hist("tierA:illegal-fork-key-in-output:error-reported")
				res.Fails = nil
			}
		}
		if len(res.Fails) > 0 {
			key := c13CrashKey(res, "C13:materialise")
			if keyClass != "" && keyClass != "separable" && key == "C13:materialise" {
				key = "C13:mapped-key-dirs-overlap"
			}
			if ks := c13UnverifiedForkKeys(spec.Mapped, res, pre); len(ks) > 0 && key == "C13:materialise" {
				// a typed map of directory kind whose illegal key is a FORK key of a map call: such
				// records are assembled by the runtime and never pass through IsValidJson
				key = "C13:map-call-keys-unverified"
				input["fork_keys_not_legal_file_names"] = ks
			}
			md := false
			c13ForEachRecord(spec.Mapped, pre, func(_ string, rec *c13J) {
				for _, p := range res.Params {
					c13MultiDimLeaf(p.Ty, rec.get(p.Id), &md)
				}
			})
			if md && key == "C13:materialise" {
				key = "C13:multidim-file-array"
			}
			fails := make([]string, len(res.Fails))
			for i, f := range res.Fails {
				fails[i] = strip(f)
			}
			r.violate(Violation{Kind: "property", Key: key, What: "outputs not materialised faithfully: " + strings.Join(fails, "; "),
				Input: input, Impl: strip(res.PostOuts),
				Expect: "every non-null file leaf readable under outs/<derived name> with the stage's content; same shape; other values unchanged"})
		}
		if len(res.Alias) > 0 {
			r.hist("tierA:alias-value-points-at-other-output")
			al := make([]string, len(res.Alias))
			for i, f := range res.Alias {
				al[i] = strip(f)
			}
			r.violate(Violation{Kind: "property", Key: "C13:alias-record-points-at-first", What: strings.Join(al, "; "),
				Input: input, Impl: strip(res.PostOuts)})
		}
		if spec.Fault != "" {
			r.hist("tierA:fault:" + spec.Fault)
			r.hist("tierA:fault:" + spec.Fault + ":record-" + res.FaultRecord)
			if res.FaultPoint != "" {
				fp := res.FaultPoint
				if strings.HasSuffix(fp, "-entries-under-outs") {
					fp = "some-entries-under-outs"
				}
				if strings.HasPrefix(fp, "leaf ") {
					fp = "step-" + fp[len(fp)-1:]
				}
				r.hist("tierA:fault:" + spec.Fault + ":" + fp)
			}
			input["fault"] = spec.Fault
			input["fault_arg"] = spec.FaultArg
			input["fault_point"] = res.FaultPoint
			c13FaultWriterTie(c, r, spec, res, input)
			if len(res.FaultFails) > 0 {
				key := "C13:fault-state"
				ff := make([]string, len(res.FaultFails))
				for i, f := range res.FaultFails {
					ff[i] = strip(f)
					if strings.Contains(f, "_outs") {
						key = "C13:record-torn-under-fault"
					}
				}
				r.violate(Violation{Kind: "property", Key: key,
					What:  "after a faulted post-process (" + spec.Fault + fmt.Sprint(" ", spec.FaultArg) + "): " + strings.Join(ff, "; "),
					Input: input, Impl: strip(res.FaultOuts),
					Expect: "_outs is the complete old record or a complete new one; every output's content intact at its source or its destination"})
			}
		}
		if n := strings.Count(res.PreOuts, res.PsDir); n > 400 {
			// the model's abstract file system is quadratic in the number of operations
			r.hist("tierA:model-skipped-large-record")
			continue
		}
		// model comparison
		if spec.Mapped == "map" && pre.K == 'O' {
			// the model runs the forks in the order in which the real code visited them
			if len(res.Order) == len(pre.Keys) {
				ordered := &c13J{K: 'O'}
				for _, k := range res.Order {
					ordered.Keys = append(ordered.Keys, k)
					ordered.Vals = append(ordered.Vals, pre.get(k))
				}
				pre = ordered
			} else if keyClass != "separable" {
				r.hist("tierA:mapped:map:visit-order-unreadable")
				continue
			}
			if keyClass != "separable" {
				outsRoot := filepath.Join(res.PsDir, "outs")
				dirs, _ := c13KeyDirsGo(outsRoot, pre.Keys)
				if c13ForkDirThroughSymlink(res.After, outsRoot, dirs) {
					r.hist("tierA:mapped:map:model-skipped-symlinked-fork-dir")
					continue
				}
			}
			if keyClass != "separable" && res.PostErr != "" {
				// mkdir failures below another fork's file / for unrepresentable names are not modelled
				r.hist("tierA:mapped:map:model-skipped-syscall-error")
				continue
			}
		}
		mode := map[string]string{"": "o", "array": "a", "map": "m"}[spec.Mapped]
		altMode := ""
		switch {
		case spec.Fault == "fsize" && res.FaultRecord == "new":
			mode += mode // second pass over the rewritten record
		case spec.Fault == "fsize":
			mode += "2" // second pass over the old record
		case spec.Fault == "crashsim":
			// correspondence: one pass from the simulated crash state (res.Before); convergence below
		case spec.Fault == "kill":
			// a prefix of the first pass, then a full pass: the tree of an uninterrupted run
			// (or, when everything had been moved, of a second pass); the record is checked by the monitor only
			altMode = mode + "2"
		}
		// content ids of the child (hash table) are already in the tree strings
		reply := c.Drv.Ask("C13.run", mode, "g", hx(res.PsDir), hx(filepath.Join(res.PsDir, "outs")), c13EncParams(res.Params),
			pre.encStr(), res.Before.enc(c13Ancestors(res.PsDir)))
		parts := strings.Split(reply, "\t")
		if len(parts) != 2 {
			r.violate(Violation{Kind: "correspondence", Key: "C13:driver", What: "driver reply: " + c13Short(reply), Input: input, Broken: "driver"})
			continue
		}
		if keyClass != "" && keyClass != "separable" && c13BelowSymlink(res.After, c13ParseTree(parts[1])) {
			r.hist("tierA:mapped:map:model-skipped-symlinked-fork-dir")
			continue
		}
		post, _ := c13ParseJSON([]byte(res.PostOuts))
		mj, merr := c13ParseJSON([]byte(unhx(parts[0])))
		if spec.Fault == "kill" {
			// record: monitor only
		} else if merr != nil || post == nil || mj.canon() != post.canon() {
			r.violate(Violation{Kind: "correspondence", Key: "C13:model-json-tierA", Broken: "correspondence postProcess (rewritten _outs)",
				What: "rewritten top-level _outs differs between the real runtime and the model", Input: input,
				Impl: strip(res.PostOuts), Model: strip(unhx(parts[0]))})
		}
		d := c13TreeDiff(res.After, c13ParseTree(parts[1]), []string{res.PsDir, res.Ext})
		if len(d) > 0 && altMode != "" {
			reply2 := c.Drv.Ask("C13.run", altMode, "g", hx(res.PsDir), hx(filepath.Join(res.PsDir, "outs")), c13EncParams(res.Params),
				pre.encStr(), res.Before.enc(c13Ancestors(res.PsDir)))
			if p2 := strings.Split(reply2, "\t"); len(p2) == 2 {
				if d2 := c13TreeDiff(res.After, c13ParseTree(p2[1]), []string{res.PsDir, res.Ext}); len(d2) == 0 {
					d = nil
					r.hist("tierA:fault:kill:tree-of-second-pass")
				}
			}
		}
		if spec.Fault == "crashsim" && res.Before0 != nil && res.FaultPoint != "beyond" {
			// convergence: the tree must be the one an uninterrupted post-process produces
			reply0 := c.Drv.Ask("C13.run", mode, "g", hx(res.PsDir), hx(filepath.Join(res.PsDir, "outs")), c13EncParams(res.Params),
				pre.encStr(), res.Before0.enc(c13Ancestors(res.PsDir)))
			if p0 := strings.Split(reply0, "\t"); len(p0) == 2 {
				if d0 := c13TreeDiff(res.After, c13ParseTree(p0[1]), []string{res.PsDir, res.Ext}); len(d0) > 0 {
					if len(d0) > 8 {
						d0 = d0[:8]
					}
					for i := range d0 {
						d0[i] = strip(d0[i])
					}
					r.violate(Violation{Kind: "property", Key: c13CrashKey(res, "C13:restart-does-not-converge"),
						What:  "post-processing interrupted at " + res.FaultPoint + " and restarted: the pipestance tree is not the one an uninterrupted run produces",
						Input: input, Impl: d0, Expect: "the tree the model computes for an uninterrupted post-process"})
				}
			}
		}
		if len(d) > 0 {
			if len(d) > 8 {
				d = d[:8]
			}
			for i := range d {
				d[i] = strip(d[i])
			}
			if spec.Fault == "kill" {
				r.violate(Violation{Kind: "property", Key: c13CrashKey(res, "C13:restart-does-not-converge"),
					What:  "post-processing killed (" + res.FaultPoint + ") and restarted: the pipestance tree is not the one an uninterrupted run produces",
					Input: input, Impl: d, Expect: "the tree the model computes for an uninterrupted post-process"})
			} else {
				r.violate(Violation{Kind: "correspondence", Key: "C13:model-tree-tierA", Broken: "correspondence postProcess (file tree)",
					What: "pipestance tree after PostProcess differs between the real runtime and the model", Input: input, Impl: d})
			}
		}
		if i%40 == 0 && !corpus {
			r.sample(map[string]interface{}{"tierA": res.Name, "mapped": spec.Mapped, "pre_outs": strip(res.PreOuts), "post_outs": strip(res.PostOuts)})
		}
	}
}

// c13CrashKey: after a kill or a simulated crash, "an existing file became null" is the signature
// of F22 (kill between the rename into outs/ and leaving the symlink behind).
func c13CrashKey(res *c13TARes, deflt string) string {
	if res.Fault == "kill" || res.Fault == "crashsim" {
		for _, f := range res.Fails {
			if strings.Contains(f, "value of an existing file became null") {
				return "C13:crash-between-rename-and-symlink"
			}
		}
	}
	return deflt
}

// c13FaultWriterTie: the (record, temp sibling) pair observed right after a faulted or killed
// post-process against the model's writeCut: a NEW record means the rename happened (all steps:
// no temp file); an OLD record with a temp file is the state after the open and |tmp| bytes
// (under RLIMIT_FSIZE = L exactly L bytes).
func c13FaultWriterTie(c *Ctx, r *Result, spec *c13TASpec, res *c13TARes, input map[string]interface{}) {
	if res.FaultTmp == "" || res.FaultRecord == "" || (spec.Fault != "fsize" && spec.Fault != "kill") {
		return
	}
	r.hist("tierA:fault:" + spec.Fault + ":record-" + res.FaultRecord + ":tmp-" + map[bool]string{true: "absent", false: "present"}[res.FaultTmp == "N"])
	bad := func(what string, model interface{}) {
		r.violate(Violation{Kind: "correspondence", Key: "C13:model-writer-fault", Broken: "record_path_old_or_new / writeCut vs the fault stream",
			What: what, Input: input, Impl: map[string]string{"record": res.FaultRecord, "tmp": c13Short(res.FaultTmp)}, Model: model})
	}
	old := []byte("<the old record>")
	switch {
	case res.FaultRecord == "new":
		if !strings.HasPrefix(res.FaultRaw, "S") {
			return
		}
		nb := []byte(unhx(res.FaultRaw[1:]))
		mrec, mtmp, ok := c13WriterCut(c, "a", old, true, nb, len(nb)+2)
		if !ok || mrec != res.FaultRaw || mtmp != res.FaultTmp {
			bad("a complete new record was observed together with a temp sibling: not a state of writeAtomicAt cut anywhere", map[string]string{"record": c13Short(mrec), "tmp": c13Short(mtmp)})
		}
	case strings.HasPrefix(res.FaultTmp, "S"):
		tb := []byte(unhx(res.FaultTmp[1:]))
		if spec.Fault == "fsize" && len(tb) != spec.FaultArg {
			bad(fmt.Sprintf("under RLIMIT_FSIZE = %d the temp sibling holds %d bytes (the model: the open and exactly L bytes)", spec.FaultArg, len(tb)), nil)
		}
		mrec, mtmp, ok := c13WriterCut(c, "a", old, true, append(append([]byte{}, tb...), '}'), len(tb)+1)
		if !ok || mrec != "S"+hx(string(old)) || mtmp != res.FaultTmp {
			bad("old record + temp sibling is not the model's state after the open and |tmp| bytes", map[string]string{"record": c13Short(mrec), "tmp": c13Short(mtmp)})
		}
	}
}

// c13UnverifiedForkKeys: the keys of typed-map nodes of directory kind in the top-level record
// that are not legal file names AND are fork keys of a mapped call of this pipestance (a
// directory fork_<url-escaped key> exists): values collected from a `map call` over a map get
// their keys from the call's input, not from a verified stage output.
func c13UnverifiedForkKeys(mapped string, res *c13TARes, pre *c13J) []string {
	forkDirs := map[string]bool{}
	for p := range res.Before {
		if b := filepath.Base(p); strings.HasPrefix(b, "fork_") {
			forkDirs[b] = true
		}
	}
	found := map[string]bool{}
	var walk func(t *c13Ty, v *c13J)
	walk = func(t *c13Ty, v *c13J) {
		if v == nil || v.K == 'n' || !t.hasFile() {
			return
		}
		switch t.Kind {
		case "a":
			if v.K == 'A' {
				et := t.Elem
				if t.Extra > 0 {
					et = &c13Ty{Kind: "a", Elem: t.Elem, Extra: t.Extra - 1}
				}
				for _, x := range v.Arr {
					walk(et, x)
				}
			}
		case "m":
			if v.K == 'O' {
				for i, k := range v.Keys {
					if !c13LegalKey(k) && forkDirs["fork_"+url.PathEscape(k)] {
						found[k] = true
					}
					walk(t.Elem, v.Vals[i])
				}
			}
		case "t":
			if v.K == 'O' {
				for _, m := range t.Ms {
					walk(m.Ty, v.get(m.Id))
				}
			}
		}
	}
	c13ForEachRecord(mapped, pre, func(_ string, rec *c13J) {
		for _, p := range res.Params {
			walk(p.Ty, rec.get(p.Id))
		}
	})
	var ks []string
	for k := range found {
		ks = append(ks, k)
	}
	sort.Strings(ks)
	return ks
}
