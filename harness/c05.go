package main

// C05 — an interrupted pipestance resumes to the same result, not redoing
// finished work.   C06 — a failing job fails the pipestance, blocks only its
// dependents, is reported; restart re-executes only the failed work.

import (
	"fmt"
	"regexp"
	"sort"
	"strings"
)

func init() {
	register("C05", runC05)
	register("C06", runC06)
}

// relaunchedAfterDone: jobs that finished successfully in an earlier
// incarnation and were submitted again later.
func relaunchedAfterDone(events []TAEvent) []string {
	doneInc := map[string]int{}
	var bad []string
	for _, e := range events {
		switch e.Kind {
		case "finish":
			if e.Detail == "ok" {
				if _, ok := doneInc[e.Job]; !ok {
					doneInc[e.Job] = e.Inc
				}
			}
		case "launch":
			if inc, ok := doneInc[e.Job]; ok && e.Inc > inc {
				bad = append(bad, fmt.Sprintf("%s finished ok in incarnation %d and was executed again in incarnation %d (event %d)", e.Job, inc, e.Inc, e.Seq))
			}
		}
	}
	sort.Strings(bad)
	return bad
}

func runC05(c *Ctx) {
	r := c.Res
	r.Histogram = map[string]int{}
	defer func() {
		// Tier B: real mrp killed by real signals and restarted
		n := 1
		if c.Thorough {
			n = 3
		}
		if env, err := tbSetup(c); err != nil {
			r.note("tier B unavailable: %v", err)
		} else {
			c05MrjobSignalWhileRecording(c, env)
			tbC05(c, env, n)
		}
	}()
	c05SignalSequences(c)
	c05ClusterSubmitWindow(c)
	r.Rule = "signal sequences: an mrp-like helper process (SetupSignalHandlers, InvokePipeline) inside a critical section receives every sequence of one or two handled signals (TERM/INT/HUP), the second while the first waits for the critical section: it must terminate after the section ends with _lock removed; programs as for C02; for each program one uninterrupted reference run, then runs with mrp killed (SIGKILL semantics: object dropped, _lock removed by the operator, in-flight jobs die with a dead pid recorded, or survive with probability 0.3) before event k for k ranging over the reference history (quick: a PRNG sample of crash points per program + double crashes; thorough: every event index of histories up to 60 events, 60 evenly spread points of longer ones), restarted the way mrp restarts (Reattach with source check, Reset, RestartLocalJobs, LoadMetadata), every fourth single-crash run in Config.FullStageReset mode (there finished work of a Running/Failed node is redone by design and not reported); monitors: the restarted pipestance completes, its top-level outputs equal the reference run's, no job whose successful completion was recorded before the crash is executed again, _lock is gone after completion; every history (with crash/restart/reset events) is replayed in the Lean Sched model (`mode fullreset` for the FullStageReset runs) and must end in a model state in which every node is finished; non-trivial = crash happened while >=1 job was in flight or finished-but-unnoticed; distinct = (program, crash points, history) hash"
	n := 40
	perProg := 4
	if c.Thorough {
		n = 120
		perProg = 0 // all crash points (histories of up to 60 events; longer ones: 60 evenly spread points)
	}
	progs := rtPrograms(c, n/2, GenOpts{Preflight: true})
	progs = append(progs, rtProgramsGenOnly(c, n-n/2, GenOpts{Files: true, Retain: true})...)
	// reference runs
	var refSpecs []*TASpec
	for _, p := range progs {
		refSpecs = append(refSpecs, &TASpec{Name: p.Name + "#ref", Src: p.Src, MroPaths: p.MroPaths, Seed: c.Seed, StepBias: 0.4,
			StartSeparate: 0.3, WantEvents: true, TimeoutS: 30})
	}
	refs := RunSpecs(refSpecs, 14)
	type crashCase struct {
		prog *rtProgram
		ref  *TAResult
		spec *TASpec
	}
	var cases []crashCase
	var specs []*TASpec
	for i, p := range progs {
		ref := refs[i]
		r.hist("ref_final_" + finalClass(ref.Final))
		if ref.Final != "complete" {
			continue
		}
		ne := ref.NEvents
		var points [][]int
		if perProg == 0 {
			step := 1
			if ne > 60 {
				step = (ne + 59) / 60
			}
			for k := 1 + c.Rng.Intn(step); k < ne; k += step {
				points = append(points, []int{k})
			}
		} else {
			for j := 0; j < perProg; j++ {
				points = append(points, []int{1 + c.Rng.Intn(ne)})
			}
			a := 1 + c.Rng.Intn(ne)
			points = append(points, []int{a, a + 1 + c.Rng.Intn(10)})
		}
		// mrp killed during / right after post-processing (negative = PostProcessCrash mode)
		points = append(points, []int{-1}, []int{-2}, []int{-3})
		for pi, pt := range points {
			s := &TASpec{Name: fmt.Sprintf("%s#crash%v", p.Name, pt), Src: p.Src, MroPaths: p.MroPaths, Seed: c.Seed, StepBias: 0.4,
				StartSeparate: 0.3, CrashAt: pt, CrashSurvive: 0.3, WantEvents: true, WantTrace: true, TimeoutS: 40}
			if pt[0] < 0 {
				s.CrashAt, s.PostProcessCrash, s.WantTrace = nil, -pt[0], false
			} else if pi%4 == 3 {
				// Config.FullStageReset (MRO_FULLSTAGERESET): every node that was Running or Failed when
				// mrp re-attaches is wiped and redone (fullreset_restart_completes; model `mode fullreset`)
				s.FullReset = true
				// in-flight jobs die with mrp: a job that outlives mrp while its whole stage directory is
				// removed and the stage re-run is outside what this mode is meant for (local mode)
				s.CrashSurvive = 0
				s.Name += "#fullreset"
			}
			cases = append(cases, crashCase{p, ref, s})
			specs = append(specs, s)
		}
	}
	results := RunSpecs(specs, 14)
	for i, cs := range cases {
		res := confirmAlone(c, cs.spec, results[i])
		r.hist("final_" + finalKey(res.Final))
		if res.Final == "process-exit" || len(res.Events) == 0 {
			if res.Final == "process-exit" {
				r.violate(Violation{Kind: "property", Key: "C05:mrp-exits-after-restart",
					What:  "the restarted mrp terminated itself (process exit) instead of completing the pipestance",
					Input: map[string]interface{}{"program": cs.prog.Src, "crash_at": cs.spec.CrashAt, "seed": cs.spec.Seed}})
			}
			continue
		}
		crashed := false
		inflight := false
		for _, e := range res.Events {
			if e.Kind == "crash" {
				crashed = true
			}
			if e.Kind == "killed" {
				inflight = true
			}
		}
		r.count(cs.prog.Src+fmt.Sprint(cs.spec.CrashAt)+strings.Join(excerpt(res.Events, 400), ";"), crashed && inflight)
		if len(r.Samples) < 3 && crashed && inflight {
			r.sample(map[string]interface{}{"program": cs.prog.Name, "crash_at": cs.spec.CrashAt, "history": excerpt(res.Events, 40)})
		}
		if !crashed {
			r.hist("crash_point_after_end")
		}
		input := map[string]interface{}{"program": cs.prog.Src, "crash_at": cs.spec.CrashAt, "seed": cs.spec.Seed, "history": excerpt(res.Events, 250)}
		kp := "C05:" // key prefix: FullStageReset runs are a class of their own
		if cs.spec.FullReset {
			r.hist("fullreset_runs")
			input["mode"] = "FullStageReset"
			kp = "C05:fullreset:"
		}
		if res.Final != "complete" {
			r.violate(Violation{Kind: "property", Key: kp + "not-completed:" + finalKey(res.Final),
				What:  fmt.Sprintf("after kill+restart the pipestance ended %q (%s) although the uninterrupted run completes", finalClass(res.Final), firstLine(res.ErrMsg)),
				Input: input})
			continue
		}
		got, want := res.TopOuts, cs.ref.TopOuts
		if cs.spec.PostProcessCrash != 0 {
			// one file bound to several outputs is materialised once; which output's name the
			// copies point at depends on what the interrupted run had already moved: compare the
			// records modulo the location under outs/
			got, want = reOutsPath.ReplaceAll(got, []byte(`"$$OUTS"`)), reOutsPath.ReplaceAll(want, []byte(`"$$OUTS"`))
			if !jsonEqual(got, want) {
				r.hist("postprocess_crash_differs")
			} else if !jsonEqual(res.TopOuts, cs.ref.TopOuts) {
				r.hist("postprocess_crash_outs_location_differs_only")
			}
		}
		if !jsonEqual(got, want) {
			r.violate(Violation{Kind: "property", Key: kp + "outputs-differ",
				What:  "final outputs after kill+restart differ from the uninterrupted run",
				Input: input, Impl: string(res.TopOuts), Expect: string(cs.ref.TopOuts)})
		}
		if bad := relaunchedAfterDone(res.Events); len(bad) > 0 {
			if cs.spec.FullReset {
				// by design of that mode (negative witness fullreset_wipes_finished_work)
				r.hist("fullreset_redid_finished_work")
			} else {
				r.violate(Violation{Kind: "property", Key: "C05:finished-job-rerun",
					What:  "a job whose completion had been recorded was executed again after restart: " + bad[0],
					Input: input, Impl: bad})
			}
		}
		if res.LockLeft {
			r.violate(Violation{Kind: "property", Key: kp + "lock-left", What: "_lock still present after completion", Input: input})
		}
		if bad := monitorOrder(cs.prog, res.Events); len(bad) > 0 {
			r.violate(Violation{Kind: "property", Key: kp + "order-after-restart:" + classifyOrder(bad[0]),
				What: "after kill+restart a job started before something it depends on had finished: " + bad[0], Input: input, Impl: bad})
		}
		if cs.spec.FullReset && len(res.Trace) > 0 {
			// the model's FullStageReset semantics are selected by a header line before `start`
			tr := make([]string, 0, len(res.Trace)+1)
			for _, l := range res.Trace {
				if strings.TrimSpace(l) == "start" {
					tr = append(tr, "mode fullreset")
				}
				tr = append(tr, l)
			}
			res.Trace = tr
		}
		if ok, detail, done := replayInModel(c, res); done && !ok {
			key := "C05:sched-replay-reject:"
			if cs.spec.FullReset {
				key = "C05:sched-replay-reject-fullreset:"
			}
			r.violate(Violation{Kind: "correspondence", Key: key + classifyReject(detail),
				What:   "the Lean Sched model rejects a real crash/restart history: " + detail,
				Input:  map[string]interface{}{"program": cs.prog.Src, "crash_at": cs.spec.CrashAt, "seed": cs.spec.Seed, "fullreset": cs.spec.FullReset, "trace": res.Trace},
				Broken: "correspondence Sched.replay (restart semantics)"})
		} else if done {
			// restart_completes / fullreset_restart_completes conclude `Finished`: the model's end state of a
			// real interrupted run that completed must be one in which every node is finished
			end := schedEndNote(detail)
			cl := end
			if i := strings.Index(cl, ":"); i >= 0 {
				cl = cl[:i]
			}
			r.hist("model_end_" + cl)
			// decidable hypotheses of the C05 run theorems on this history: topo (⇒ Acyclic) must hold;
			// benign (no chunk count redefined while re-attaching) is the extra hypothesis of
			// restart_completes_same_completion_set_partial: histories without it are counted, not covered by it
			if v := schedHypNote(detail, "topo"); v == "no" {
				r.violate(Violation{Kind: "correspondence", Key: "C05:hypothesis-fails-on-real-run:topo",
					What:   "the graph of a real run is not topologically numbered (hypothesis Acyclic of restart_completes): " + detail,
					Input:  map[string]interface{}{"program": cs.prog.Src, "seed": cs.spec.Seed, "trace": res.Trace},
					Broken: "hypotheses of Props.C05.restart_completes hold on real runs"})
			}
			r.hist("hyp_benign_" + schedHypNote(detail, "benign"))
			// AliveInv (every submitted, unfinished job is alive: each job that died has been reset) is the
			// hypothesis of restart_completes about the state after the last interruption; the driver
			// evaluates its decidable form each time loading ends: it must hold on a real run that completed
			// (the real mrp resets every job that died).  A Finished end state must be quiescent.
			r.hist("hyp_alive_" + schedHypNote(detail, "alive"))
			r.hist("end_quiescent_" + schedHypNote(detail, "quiescent"))
			if schedHypNote(detail, "alive") == "no" {
				r.violate(Violation{Kind: "correspondence", Key: "C05:hypothesis-fails-on-real-run:alive",
					What:   "after re-attaching, a submitted unfinished job is dead and was not reset (hypothesis AliveInv of restart_completes), yet the real run completed: " + detail,
					Input:  map[string]interface{}{"program": cs.prog.Src, "crash_at": cs.spec.CrashAt, "seed": cs.spec.Seed, "fullreset": cs.spec.FullReset, "trace": res.Trace},
					Broken: "hypotheses of Props.C05.restart_completes hold on real runs"})
			}
			if end == "finished" && schedHypNote(detail, "quiescent") == "no" {
				r.violate(Violation{Kind: "correspondence", Key: "C05:finished-not-quiescent",
					What:   "the model's end state of a completed real run is Finished but some scheduler/job event is still enabled: " + detail,
					Input:  map[string]interface{}{"program": cs.prog.Src, "crash_at": cs.spec.CrashAt, "seed": cs.spec.Seed, "fullreset": cs.spec.FullReset, "trace": res.Trace},
					Broken: "the end of a completed real run is a maximal run of the model (hypothesis of Props.C03.maximal_run_complete)"})
			}
			if end != "finished" {
				r.violate(Violation{Kind: "correspondence", Key: "C05:model-not-finished:" + cl,
					What:   "the restarted pipestance completed but the model's end state is not finished: " + detail,
					Input:  map[string]interface{}{"program": cs.prog.Src, "crash_at": cs.spec.CrashAt, "seed": cs.spec.Seed, "fullreset": cs.spec.FullReset, "trace": res.Trace},
					Broken: "Finished (Props.C05.restart_completes) corresponds to Pipestance complete"})
			}
		}
	}
}

var reOutsPath = regexp.MustCompile(`"\$PS/outs/[^"]*"`)

func firstLine(s string) string {
	if i := strings.IndexByte(s, '\n'); i >= 0 {
		s = s[:i]
	}
	if len(s) > 300 {
		s = s[:300]
	}
	return s
}

var faultKinds = []string{"errors", "assert", "exit", "badouts", "nullouts", "missingkey", "wrongtype", "badstagedefs"}

func runC06(c *Ctx) {
	r := c.Res
	r.Histogram = map[string]int{}
	defer func() {
		// Tier B: real exit codes / signals / error pipes through mrjob and the local job manager
		n := 1
		if c.Thorough {
			n = 8
		}
		if env, err := tbSetup(c); err != nil {
			r.note("tier B unavailable: %v", err)
		} else {
			tbC06(c, env, n)
		}
	}()
	r.Rule = "programs as for C02; reference run gives the job list; then fault enumeration: for each (job, manifestation) — quick: a PRNG sample, thorough: all — with manifestation in {_errors, _assert, silent non-zero exit (job manager writes _errors), job lost without a trace in cluster mode (a job manager with a queue query; the lost job alone in flight or not), job that sent a heartbeat and then died without a trace in local mode (heartbeat timeout in simulated time), truncated _outs, _outs = null, missing output key, wrong JSON type, bad _stage_defs (split jobs)}: the pipestance must end failed (never complete), the reported error must name the failing stage, no job of a call that depends on the failed call (source-level dependency oracle) may be submitted after the failure, and after restart without the fault it must complete with the reference outputs re-executing only unfinished work; every history is replayed in the Lean Sched model; non-trivial = the failing job has >=1 dependent call or >=1 independent sibling; distinct = (program, job, kind)"
	n := 40
	perProg := 6
	if c.Thorough {
		n = 64 // (100 took > 10 min on a loaded machine)
		perProg = 0
	}
	progs := rtPrograms(c, n/2, GenOpts{})
	progs = append(progs, rtProgramsGenOnly(c, n-n/2, GenOpts{Preflight: true})...)
	var refSpecs []*TASpec
	for _, p := range progs {
		refSpecs = append(refSpecs, &TASpec{Name: p.Name + "#ref", Src: p.Src, MroPaths: p.MroPaths, Seed: c.Seed, StepBias: 0.4,
			StartSeparate: 0.3, WantEvents: true, TimeoutS: 30})
	}
	refs := RunSpecs(refSpecs, 14)
	type faultCase struct {
		prog *rtProgram
		ref  *TAResult
		job  string
		kind string
		spec *TASpec
	}
	var cases []faultCase
	var specs []*TASpec
	faultClassCount := map[string]int{}
	for i, p := range progs {
		ref := refs[i]
		r.hist("ref_final_" + finalClass(ref.Final))
		if ref.Final != "complete" {
			continue
		}
		var jobs []string
		for k := range ref.Launches {
			jobs = append(jobs, k)
		}
		sort.Strings(jobs)
		type jk struct{ j, k string }
		var all []jk
		for _, j := range jobs {
			for _, k := range faultKinds {
				if k == "badstagedefs" && !strings.HasSuffix(j, ".split") {
					continue
				}
				if (k == "badouts" || k == "nullouts" || k == "missingkey" || k == "wrongtype") && strings.HasSuffix(j, ".split") {
					continue
				}
				if (k == "badouts" || k == "nullouts" || k == "missingkey" || k == "wrongtype") && p.Deps.NoOuts[nodePathOfJob(j[:strings.LastIndex(j, ".")])] {
					// a stage without output parameters has no outputs to be missing, unparseable or
					// ill-typed (mrp never reads its _outs)
					continue
				}
				all = append(all, jk{j, k})
			}
		}
		if perProg > 0 && len(all) > perProg {
			c.Rng.Shuffle(len(all), func(a, b int) { all[a], all[b] = all[b], all[a] })
			// a failing preflight call blocks everything else of its pipeline, nested pipelines included:
			// always keep two of those
			sort.SliceStable(all, func(a, b int) bool {
				pa := p.Deps.Preflight[nodePathOfJob(all[a].j[:strings.LastIndex(all[a].j, ".")])]
				pb := p.Deps.Preflight[nodePathOfJob(all[b].j[:strings.LastIndex(all[b].j, ".")])]
				return pa && !pb
			})
			npf := 0
			for npf < len(all) && npf < 2 && p.Deps.Preflight[nodePathOfJob(all[npf].j[:strings.LastIndex(all[npf].j, ".")])] {
				npf++
			}
			rest := all[npf:]
			c.Rng.Shuffle(len(rest), func(a, b int) { rest[a], rest[b] = rest[b], rest[a] })
			// stratified: prefer (phase, fork shape, manifestation) classes that have been injected least so far
			forksOf := map[string]int{}
			for _, j := range jobs {
				if strings.HasSuffix(j, ".split") || strings.HasSuffix(j, ".chnk0.main") || strings.HasSuffix(j, ".chnk00.main") {
					forksOf[nodePathOfJob(j[:strings.LastIndex(j, ".")])]++
				}
			}
			classOf := func(x jk) string {
				phase := x.j[strings.LastIndex(x.j, ".")+1:]
				fq := x.j
				shape := "single"
				if i := strings.Index(fq, ".fork"); i >= 0 {
					f := fq[i+1:]
					if k := strings.Index(f, "."); k >= 0 {
						f = f[:k]
					}
					switch {
					case strings.ContainsAny(f[4:], "_/") && strings.Contains(f[4:], "fork"):
						shape = "nested"
					case forksOf[nodePathOfJob(fq[:strings.LastIndex(fq, ".")])] > 1 && (f == "fork0" || f == "fork00"):
						shape = "first-of-many"
					case forksOf[nodePathOfJob(fq[:strings.LastIndex(fq, ".")])] > 1:
						shape = "other-of-many"
					}
				}
				return phase + "|" + shape + "|" + x.k
			}
			sort.SliceStable(rest, func(a, b int) bool { return faultClassCount[classOf(rest[a])] < faultClassCount[classOf(rest[b])] })
			for i := range rest {
				if npf+i >= perProg {
					break
				}
				// re-sort lazily: count as we take
				faultClassCount[classOf(rest[i])]++
			}
			all = all[:perProg]
			if npf > 0 {
				r.hist("fault_on_preflight_programs")
			}
		}
		// cluster-mode stream: a job that vanishes without leaving any file (killed in the scheduler's queue,
		// node lost); only the queue query (Pipestance.queryQueue -> failNotRunning -> endRefresh) can fail it.
		// The lost job is alone in flight or not, as the program and the schedule have it.
		nlost := 1
		if perProg == 0 {
			nlost = 4
		}
		for _, ji := range c.Rng.Perm(len(jobs)) {
			if nlost == 0 {
				break
			}
			nlost--
			all = append(all, jk{jobs[ji], "lost"})
		}
		// local mode: a job that started, sent a heartbeat and then died without a trace is only noticed by
		// the heartbeat timeout (60 minutes, simulated: TASpec.AgeHeartbeats)
		if len(jobs) > 0 {
			all = append(all, jk{jobs[c.Rng.Intn(len(jobs))], "hang"})
		}
		for _, x := range all {
			s := &TASpec{Name: fmt.Sprintf("%s#fault:%s:%s", p.Name, x.j, x.k), Src: p.Src, MroPaths: p.MroPaths, Seed: c.Seed, StepBias: 0.4,
				StartSeparate: 0.3, Faults: []*Fault{{JobKey: x.j, Kind: x.k}}, RestartAfterFail: true,
				WantEvents: true, WantTrace: true, TimeoutS: 40, Cluster: x.k == "lost", AgeHeartbeats: x.k == "hang"}
			cases = append(cases, faultCase{p, ref, x.j, x.k, s})
			specs = append(specs, s)
		}
	}
	results := RunSpecs(specs, 14)
	for i, cs := range cases {
		res := confirmAlone(c, cs.spec, results[i])
		r.hist("final_" + finalKey(res.Final))
		r.hist("kind_" + cs.kind)
		if len(res.Events) == 0 {
			continue
		}
		failedNode := nodePathOfJob(cs.job[:strings.LastIndex(cs.job, ".")])
		// dependents of the failed call.  Blocking does not propagate THROUGH a call that runs nothing
		// (disabled, or mapped over a null / empty collection: such a node is finished from the start),
		// so the closure only passes through calls that launched jobs in the reference run.
		ranInRef := map[string]bool{}
		for k := range cs.ref.Launches {
			ranInRef[nodePathOfJob(k[:strings.LastIndex(k, ".")])] = true
		}
		dependents := map[string]bool{}
		for changed := true; changed; {
			changed = false
			for n, deps := range cs.prog.Deps.Deps {
				if dependents[n] {
					continue
				}
				for d := range deps {
					if d == failedNode || (dependents[d] && ranInRef[d]) {
						dependents[n] = true
						changed = true
					}
				}
			}
		}
		r.count(cs.prog.Src+"|"+cs.job+"|"+cs.kind, len(dependents) > 0 || len(cs.prog.Deps.Stages) > 1)
		if len(r.Samples) < 3 {
			r.sample(map[string]interface{}{"program": cs.prog.Name, "fault": cs.job + ":" + cs.kind, "fail_msgs": res.FailMsgs, "final": res.Final})
		}
		input := map[string]interface{}{"program": cs.prog.Src, "fault_job": cs.job, "fault_kind": cs.kind, "seed": cs.spec.Seed, "history": excerpt(res.Events, 250)}
		// 1. the injected fault must have failed the pipestance (in the first incarnation)
		faultFired := false
		failSeq, restartSeq := -1, -1
		for _, e := range res.Events {
			if e.Kind == "finish" && e.Job == cs.job && (strings.HasPrefix(e.Detail, "fail:") || strings.HasPrefix(e.Detail, "bad:")) && !faultFired {
				faultFired = true
				failSeq = e.Seq
			}
			if e.Kind == "restart" && restartSeq < 0 {
				restartSeq = e.Seq
			}
		}
		if !faultFired {
			r.hist("fault_not_reached")
			continue
		}
		if len(res.FailMsgs) == 0 {
			r.violate(Violation{Kind: "property", Key: "C06:not-failed:" + cs.kind,
				What:  fmt.Sprintf("job %s failed (%s) but the pipestance never reported failure (final %s)", cs.job, cs.kind, finalClass(res.Final)),
				Input: input})
			continue
		}
		// 2. error names the failing stage
		stage := failedNode[strings.LastIndex(failedNode, ".")+1:]
		if !strings.Contains(res.FailMsgs[0], stage) {
			r.violate(Violation{Kind: "property", Key: "C06:error-does-not-name-stage:" + cs.kind,
				What:  fmt.Sprintf("reported error does not name the failing stage %s: %s", stage, firstLine(res.FailMsgs[0])),
				Input: input})
		}
		// 3. dependents never started between the failure and the restart
		for _, e := range res.Events {
			if e.Kind == "launch" && e.Seq > failSeq && (restartSeq < 0 || e.Seq < restartSeq) {
				if dependents[nodePathOfJob(e.Job[:strings.LastIndex(e.Job, ".")])] {
					r.violate(Violation{Kind: "property", Key: "C06:dependent-started",
						What:  fmt.Sprintf("%s depends on the failed call %s but was started after the failure (event %d)", e.Job, failedNode, e.Seq),
						Input: input})
				}
			}
		}
		if bad := monitorOrder(cs.prog, res.Events); len(bad) > 0 {
			r.violate(Violation{Kind: "property", Key: "C06:order-after-failure:" + classifyOrder(bad[0]),
				What: "in a run with a failure and a restart a job started before something it depends on had finished: " + bad[0], Input: input, Impl: bad})
		}
		// 4. after restart without the fault: completes with the reference outputs, only unfinished work re-executed
		if res.Final != "complete" {
			r.violate(Violation{Kind: "property", Key: "C06:restart-not-complete:" + cs.kind + ":" + finalKey(res.Final),
				What:  fmt.Sprintf("after removing the fault and restarting, the pipestance ended %q (%s)", finalClass(res.Final), firstLine(res.ErrMsg)),
				Input: input})
		} else {
			if !jsonEqual(res.TopOuts, cs.ref.TopOuts) {
				r.violate(Violation{Kind: "property", Key: "C06:restart-outputs-differ:" + cs.kind,
					What: "outputs after fault+restart differ from the fault-free run", Input: input,
					Impl: string(res.TopOuts), Expect: string(cs.ref.TopOuts)})
			}
			if bad := relaunchedAfterDone(res.Events); len(bad) > 0 {
				r.violate(Violation{Kind: "property", Key: "C06:finished-job-rerun:" + cs.kind,
					What: "restart re-executed work that had finished: " + bad[0], Input: input, Impl: bad})
			}
		}
		for _, l := range res.Trace {
			if strings.HasPrefix(l, "fatal ") {
				// Node.getFatalError's answer, compared by the driver with the model's fatalError
				r.hist("getFatalError_compared_with_model")
				f := strings.Fields(l)
				if len(f) == 5 {
					r.hist("fatal_" + strings.SplitN(f[3], ":", 2)[0] + "_" + f[4])
				}
			}
		}
		ok, detail, done := replayInModel(c, res)
		if done && ok && strings.Contains(detail, "note=reopened-finished-node") {
			// the `…_partial` transitive theorems (hypothesis reopened = false) do not cover this history
			r.hist("histories_with_reopened_node")
		}
		if done && !ok {
			r.violate(Violation{Kind: "correspondence", Key: "C06:sched-replay-reject:" + classifyReject(detail),
				What:   "the Lean Sched model rejects a real failure history: " + detail,
				Input:  map[string]interface{}{"program": cs.prog.Src, "fault": cs.job + ":" + cs.kind, "seed": cs.spec.Seed, "trace": res.Trace},
				Broken: "correspondence Sched.replay (failure semantics)"})
		}
	}
}
