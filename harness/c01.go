package main

// C01 — stage arguments and pipeline outputs equal the MRO dataflow semantics.
//
// Tie between the real run-time (martian/core resolver, fork expansion, chunk
// argument merging, join inputs) and the Lean specification `den`
// (lean/Martian/Dataflow.lean), translation-validation style: every Tier-A run
// of a program is sent — program translated from the compiled source-level
// AST, recorded stage outputs, observed `_args` of every job, observed
// `_chunk_defs`/`_chunk_outs` of every join, observed top-level `_outs` — to
// the driver op `C01.check`, which evaluates `den` over the recorded stage
// outputs and answers `ok` or the differences.

import (
	"encoding/json"
	"fmt"
	"math/rand"
	"os"
	"path/filepath"
	"regexp"
	"sort"
	"strconv"
	"strings"
	"time"
)

func init() { register("C01", runC01) }

type c01Case struct {
	name   string
	src    string
	corpus bool
	stats  map[string]int
	specs  []int // indices into the spec list
}

var c01ChunkRe = regexp.MustCompile(`\.chnk(\d+)$`)

func c01StripUnder(v interface{}) interface{} {
	m, ok := v.(map[string]interface{})
	if !ok {
		return v
	}
	o := make(map[string]interface{}, len(m))
	for k, x := range m {
		if !strings.HasPrefix(k, "__") {
			o[k] = x
		}
	}
	return o
}

func c01JVof(v interface{}) string {
	var sb strings.Builder
	c01JV(&sb, v)
	return sb.String()
}

// c01Obs renders the observations of one completed run.  It returns the
// encoding and a list of anomalies (things that prevent the comparison).
func c01Obs(res *C01RunResult) (string, []string) {
	var anomalies []string
	type forkJobs struct {
		split, join *c01Job
		chunks      map[int]*c01Job
	}
	byFork := map[string]*forkJobs{}
	var forkOrder []string
	for _, j := range res.Jobs {
		ff := j.Fqname
		ci := -1
		if m := c01ChunkRe.FindStringSubmatch(ff); m != nil {
			ci, _ = strconv.Atoi(m[1]) // zero padded ("chnk08"): not Sscan, which reads a leading 0 as octal
			ff = ff[:len(ff)-len(m[0])]
		}
		fj := byFork[ff]
		if fj == nil {
			fj = &forkJobs{chunks: map[int]*c01Job{}}
			byFork[ff] = fj
			forkOrder = append(forkOrder, ff)
		}
		switch j.Shell {
		case "split":
			fj.split = j
		case "join":
			fj.join = j
		default:
			fj.chunks[ci] = j
		}
	}
	keyOf := func(ff string) (string, bool) {
		f, ok := res.Forks[ff]
		if !ok {
			// the fork was renamed after this job had been launched under its name
			for k := range res.Forks {
				if strings.HasPrefix(k, ff+"_") {
					anomalies = append(anomalies, "fork-reexpanded-after-launch: a job ran as "+ff+
						" but the fork table only has "+k+" …: the fork was expanded again after its job had been launched")
					return "", false
				}
			}
			anomalies = append(anomalies, "job of unknown fork "+ff)
			return "", false
		}
		parts := strings.Split(f.Node, ".")
		if len(parts) < 3 {
			anomalies = append(anomalies, "odd node name "+f.Node)
			return "", false
		}
		var sb strings.Builder
		sb.WriteString("(path " + strings.Join(parts[2:], " ") + ") (forks")
		for _, p := range f.Parts {
			switch p.Kind {
			case "array":
				fmt.Fprintf(&sb, " (f %s (i %d))", p.CallId, p.Index)
			case "map":
				fmt.Fprintf(&sb, " (f %s (k %s))", p.CallId, c01hx(p.Key))
			case "unknown":
				// an undetermined part: only legitimate below a mapped call over an
				// empty collection (den's "no element" placeholder matches it)
				fmt.Fprintf(&sb, " (f %s (u))", p.CallId)
			default:
				anomalies = append(anomalies, fmt.Sprintf("job launched for fork %s with %s fork part", ff, p.Kind))
				return "", false
			}
		}
		sb.WriteString(")")
		return sb.String(), true
	}
	dec := func(raw json.RawMessage, what string) (interface{}, bool) {
		if len(raw) == 0 {
			anomalies = append(anomalies, "missing "+what)
			return nil, false
		}
		v, err := c01DecodeJSON(raw)
		if err != nil {
			anomalies = append(anomalies, "undecodable "+what)
			return nil, false
		}
		return v, true
	}
	var outs, jobs, joins strings.Builder
	for _, ff := range forkOrder {
		fj := byFork[ff]
		key, ok := keyOf(ff)
		if !ok {
			continue
		}
		stageJob := func(j *c01Job) {
			if v, ok := dec(j.Args, "_args of "+j.Key); ok {
				fmt.Fprintf(&jobs, " (job %s stage %s %s)", c01hx(j.Key), key, c01JVof(c01StripUnder(v)))
			}
		}
		if fj.split == nil {
			// non-splitting stage: its single chunk job is the stage invocation
			j := fj.chunks[0]
			if j == nil || len(fj.chunks) != 1 || fj.join != nil {
				anomalies = append(anomalies, "unexpected job set for fork "+ff)
				continue
			}
			stageJob(j)
			if v, ok := dec(j.Outs, "outs of "+j.Key); ok {
				fmt.Fprintf(&outs, " (inst %s %s)", key, c01JVof(v))
			}
			continue
		}
		stageJob(fj.split)
		var defs []interface{}
		if v, ok := dec(fj.split.Outs, "stage defs of "+fj.split.Key); ok {
			if m, ok := v.(map[string]interface{}); ok {
				defs, _ = m["chunks"].([]interface{})
			}
		}
		var defsJV, coutsJV []string
		for i, d := range defs {
			sd := c01StripUnder(d)
			defsJV = append(defsJV, c01JVof(sd))
			cj := fj.chunks[i]
			if cj == nil {
				anomalies = append(anomalies, fmt.Sprintf("chunk %d of %s never launched", i, ff))
				continue
			}
			if v, ok := dec(cj.Args, "_args of "+cj.Key); ok {
				fmt.Fprintf(&jobs, " (job %s chunk %s %s %s)", c01hx(cj.Key), key, c01JVof(c01StripUnder(v)), c01JVof(sd))
			}
			if v, ok := dec(cj.Outs, "outs of "+cj.Key); ok {
				coutsJV = append(coutsJV, c01JVof(v))
			}
		}
		if len(fj.chunks) > len(defs) {
			anomalies = append(anomalies, fmt.Sprintf("%d chunk jobs for %d chunk defs in %s", len(fj.chunks), len(defs), ff))
		}
		if fj.join == nil {
			anomalies = append(anomalies, "no join for splitting fork "+ff)
			continue
		}
		stageJob(fj.join)
		if v, ok := dec(fj.join.Outs, "outs of "+fj.join.Key); ok {
			fmt.Fprintf(&outs, " (inst %s %s)", key, c01JVof(v))
		}
		od, ok1 := dec(fj.join.ChunkDefs, "_chunk_defs of "+fj.join.Key)
		oo, ok2 := dec(fj.join.ChunkOuts, "_chunk_outs of "+fj.join.Key)
		if ok1 && ok2 {
			if l, ok := od.([]interface{}); ok {
				for i := range l {
					l[i] = c01StripUnder(l[i])
				}
			}
			fmt.Fprintf(&joins, " (join %s %s (l %s) %s (l %s))", c01hx(fj.join.Key), c01JVof(od),
				strings.Join(defsJV, " "), c01JVof(oo), strings.Join(coutsJV, " "))
		}
	}
	top := "n"
	if v, ok := dec(res.TopOuts, "top-level _outs"); ok {
		top = c01JVof(v)
	}
	return "(obs (outs" + outs.String() + ") (jobs" + jobs.String() + ") (joins" + joins.String() + ") (top " + top + ") (skip " + strings.Join(res.TopSkip, " ") + "))", anomalies
}

type c01Diff struct {
	Class, Where, Param, Expected, Observed string
}

func c01ParseReply(reply string) (bool, []c01Diff, string) {
	if strings.HasPrefix(reply, "ok") {
		return true, nil, ""
	}
	if strings.HasPrefix(reply, "skip ") {
		// outside the domain of den (e.g. split collections of different sizes)
		return false, nil, reply
	}
	if !strings.HasPrefix(reply, "diff\t") {
		return false, nil, reply
	}
	var ds []c01Diff
	for _, rec := range strings.Split(reply, "\t")[1:] {
		f := strings.Split(rec, "\x1f")
		if len(f) != 5 {
			return false, nil, reply
		}
		ds = append(ds, c01Diff{f[0], f[1], f[2], f[3], f[4]})
	}
	return false, ds, ""
}

// ---- F14 classification: the only difference is k-fold duplication of rows ----

func c01ParseRendered(s string) (interface{}, bool) {
	s = strings.ReplaceAll(s, "/*disabled-or-empty*/", "")
	v, err := c01DecodeJSON([]byte(s))
	return v, err == nil
}

// dupEq: o equals e up to k-fold consecutive duplication of array rows; *dup is
// set when a duplication was needed.
func c01DupEq(e, o interface{}, dup *bool) bool {
	switch et := e.(type) {
	case []interface{}:
		ot, ok := o.([]interface{})
		if !ok {
			return false
		}
		if len(et) == len(ot) {
			for i := range et {
				if !c01DupEq(et[i], ot[i], dup) {
					return false
				}
			}
			return true
		}
		if len(et) == 0 || len(ot)%len(et) != 0 || len(ot) < 2*len(et) {
			return false
		}
		k := len(ot) / len(et)
		for i := range et {
			for j := 0; j < k; j++ {
				if !c01DupEq(et[i], ot[i*k+j], dup) {
					return false
				}
			}
		}
		*dup = true
		return true
	case map[string]interface{}:
		ot, ok := o.(map[string]interface{})
		if !ok || len(ot) != len(et) {
			return false
		}
		for k, x := range et {
			y, ok := ot[k]
			if !ok || !c01DupEq(x, y, dup) {
				return false
			}
		}
		return true
	default:
		return fmt.Sprint(e) == fmt.Sprint(o)
	}
}

func c01IsRowDup(d c01Diff) bool {
	if d.Class != "top-outs" && d.Class != "args" && d.Class != "chunk-args" {
		return false
	}
	e, ok1 := c01ParseRendered(d.Expected)
	o, ok2 := c01ParseRendered(d.Observed)
	if !ok1 || !ok2 {
		return false
	}
	dup := false
	return c01DupEq(e, o, &dup) && dup
}

func c01Shape(src string) string {
	var tags []string
	if strings.Contains(src, "map call ") {
		tags = append(tags, "map")
	}
	if strings.Contains(src, "disabled") {
		tags = append(tags, "disabled")
	}
	if len(tags) == 0 {
		return "plain"
	}
	return strings.Join(tags, "+")
}

func c01KeyFor(ds []c01Diff, src string) string {
	all := len(ds) > 0
	for _, d := range ds {
		if !c01IsRowDup(d) {
			all = false
		}
	}
	if all {
		return "C01:F14-merge-duplicates-outer-rows"
	}
	allExtra := len(ds) > 0
	for _, d := range ds {
		if !c01IsExtraAtUntypedMap(d, src) {
			allExtra = false
		}
	}
	if allExtra {
		return "C01:F38-extra-members-at-untyped-map-after-narrowing"
	}
	if ds[0].Class == "forks-under-empty-map" {
		// several forks of a stage ran below a mapped call over an empty / null collection
		return "C01:F33-inner-forks-under-null-outer-element"
	}
	if strings.HasPrefix(ds[0].Class, "chunk-") {
		return "C01:" + ds[0].Class
	}
	return "C01:" + ds[0].Class + ":" + c01Shape(src)
}

// ---- the runner ----

func c01Schedules(seed int64, i int) []TASpec {
	return []TASpec{
		{Seed: seed*7919 + int64(i)*3 + 1, StepBias: 0.4, StartSeparate: 0.3},
		{Seed: seed*7919 + int64(i)*3 + 2, StepBias: 0.15, StartSeparate: 0.1, Adversarial: true},
		{Seed: seed*7919 + int64(i)*3 + 3, StepBias: 0.5, InlineFinish: 0.6},
	}
}

func c01ReadCorpus(dir string) []c01Case {
	var out []c01Case
	files, _ := filepath.Glob(filepath.Join(dir, "*.mro"))
	sort.Strings(files)
	for _, f := range files {
		b, err := os.ReadFile(f)
		if err != nil {
			continue
		}
		out = append(out, c01Case{name: filepath.Base(filepath.Dir(f)) + "/" + filepath.Base(f), src: string(b), corpus: true})
	}
	return out
}

// c01Check sends one completed run to the driver.
func c01Check(c *Ctx, res *C01RunResult) (ok bool, ds []c01Diff, anomalies []string, bad string) {
	obs, anomalies := c01Obs(res)
	if len(anomalies) > 0 {
		return false, nil, anomalies, ""
	}
	reply := c.Drv.Ask("C01.check", res.Program, obs)
	ok, ds, bad = c01ParseReply(reply)
	return ok, ds, nil, bad
}

func runC01(c *Ctx) {
	r := c.Res
	r.Rule = "program with >=1 map call or disabled binding, >=2 jobs, run to completion; distinct by (program, order in which jobs finished)"
	start := time.Now()
	nGen, nSched := 120, 2
	if c.Thorough {
		nGen, nSched = 1200, 3
	}
	if v := os.Getenv("C01_NGEN"); v != "" {
		fmt.Sscan(v, &nGen)
	}
	parallel := 14

	c01KernelDiff(c)
	cases := c01ReadCorpus(c.Corpus)
	cases = append(cases, c01ReadCorpus(filepath.Join(filepath.Dir(c.Corpus), "tiera"))...)
	nCorpus := len(cases)
	cases = append(cases, c01Families(c.Rng, c.Thorough)...)
	// own generator: the narrowing / shared-path / same-stage-control families must not shift
	// the random stream of the generated programs below
	cases = append(cases, c01NarrowFamilies(rand.New(rand.NewSource(c.Seed*104729+17)), c.Thorough)...)
	cases = append(cases, c01MapStaticFamily(rand.New(rand.NewSource(c.Seed*104729+23)), c.Thorough)...)
	cases = append(cases, c01AliasTwiceFamily(rand.New(rand.NewSource(c.Seed*104729+29)), c.Thorough)...)
	cases = append(cases, c01UntypedMapFamily(rand.New(rand.NewSource(c.Seed*104729+31)), c.Thorough)...)
	cases = append(cases, c01NullCtlFamily(rand.New(rand.NewSource(c.Seed*104729+37)), c.Thorough)...)
	optsList := []GenOpts{
		{},
		{MaxDepth: 3, MaxCalls: 3},
		{MaxDepth: 1, MaxCalls: 5},
		{NoDisable: true, MaxDepth: 2},
		{Files: true},
		{MaxDepth: 2, MaxCalls: 2},
	}
	for i := 0; i < nGen; i++ {
		o := optsList[i%len(optsList)]
		src, st := GenProgram(c.Rng, o)
		cases = append(cases, c01Case{name: fmt.Sprintf("gen%d", i), src: src, stats: st})
	}
	// plain programs (no map call, no `disabled`): the fragment on which the two-phase
	// resolver model is PROVED to refine den; run under Tier A for the run-time tie
	nPlain, nStaticOnly := 30, 300
	if c.Thorough {
		nPlain, nStaticOnly = 150, 4000
	}
	for i := 0; i < nPlain; i++ {
		src, st := GenProgram(c.Rng, GenOpts{NoMap: true, NoDisable: true, MaxDepth: 1 + i%3, MaxCalls: 2 + i%4})
		cases = append(cases, c01Case{name: fmt.Sprintf("plain%d", i), src: src, stats: st})
	}
	var specs []*TASpec
	for ci := range cases {
		scheds := c01Schedules(c.Seed, ci)
		n := nSched
		if cases[ci].corpus {
			n = 3
		} else if strings.HasPrefix(cases[ci].name, "plain") && !c.Thorough {
			n = 1 // the plain stream is there for the model tie, not for schedule coverage
		}
		for si := 0; si < n; si++ {
			s := scheds[si]
			s.Name = fmt.Sprintf("%s#%d", cases[ci].name, si)
			s.Src = cases[ci].src
			s.TimeoutS = 12
			cases[ci].specs = append(cases[ci].specs, len(specs))
			sp := s
			specs = append(specs, &sp)
		}
	}
	results := c01RunSpecs(specs, parallel)
	r.note("tier-A runs: %d programs (%d corpus) x schedules = %d runs in %.1fs", len(cases), nCorpus, len(specs), time.Since(start).Seconds())

	shrinks := 0
	var shrinker *c01Worker
	defer func() { shrinker.stop() }()
	reported := map[string]int{}
	for ci := range cases {
		cs := &cases[ci]
		var firstOK *C01RunResult
		compiled := true
		for _, si := range cs.specs {
			res := results[si]
			final := res.Final
			switch {
			case strings.HasPrefix(final, "panic"):
				final = "panic"
			case strings.HasPrefix(final, "error"):
				final = "error"
			}
			r.hist("final:" + final)
			if strings.HasPrefix(cs.name, "family/narrow-") || strings.HasPrefix(cs.name, "family/disabled-same-stage") ||
				strings.HasPrefix(cs.name, "family/map-") || strings.HasPrefix(cs.name, "family/alias-twice") ||
				strings.HasPrefix(cs.name, "family/untyped-map") || strings.HasPrefix(cs.name, "family/null-control") {
				cls := strings.Join(strings.SplitN(strings.TrimPrefix(cs.name, "family/"), "-", 3)[:2], "-")
				r.hist("family:" + cls + ":" + final)
				if final != "complete" && si == cs.specs[0] {
					r.note("family program %s: %s %s", cs.name, res.Final, c01Trunc(res.Compile+res.ErrMsg, 300))
				}
			}
			if cs.corpus && res.Final != "complete" && si == cs.specs[0] {
				r.note("corpus program %s: %s %s", cs.name, res.Final, c01Trunc(res.Compile+res.ErrMsg, 160))
			}
			if res.Final == "compile-error" {
				compiled = false
				continue
			}
			if res.Final != "complete" {
				// (not checkable: crashes / stalls of the real run-time are other properties' findings) —
				// except in the alias family: every program of it is well typed, all its stages are
				// fakes that succeed, so a fork that cannot resolve its arguments IS a C01 defect
				// (no argument record at all where den has one)
				if strings.HasPrefix(cs.name, "family/null-control") && finalClass(res.Final) == "failed" &&
					strings.Contains(res.ErrMsg, "disabled is bound to a null value") && reported["nullctl-fail"] < 2 {
					reported["nullctl-fail"]++
					r.violate(Violation{Kind: "property", Key: "C01:null-control:projection-of-null-fails-the-fork",
						What: "a `disabled` control that is a member projected from a null struct value: den reads it as null = not disabled and runs the call, the real fork fails: " +
							c01Trunc(classifyRuntimeError(res.Final, res.ErrMsg), 200),
						Input: map[string]interface{}{"program": cs.src, "name": specs[si].Name,
							"replay": "write program to f.mro; TA_MRO=f.mro harness TA"},
						Broken: "den / evalRT (.disabled: isTrue null = false) vs core.Fork.disabled"})
				}
				if strings.HasPrefix(cs.name, "family/alias-twice") && finalClass(res.Final) == "failed" &&
					strings.Contains(res.ErrMsg, "Error resolving input argument bindings") && reported["alias-fail"] < 2 {
					reported["alias-fail"]++
					r.violate(Violation{Kind: "property", Key: "C01:alias-twice:arguments-not-resolved",
						What: "a fork of a map call inside a sub-pipeline that is instantiated twice under aliases cannot resolve its arguments (den defines them): " +
							c01Trunc(classifyRuntimeError(res.Final, res.ErrMsg), 200),
						Input: map[string]interface{}{"program": cs.src, "name": specs[si].Name,
							"replay": "write program to f.mro; TA_MRO=f.mro harness TA"},
						Broken: "resolver_refines_den (core.TopNode.resolveMerge: the fork part of the shared call statement)"})
				}
				continue
			}
			if res.Unsupp != "" {
				r.hist("skipped:" + res.Unsupp)
				continue
			}
			if res.Relaunch > 0 {
				r.hist("skipped:job launched twice")
				continue
			}
			ok, ds, anomalies, bad := c01Check(c, res)
			nontrivial := (strings.Contains(cs.src, "map call ") || strings.Contains(cs.src, "disabled")) && len(res.Jobs) >= 2
			r.count(fmt.Sprintf("%s|%d", cs.src, res.SchedHash), nontrivial)
			r.hist(fmt.Sprintf("jobs:%s", c01Bucket(len(res.Jobs))))
			if strings.HasPrefix(bad, "skip ") {
				r.hist("skipped:" + strings.SplitN(bad, " ", 3)[1] + " (outside the domain: split collections disagree)")
				continue
			}
			if bad != "" {
				r.hist("driver:bad-reply")
				r.violate(Violation{Kind: "correspondence", Key: "C01:driver-bad-reply",
					What:   "the Lean driver could not evaluate the run: " + c01Trunc(bad, 200),
					Input:  map[string]interface{}{"program": cs.src, "name": specs[si].Name},
					Broken: "C01.check"})
				continue
			}
			if len(anomalies) > 0 {
				r.hist("anomaly")
				key := "C01:anomaly:" + strings.SplitN(anomalies[0], " ", 3)[0]
				kind := "correspondence"
				if strings.HasPrefix(anomalies[0], "fork-reexpanded-after-launch:") {
					// the real run-time ran a job for a fork that it then replaced: the
					// delivered arguments belong to no stage instance of the semantics
					key, kind = "C01:F33-fork-reexpanded-after-launch", "property"
				}
				if reported[key] < 3 {
					reported[key]++
					r.violate(Violation{Kind: kind, Key: key,
						What:   "the recorded run cannot be mapped to stage instances: " + strings.Join(anomalies, "; "),
						Input:  map[string]interface{}{"program": cs.src, "name": specs[si].Name, "spec": specs[si]},
						Impl:   map[string]interface{}{"top_outs": string(res.TopOuts)},
						Broken: "C01 observation mapping"})
				}
				continue
			}
			if ok {
				r.hist("check:ok")
				if firstOK == nil {
					firstOK = res
				} else if !res.HasPaths && !firstOK.HasPaths && len(res.TopSkip) == 0 &&
					string(res.TopOuts) != string(firstOK.TopOuts) {
					// same program, same deterministic fake stages, different schedule: outputs must agree
					r.violate(Violation{Kind: "property", Key: "C01:schedule-dependent-outs:" + c01Shape(cs.src),
						What:  "top-level outputs differ between two schedules of the same program",
						Input: map[string]interface{}{"program": cs.src, "schedules": []string{firstOK.Name, res.Name}},
						Impl:  map[string]string{"a": string(firstOK.TopOuts), "b": string(res.TopOuts)}})
				}
				if len(r.Samples) < 4 && nontrivial {
					r.sample(map[string]interface{}{"program": cs.name, "jobs": len(res.Jobs), "top_outs": c01Trunc(string(res.TopOuts), 300), "verdict": "ok"})
				}
				continue
			}
			r.hist("check:diff")
			src := cs.src
			key := c01KeyFor(ds, src)
			if reported[key] >= 2 {
				continue
			}
			reported[key]++
			shrunk := false
			if !cs.corpus && shrinks < 3 && (c.Thorough || time.Since(start) < 60*time.Second) {
				shrinks++
				if shrinker == nil || shrinker.cmd == nil {
					shrinker = c01StartWorker()
				}
				cls := ds[0].Class
				deadline := time.Now().Add(20 * time.Second)
				pred := func(s string) bool {
					if time.Now().After(deadline) {
						return false
					}
					if shrinker.cmd == nil {
						shrinker = c01StartWorker()
					}
					sp := *specs[si]
					sp.Src = s
					sp.TimeoutS = 10
					rr := shrinker.run(&sp)
					if rr.Final != "complete" || rr.Unsupp != "" || rr.Relaunch > 0 {
						return false
					}
					ok2, ds2, an2, bad2 := c01Check(c, rr)
					return !ok2 && bad2 == "" && len(an2) == 0 && len(ds2) > 0 && ds2[0].Class == cls
				}
				small := shrinkLines(src, pred, 400)
				if small != src {
					sp := *specs[si]
					sp.Src = small
					if shrinker.cmd == nil {
						shrinker = c01StartWorker()
					}
					rr := shrinker.run(&sp)
					if rr.Final == "complete" {
						if ok2, ds2, an2, bad2 := c01Check(c, rr); !ok2 && bad2 == "" && len(an2) == 0 && len(ds2) > 0 {
							src, ds, res, shrunk = small, ds2, rr, true
							key = c01KeyFor(ds, src)
						}
					}
				}
			}
			d := ds[0]
			sp := *specs[si]
			sp.Src = ""
			r.violate(Violation{Kind: "property", Key: key,
				What: fmt.Sprintf("%s: %s %s: the real run-time delivered a value that differs from the dataflow semantics (den) over the recorded stage outputs",
					d.Class, d.Where, d.Param),
				Input: map[string]interface{}{"program": src, "name": specs[si].Name, "schedule": sp, "shrunk": shrunk,
					"replay": "write program to f.mro; TA_MRO=f.mro harness -seed <schedule.seed> TA   (or ./check C01 with the program in corpus/C01/)"},
				Impl:   map[string]interface{}{"observed": d.Observed, "top_outs": string(res.TopOuts), "all_differences": ds},
				Expect: d.Expected,
				Broken: "den (Martian.Dataflow) vs martian/core resolver"})
		}
		if !compiled {
			r.hist("gen:rejected-by-compiler")
		} else if cs.stats != nil {
			for _, k := range []string{"map_call_array", "map_call_map", "split_dynamic", "split_static", "disabled_dynamic", "disabled_input", "alias", "bind_projection", "narrow_return", "bind_struct_literal", "bind_array_literal", "bind_map_literal"} {
				if cs.stats[k] > 0 {
					r.hist("gen:" + k)
				}
			}
		}
	}
	// ---- the two-phase resolver model against the code (c01_static.go) ----
	{
		t0 := time.Now()
		staticReported := map[string]int{}
		var ran []c01StaticCase
		seenSrc := map[string]bool{}
		for ci := range cases {
			cs := &cases[ci]
			for _, si := range cs.specs {
				res := results[si]
				if res == nil || res.Final != "complete" || res.Unsupp != "" || res.Relaunch > 0 || res.Program == "" {
					continue
				}
				if res.CGErr != "" {
					r.hist("static:call-graph-error")
					continue
				}
				if res.CallGraph == "" || seenSrc[cs.src] {
					continue
				}
				obs, an := c01Obs(res)
				if len(an) > 0 {
					continue
				}
				seenSrc[cs.src] = true
				ran = append(ran, c01StaticCase{name: specs[si].Name, src: cs.src, prog: res.Program, cg: res.CallGraph, obs: obs})
			}
		}
		c01StaticCheck(c, ran, "tierA", staticReported)
		var only []c01StaticCase
		for i := 0; i < nStaticOnly; i++ {
			src, _ := GenProgram(c.Rng, GenOpts{NoMap: true, NoDisable: true, MaxDepth: 1 + i%4, MaxCalls: 1 + i%5})
			prog, cg, err := c01CompileStatic(src)
			if err != nil {
				r.hist("static:compiled:rejected-or-unsupported")
				continue
			}
			only = append(only, c01StaticCase{name: fmt.Sprintf("static%d", i), src: src, prog: prog, cg: cg})
		}
		c01StaticCheck(c, only, "compiled", staticReported)
		r.note("two-phase model tie: %d plain programs with a Tier-A run, %d compiled only, %.1fs", len(ran), len(only), time.Since(t0).Seconds())
	}
	c01UnreadableChunkOuts(c, specs, results, parallel)
	r.note("total %.1fs; shrinks performed: %d", time.Since(start).Seconds(), shrinks)
}

func c01Bucket(n int) string {
	switch {
	case n <= 1:
		return "0-1"
	case n <= 4:
		return "2-4"
	case n <= 10:
		return "5-10"
	case n <= 30:
		return "11-30"
	}
	return ">30"
}

func c01Trunc(s string, n int) string {
	if len(s) > n {
		return s[:n] + "…"
	}
	return s
}

// C01D: debugging entry: run one program (env C01_MRO) under the first schedule
// and print jobs, fork table and the driver's verdict.
func init() {
	register("C01D", func(c *Ctx) {
		b, err := os.ReadFile(os.Getenv("C01_MRO"))
		if err != nil {
			fatal("%v", err)
		}
		si := 0
		fmt.Sscan(os.Getenv("C01_SCHED"), &si)
		sp := c01Schedules(c.Seed, 0)[si]
		sp.Src = string(b)
		sp.TimeoutS = 15
		res := c01RunSpec(&sp, c.Scratch)
		for _, j := range res.Jobs {
			fmt.Fprintln(os.Stderr, "JOB", j.Fqname, j.Shell, j.Outcome, "args:", c01Trunc(string(j.Args), 300), "outs:", c01Trunc(string(j.Outs), 200))
		}
		keys := make([]string, 0, len(res.Forks))
		for k := range res.Forks {
			keys = append(keys, k)
		}
		sort.Strings(keys)
		for _, k := range keys {
			fmt.Fprintf(os.Stderr, "FORK %s %s %+v\n", k, res.Forks[k].Kind, res.Forks[k].Parts)
		}
		fmt.Fprintln(os.Stderr, "final:", res.Final, c01Trunc(res.ErrMsg, 300), "top:", string(res.TopOuts), "unsupported:", res.Unsupp)
		if res.Final == "complete" && res.Program != "" && c.Drv != nil {
			obs, an := c01Obs(res)
			fmt.Fprintln(os.Stderr, "anomalies:", an)
			fmt.Fprintln(os.Stderr, "check:", strings.ReplaceAll(c.Drv.Ask("C01.check", res.Program, obs), "\x1f", " | "))
			if os.Getenv("C01_DEN") != "" {
				fmt.Fprintln(os.Stderr, "den:", strings.ReplaceAll(c.Drv.Ask("C01.den", res.Program, obs), "\t", "\n  "))
			}
		}
	})
}

// c01UnreadableChunkOuts: "a join receives the chunk outputs complete and in
// chunk order" when one chunk's `_outs` cannot be read at join-preparation
// time (the chunk wrote truncated JSON).  Re-runs completed programs that have
// a splitting fork with >= 2 chunks, with that fault injected into one chunk.
// Oracle: either the pipestance fails, or every join that was launched got a
// `_chunk_outs` with exactly one entry per chunk, equal to the chunks' outs in
// chunk order.
func c01UnreadableChunkOuts(c *Ctx, specs []*TASpec, results []*C01RunResult, parallel int) {
	r := c.Res
	limit := 24
	if c.Thorough {
		limit = 200
	}
	var fspecs []*TASpec
	seen := map[string]bool{}
	for i, res := range results {
		if len(fspecs) >= limit {
			break
		}
		if res == nil || res.Final != "complete" || seen[specs[i].Src] {
			continue
		}
		// chunk jobs per fork
		byFork := map[string][]*c01Job{}
		for _, j := range res.Jobs {
			if m := c01ChunkRe.FindStringSubmatch(j.Fqname); m != nil && j.Shell == "main" {
				ff := j.Fqname[:len(j.Fqname)-len(m[0])]
				byFork[ff] = append(byFork[ff], j)
			}
		}
		var cands []*c01Job
		for _, j := range res.Jobs {
			if j.Shell == "join" {
				if cs := byFork[j.Fqname]; len(cs) >= 2 {
					cands = append(cands, cs[c.Rng.Intn(len(cs)-1)]) // not the last: the shift is visible
				}
			}
		}
		if len(cands) == 0 {
			continue
		}
		seen[specs[i].Src] = true
		victim := cands[c.Rng.Intn(len(cands))]
		sp := *specs[i]
		sp.Name += "+badouts:" + victim.Key
		sp.Faults = []*Fault{{JobKey: victim.Key, Kind: "badouts"}}
		fspecs = append(fspecs, &sp)
	}
	if len(fspecs) == 0 {
		return
	}
	fres := c01RunSpecs(fspecs, parallel)
	for i, res := range fres {
		r.count("badouts|"+fspecs[i].Src+"|"+fspecs[i].Faults[0].JobKey, true)
		// the model of doJoin's read (Martian.Resolver.doJoinRead): one unreadable chunk among n
		// => the join is not launched
		if m := regexp.MustCompile(`\.chnk(\d+)\.`).FindStringSubmatch(fspecs[i].Faults[0].JobKey); m != nil {
			vi, _ := strconv.Atoi(m[1])
			var sb strings.Builder
			sb.WriteString("(l")
			for k := 0; k <= vi+1; k++ {
				if k == vi {
					sb.WriteString(" u")
				} else {
					sb.WriteString(" n")
				}
			}
			sb.WriteString(")")
			reply := c.Drv.Ask("C01.joinread", sb.String())
			r.hist("joinread:" + strings.SplitN(reply, "\t", 2)[0])
			if !strings.HasPrefix(reply, "launched=0") {
				r.violate(Violation{Kind: "correspondence", Key: "C01:joinread-model",
					What:   "the model of doJoin's read launches a join although a chunk's outs are unreadable: " + c01Trunc(reply, 120),
					Input:  map[string]interface{}{"reads": sb.String()},
					Broken: "join_complete_or_failed"})
			}
		}
		if res.Final != "complete" {
			r.hist("unreadable-chunk-outs:" + strings.SplitN(res.Final, ":", 2)[0])
			continue
		}
		// completed: every join must have seen all of its chunks
		bad := ""
		nch := map[string]int{}
		for _, j := range res.Jobs {
			if m := c01ChunkRe.FindStringSubmatch(j.Fqname); m != nil && j.Shell == "main" {
				nch[j.Fqname[:len(j.Fqname)-len(m[0])]]++
			}
		}
		for _, j := range res.Jobs {
			if j.Shell != "join" {
				continue
			}
			var co []json.RawMessage
			if json.Unmarshal(j.ChunkOuts, &co) != nil || len(co) != nch[j.Fqname] {
				bad = fmt.Sprintf("%s: _chunk_outs has %d entries for %d chunks: %s", j.Key, len(co), nch[j.Fqname], c01Trunc(string(j.ChunkOuts), 300))
				break
			}
		}
		if bad == "" {
			bad = "the pipestance completed although the outs of chunk " + fspecs[i].Faults[0].JobKey + " were unreadable"
		}
		r.hist("unreadable-chunk-outs:complete")
		sp := *fspecs[i]
		sp.Src = ""
		r.violate(Violation{Kind: "property", Key: "C01:join-with-incomplete-chunk-outs",
			What:  "one chunk wrote unreadable `_outs`; the pipestance neither failed nor gave the join one entry per chunk: " + bad,
			Input: map[string]interface{}{"program": fspecs[i].Src, "name": fspecs[i].Name, "schedule": sp, "fault": fspecs[i].Faults[0]},
			Impl:  map[string]interface{}{"final": res.Final, "top_outs": string(res.TopOuts)}})
	}
}
