package main

// C19: ONE Refactor invocation over SEVERAL files (`mro edit f1.mro f2.mro …`
// compiles every file, hands all compiled ASTs to Refactor and replays the
// edit on each file).
//
//   unrelated/clash    two or three independent programs that never include each
//                      other and define DIFFERENT callables with the SAME names
//                      (and the same parameter names): an edit addressed to a
//                      callable affects only the program whose definition
//                      Refactor picks (the first AST that has the name)
//   unrelated/disjoint the same with disjoint callable names
//   related/include    a program split into lib.mro (types, stages) and main.mro
//                      (@include "lib.mro", pipelines, call)
//
// Oracle: every file comes out exactly as when `mro edit` is run on its own
// program alone (already checked against the property and the model by the
// single-program runs), in particular an untouched program is byte-identical;
// for the split program, lib+main together equal the edited unsplit program.

import (
	"fmt"
	"os"
	"path/filepath"
	"regexp"
	"strings"

	"github.com/martian-lang/martian/martian/syntax"
	"github.com/martian-lang/martian/martian/syntax/refactoring"
)

type c19File struct {
	Path string `json:"path"`
	Src  string `json:"src"`
}

// c19ApplyFiles is c19Apply for several files (runs in the child).
func c19ApplyFiles(files []c19File, e c19Edit) (outs, encs []string, err error) {
	defer func() {
		if p := recover(); p != nil {
			err = fmt.Errorf("PANIC: %v", p)
		}
	}()
	var parser syntax.Parser
	var asts []*syntax.Ast
	for _, f := range files {
		_, _, ast, err := parser.ParseSourceBytes([]byte(f.Src), f.Path, []string{filepath.Dir(f.Path)}, false)
		if err != nil {
			return nil, nil, fmt.Errorf("precompile %s: %w", filepath.Base(f.Path), err)
		}
		asts = append(asts, ast)
	}
	edit, err := refactoring.Refactor(asts, e.config())
	if err != nil {
		return nil, nil, fmt.Errorf("refactor: %w", err)
	}
	for _, f := range files {
		plain, err := parser.UncheckedParse([]byte(f.Src), f.Path)
		if err != nil {
			return nil, nil, fmt.Errorf("reparse: %w", err)
		}
		if edit != nil {
			if _, err := edit.Apply(plain); err != nil {
				return nil, nil, fmt.Errorf("apply: %w", err)
			}
		}
		outs = append(outs, plain.Format())
		encs = append(encs, c19Encode(plain))
	}
	return outs, encs, nil
}

func (w *c19Worker) applyFiles(files []c19File, e c19Edit) c19ApplyResp {
	return w.request(c19ApplyReq{Files: files, Edit: e})
}

var c19CallableName = regexp.MustCompile(`\b(ST|PL|AL)([A-Za-z0-9_]*)`)

// c19Disjoint gives every callable and call alias of a generated program a name
// no other generated program uses.
func c19Disjoint(src string) string {
	return c19CallableName.ReplaceAllString(src, "Q$1$2")
}

// c19SplitInclude splits a generated (formatted, callee-first) program into
// lib (everything before the first pipeline) and main.
func c19SplitInclude(src string) (lib, main string, ok bool) {
	i := strings.Index(src, "\npipeline ")
	if i < 0 || !strings.Contains(src[:i], "\nstage ") || strings.Contains(src[i:], "\nstage ") {
		return "", "", false
	}
	return src[:i+1], "@include \"lib.mro\"\n\n" + src[i+1:], true
}

type c19FilesReplay struct {
	Scenario string    `json:"scenario"`
	Files    []c19File `json:"files"` // in the order given to Refactor
	Edit     c19Edit   `json:"edit"`
	Note     string    `json:"note"`
}

func c19RunFiles(c *Ctx, gens []*c19Case, fresh func() string) {
	r := c.Res
	nEdits := 8
	if c.Thorough {
		nEdits = 40
	}
	dirN := 0
	newDir := func() string {
		dirN++
		d := filepath.Join(c.Scratch, fmt.Sprintf("mf%d", dirN))
		os.MkdirAll(d, 0o755)
		return d
	}
	reported := map[string]int{}
	report := func(scenario string, files []c19File, e c19Edit, what, detail string) {
		key := "C19:files(" + scenario + "):" + e.Op + ":" + what
		r.hist("violation:" + key)
		reported[key]++
		if reported[key] > 3 {
			return
		}
		r.violate(Violation{Kind: "property", Key: key, What: detail,
			Input: c19FilesReplay{Scenario: scenario, Files: files, Edit: e,
				Note: "replay: write the files, run `mro edit` with the options of the edit on all of them in this order"}})
	}
	samplePlan := func(cs *c19Case) []c19Planned {
		b, err := c19Compile(cs.Src, cs.Path)
		if err != nil {
			return nil
		}
		plan := c19Enumerate(b.Ast, fresh)
		c.Rng.Shuffle(len(plan), func(i, j int) { plan[i], plan[j] = plan[j], plan[i] })
		if len(plan) > nEdits {
			plan = plan[:nEdits]
		}
		return plan
	}
	for gi := 0; gi+1 < len(gens); gi++ {
		p1, p2 := gens[gi], gens[gi+1]
		// ---------- unrelated programs ----------
		for _, scenario := range []string{"unrelated/clash", "unrelated/disjoint"} {
			if scenario == "unrelated/disjoint" && gi%2 == 1 {
				continue
			}
			dir := newDir()
			files := []c19File{{filepath.Join(dir, "a.mro"), p1.Src}, {filepath.Join(dir, "b.mro"), p2.Src}}
			if scenario == "unrelated/disjoint" {
				files[1].Src = c19Disjoint(p2.Src)
				if f, err := c19Format(files[1].Src, files[1].Path); err == nil {
					files[1].Src = f
				} else {
					continue
				}
			}
			if gi+2 < len(gens) && gi%5 == 0 {
				files = append(files, c19File{filepath.Join(dir, "c.mro"), gens[gi+2].Src})
			}
			ok := true
			for _, f := range files {
				if _, err := c19Compile(f.Src, f.Path); err != nil {
					ok = false
				}
				os.WriteFile(f.Path, []byte(f.Src), 0o644)
			}
			if !ok {
				r.hist("files-skipped:does-not-compile")
				continue
			}
			for _, pl := range samplePlan(&c19Case{Src: files[0].Src, Path: files[0].Path}) {
				e := pl.Edit
				order := files
				if c.Rng.Intn(2) == 0 { // the addressed program is not always the first file
					order = append([]c19File{}, files[1:]...)
					order = append(order, files[0])
				}
				// which program does Refactor address?  (the first AST that has the name)
				target := -1
				if e.Op != "removeUnused" {
					for i, f := range order {
						if b, err := c19Compile(f.Src, f.Path); err == nil && b.Ast.Callables.Table[e.Callable] != nil {
							target = i
							break
						}
					}
					if target < 0 {
						continue
					}
				}
				resp := c19W.applyFiles(order, e)
				cls := scenario
				if len(order) == 3 {
					cls += "(3 files)"
				}
				r.hist("edit:files:" + cls + ":" + e.Op)
				r.count(order[0].Src+"\x00"+order[1].Src+"\x00"+e.String(), true)
				if resp.Err != "" {
					single := c19W.apply(order[maxInt(target, 0)].Src, order[maxInt(target, 0)].Path, e)
					if single.Err == "" || strings.HasPrefix(resp.Err, "CRASH") || strings.HasPrefix(resp.Err, "PANIC") {
						report(scenario, order, e, "refactor-"+c19ErrKind(fmt.Errorf("%s", resp.Err)), "Refactor over several files fails: "+resp.Err)
					}
					continue
				}
				for i, f := range order {
					want := f.Src
					if e.Op == "removeUnused" || i == target {
						single := c19W.apply(f.Src, f.Path, e)
						if single.Err != "" {
							continue
						}
						want = single.Out
					}
					if resp.Outs[i] != want {
						what := "differs-from-own-run"
						detail := fmt.Sprintf("file %s: the result of the multi-file invocation differs from the result of running the same edit on this program alone", filepath.Base(f.Path))
						if e.Op != "removeUnused" && i != target {
							what = "untouched-program-changed"
							detail = fmt.Sprintf("file %s does not define the addressed callable (Refactor addresses the definition in %s) but was changed", filepath.Base(f.Path), filepath.Base(order[target].Path))
							if _, err := c19Compile(resp.Outs[i], f.Path); err != nil {
								detail += "; it no longer compiles: " + c19FirstLine(err.Error())
							}
						}
						report(scenario, order, e, what, detail+"\n--- got ---\n"+resp.Outs[i]+"\n--- expected ---\n"+want)
						break
					}
				}
			}
		}
		// ---------- a program split into lib.mro + main.mro ----------
		if lib, mainSrc, ok := c19SplitInclude(p1.Src); ok {
			dir := newDir()
			files := []c19File{{filepath.Join(dir, "lib.mro"), lib}, {filepath.Join(dir, "main.mro"), mainSrc}}
			for _, f := range files {
				os.WriteFile(f.Path, []byte(f.Src), 0o644)
			}
			if _, err := c19Compile(mainSrc, files[1].Path); err != nil {
				r.hist("files-skipped:split-does-not-compile")
				continue
			}
			for _, pl := range samplePlan(p1) {
				e := pl.Edit
				order := files
				if c.Rng.Intn(2) == 0 {
					order = []c19File{files[1], files[0]}
				}
				single := c19W.apply(p1.Src, p1.Path, e)
				resp := c19W.applyFiles(order, e)
				r.hist("edit:files:related/include:" + e.Op)
				r.count(p1.Src+"\x00split\x00"+e.String(), true)
				if resp.Err != "" {
					if single.Err == "" || strings.HasPrefix(resp.Err, "CRASH") || strings.HasPrefix(resp.Err, "PANIC") {
						report("related/include", order, e, "refactor-"+c19ErrKind(fmt.Errorf("%s", resp.Err)), "Refactor over lib+main fails: "+resp.Err+" (on the unsplit program: "+single.Err+")")
					}
					continue
				}
				if single.Err != "" {
					continue
				}
				var encLib, encMain string
				for i, f := range order {
					if strings.HasSuffix(f.Path, "lib.mro") {
						encLib = strings.TrimSuffix(resp.Encs[i], "-")
					} else {
						encMain = resp.Encs[i]
					}
				}
				if got := strings.TrimSpace(encLib) + " " + encMain; got != single.Enc {
					report("related/include", order, e, "differs-from-unsplit-program",
						"lib.mro + main.mro after the edit are not the edited unsplit program\n--- lib ---\n"+resp.Outs[indexOfLib(order)]+"\n--- main ---\n"+resp.Outs[1-indexOfLib(order)]+"\n--- unsplit ---\n"+single.Out)
				}
			}
		}
	}
}

func indexOfLib(order []c19File) int {
	if strings.HasSuffix(order[0].Path, "lib.mro") {
		return 0
	}
	return 1
}

func maxInt(a, b int) int {
	if a > b {
		return a
	}
	return b
}
