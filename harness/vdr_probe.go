package main

import (
	"encoding/json"
	"fmt"
	"os"
	"strconv"
	"strings"
)

// VDRP: debugging entry: run one MRO file (env TA_MRO) with the C04/C14 observation loop.
func init() {
	register("VDRP", func(c *Ctx) {
		src, _ := os.ReadFile(os.Getenv("TA_MRO"))
		spec := &VdrSpec{Src: string(src), Seed: c.Seed, VdrMode: os.Getenv("TA_VDR"), StepBias: 0.4, StartSeparate: 0.3,
			LateConsumers: os.Getenv("TA_LATE") != ""}
		if s := os.Getenv("TA_CRASH"); s != "" {
			for _, x := range strings.Split(s, ",") {
				n, _ := strconv.Atoi(x)
				spec.CrashAt = append(spec.CrashAt, n)
			}
		}
		res := runVdrSpec(spec, c.Scratch)
		b, _ := json.MarshalIndent(res, "", " ")
		fmt.Fprintln(os.Stderr, string(b))
	})
}
