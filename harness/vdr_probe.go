package main

import (
	"encoding/json"
	"fmt"
	"os"
	"strconv"
	"strings"
)

// VDRP: debugging entry: run one MRO file (env TA_MRO) with the C04/C14 observation loop.
func init() {
	register("VDRP", func(c *Ctx) {
		src, _ := os.ReadFile(os.Getenv("TA_MRO"))
		spec := &VdrSpec{Src: string(src), Seed: c.Seed, VdrMode: os.Getenv("TA_VDR"), StepBias: 0.4, StartSeparate: 0.3,
			LateConsumers: os.Getenv("TA_LATE") != "", NoExtra: os.Getenv("TA_NOEXTRA") != "", LinkedRoot: os.Getenv("TA_LINKEDROOT") != ""}
		if s := os.Getenv("TA_CRASH"); s != "" {
			for _, x := range strings.Split(s, ",") {
				n, _ := strconv.Atoi(x)
				spec.CrashAt = append(spec.CrashAt, n)
			}
		}
		if f := os.Getenv("VDR_SPEC"); f != "" {
			b, _ := os.ReadFile(f)
			spec = &VdrSpec{}
			if err := json.Unmarshal(b, spec); err != nil {
				fatal("%v", err)
			}
		}
		res := runVdrSpec(spec, c.Scratch)
		b, _ := json.MarshalIndent(res, "", " ")
		fmt.Fprintln(os.Stderr, string(b))
	})
}
