package main

// C01 program family untyped-map: values bound where an untyped `map` (or `map[]`) is expected.
//   * reference-free literals (the only literals the compiler accepts there), directly and through
//     pipeline inputs / returns: delivered as they stand (inside the proved fragment since round 5);
//   * struct-typed references bound DIRECTLY to an untyped map: the stage receives the recorded value;
//   * struct-typed values that first cross a boundary of a NARROWER struct type (a pipeline input
//     `PAIR q` bound to a WIDE value, a pipeline return typed PAIR) and are then bound to an untyped
//     map: den says the value of `self.q` is the PAIR (extra members dropped "when bound to a narrower
//     struct"); the real resolver follows the reference through the boundary and filters only at the
//     final destination, where the untyped map keeps everything (a struct LITERAL with the extra member
//     is rejected by the compiler at that boundary: "unexpected field c").  Finding F38.
// Producers are ECHOALL* stages (output i is input i) so the recorded values are exactly typed.

import (
	"fmt"
	"math/rand"
	"regexp"
	"strings"
)

const c01UntypedMapDecls = `struct PAIR(
    int    a,
    string b,
)

struct WIDE(
    int    a,
    string b,
    float  c,
)

stage ECHOALLW(
    in  WIDE   w_,
    in  WIDE[] ws_,
    out WIDE   w,
    out WIDE[] ws,
    src comp   "fake",
)

stage USEMAP(
    in  map   m,
    in  map[] ms,
    in  PAIR  p,
    out int   r,
    src comp  "fake",
)

`

func c01WideLitU(rng *rand.Rand) string {
	return fmt.Sprintf("{a: %d, b: \"s%d\", c: %d.5}", rng.Intn(20), rng.Intn(9), rng.Intn(9))
}

func c01JsonLit(rng *rand.Rand, depth int) string {
	switch rng.Intn(5) {
	case 0:
		return fmt.Sprint(rng.Intn(50))
	case 1:
		return fmt.Sprintf("\"v%d\"", rng.Intn(9))
	case 2:
		return "null"
	case 3:
		if depth > 0 {
			return "[" + c01JsonLit(rng, depth-1) + ", " + c01JsonLit(rng, depth-1) + "]"
		}
		return "true"
	}
	if depth > 0 {
		return fmt.Sprintf("{\"k%d\": %s, \"j\": %s}", rng.Intn(5), c01JsonLit(rng, depth-1), c01JsonLit(rng, depth-1))
	}
	return "1.5"
}

func c01UntypedMapProgram(rng *rand.Rand, variant int) string {
	var sb strings.Builder
	sb.WriteString(c01UntypedMapDecls)
	mapLit := func() string {
		return fmt.Sprintf("{\"k\": %s, \"j\": %s}", c01JsonLit(rng, 2), c01JsonLit(rng, 1))
	}
	switch variant % 4 {
	case 0: // literals only: at the call, through a pipeline input, through a return
		sb.WriteString("pipeline INNER(\n    in  map   q,\n    in  map[] qs,\n    out int   r,\n    out map   back,\n)\n{\n    call USEMAP(\n        m  = self.q,\n        ms = self.qs,\n        p  = null,\n    )\n\n    return (\n        r    = USEMAP.r,\n        back = " + mapLit() + ",\n    )\n}\n\n")
		sb.WriteString("pipeline TOP(\n    out int r,\n    out int s,\n)\n{\n    call INNER(\n        q  = " + mapLit() + ",\n        qs = [" + mapLit() + ", " + mapLit() + "],\n    )\n\n    call USEMAP as LAST(\n        m  = INNER.back,\n        ms = [INNER.back, " + mapLit() + "],\n        p  = null,\n    )\n\n    return (\n        r = INNER.r,\n        s = LAST.r,\n    )\n}\n\ncall TOP()\n")
	case 1: // struct-typed references bound directly
		sb.WriteString("pipeline TOP(\n    out int r,\n)\n{\n    call ECHOALLW as P(\n        w_  = " + c01WideLitU(rng) + ",\n        ws_ = [" + c01WideLitU(rng) + ", " + c01WideLitU(rng) + "],\n    )\n\n    call USEMAP(\n        m  = P.w,\n        ms = P.ws,\n        p  = P.w,\n    )\n\n    return (\n        r = USEMAP.r,\n    )\n}\n\ncall TOP()\n")
	case 2: // through a pipeline input of a narrower struct type
		sb.WriteString("pipeline INNER(\n    in  PAIR   q,\n    in  PAIR[] qs,\n    out int    r,\n)\n{\n    call USEMAP(\n        m  = self.q,\n        ms = self.qs,\n        p  = self.q,\n    )\n\n    return (\n        r = USEMAP.r,\n    )\n}\n\n")
		sb.WriteString("pipeline TOP(\n    out int r,\n    out int s,\n)\n{\n    call ECHOALLW as P(\n        w_  = " + c01WideLitU(rng) + ",\n        ws_ = [" + c01WideLitU(rng) + ", " + c01WideLitU(rng) + "],\n    )\n\n    call INNER(\n        q  = P.w,\n        qs = P.ws,\n    )\n\n    return (\n        r = INNER.r,\n        s = INNER.r,\n    )\n}\n\ncall TOP()\n")
	case 3: // through a pipeline return of a narrower struct type
		sb.WriteString("pipeline INNER(\n    in  WIDE   w,\n    out PAIR   q,\n    out PAIR[] qs,\n)\n{\n    call ECHOALLW as P(\n        w_  = self.w,\n        ws_ = [self.w, " + c01WideLitU(rng) + "],\n    )\n\n    return (\n        q  = P.w,\n        qs = P.ws,\n    )\n}\n\n")
		sb.WriteString("pipeline TOP(\n    out int r,\n)\n{\n    call INNER(\n        w = " + c01WideLitU(rng) + ",\n    )\n\n    call USEMAP(\n        m  = INNER.q,\n        ms = INNER.qs,\n        p  = INNER.q,\n    )\n\n    return (\n        r = USEMAP.r,\n    )\n}\n\ncall TOP()\n")
	}
	return sb.String()
}

func c01UntypedMapFamily(rng *rand.Rand, thorough bool) []c01Case {
	n := 8
	if thorough {
		n = 32
	}
	var cases []c01Case
	for i := 0; i < n; i++ {
		cases = append(cases, c01Case{name: fmt.Sprintf("family/untyped-map-%d", i), src: c01UntypedMapProgram(rng, i)})
	}
	return cases
}

// ---- classification of F38: the observed value is the expected one plus extra object members,
// at a stage parameter declared as an untyped map ----

func c01ExtraMembers(e, o interface{}, extra *bool) bool {
	switch et := e.(type) {
	case []interface{}:
		ot, ok := o.([]interface{})
		if !ok || len(ot) != len(et) {
			return false
		}
		for i := range et {
			if !c01ExtraMembers(et[i], ot[i], extra) {
				return false
			}
		}
		return true
	case map[string]interface{}:
		ot, ok := o.(map[string]interface{})
		if !ok || len(ot) < len(et) {
			return false
		}
		for k, v := range et {
			w, ok := ot[k]
			if !ok || !c01ExtraMembers(v, w, extra) {
				return false
			}
		}
		if len(ot) > len(et) {
			*extra = true
		}
		return true
	}
	return fmt.Sprint(e) == fmt.Sprint(o)
}

func c01IsExtraAtUntypedMap(d c01Diff, src string) bool {
	if d.Class != "args" {
		return false
	}
	re := regexp.MustCompile(`(?m)^\s*in\s+map(\[\])*\s+` + regexp.QuoteMeta(d.Param) + `\s*,`)
	if !re.MatchString(src) {
		return false
	}
	e, ok1 := c01ParseRendered(d.Expected)
	o, ok2 := c01ParseRendered(d.Observed)
	if !ok1 || !ok2 {
		return false
	}
	extra := false
	return c01ExtraMembers(e, o, &extra) && extra
}
