package main

// C08, lexer part 2: ties of the Lean regex model (lean/Martian/Regex.lean) and of the Lean
// tokenizer model (lean/Martian/Tokenizer.lean) to the code.
//
//  1. c08Regex: the generic leftmost-first matcher + the regex-syntax parser vs Go's regexp
//     (Compile + Find) on generated regex / input pairs inside the syntax subset, and the four
//     regenerated rule regexes of tokenizer.go (through the same generic matcher) vs the real
//     token rules.
//  2. c08TokenStream: token streams (kind, text, line, column) of the real mmLexInfo.Lex loop
//     vs the model's on generated sources, the repo's .mro files and a mutation stream.

import (
	"fmt"
	"regexp"
	"strconv"
	"strings"

	"github.com/martian-lang/martian/martian/syntax"
)

// ---------- regex generator (inside the subset of Martian.Regex.parse) ----------

type c08Re struct {
	src      string
	nullable bool
	// sample produces a string the regex is likely to match (random walk)
	sample func(c *Ctx) string
}

const c08ReAlpha = "ab01-._e\"\\ :+"

func c08ReLit(ch byte) string {
	if strings.IndexByte(`\.+*?()|[]{}^$`, ch) >= 0 || ch == '"' || ch == '-' || ch == ':' {
		if ch == '"' || ch == '-' || ch == ':' {
			// escaped and unescaped forms are both in the subset for these
			return string(ch)
		}
		return `\` + string(ch)
	}
	return string(ch)
}

func c08ReClassItem(c *Ctx) (string, func(b byte) bool) {
	switch c.Rng.Intn(9) {
	case 0:
		return `\d`, func(b byte) bool { return b >= '0' && b <= '9' }
	case 1:
		return `\w`, func(b byte) bool {
			return b >= '0' && b <= '9' || b >= 'a' && b <= 'z' || b >= 'A' && b <= 'Z' || b == '_'
		}
	case 2:
		return `[:xdigit:]`, func(b byte) bool {
			return b >= '0' && b <= '9' || b >= 'a' && b <= 'f' || b >= 'A' && b <= 'F'
		}
	case 3:
		return `[:alpha:]`, func(b byte) bool { return b >= 'a' && b <= 'z' || b >= 'A' && b <= 'Z' }
	case 4:
		lo := byte('a' + c.Rng.Intn(3))
		hi := lo + byte(c.Rng.Intn(3))
		return string(lo) + "-" + string(hi), func(b byte) bool { return b >= lo && b <= hi }
	case 5:
		lo := byte('0' + c.Rng.Intn(5))
		hi := lo + byte(c.Rng.Intn(5))
		return string(lo) + "-" + string(hi), func(b byte) bool { return b >= lo && b <= hi }
	case 6:
		ch := []byte{'\\', '"', '.', '+', '/'}[c.Rng.Intn(5)]
		return `\` + string(ch), func(b byte) bool { return b == ch }
	default:
		ch := "ab01._e :"[c.Rng.Intn(9)]
		return string(ch), func(b byte) bool { return b == ch }
	}
}

func c08GenRe(c *Ctx, depth int) c08Re {
	k := c.Rng.Intn(12)
	if depth <= 0 && k >= 6 {
		k = c.Rng.Intn(6)
	}
	switch k {
	case 0, 1:
		ch := c08ReAlpha[c.Rng.Intn(len(c08ReAlpha))]
		return c08Re{c08ReLit(ch), false, func(*Ctx) string { return string(ch) }}
	case 2:
		src, in := c08ReClassItem(c)
		if src[0] != '\\' {
			src = "[" + src + "]"
		}
		return c08Re{src, false, func(c *Ctx) string { return c08PickByte(c, in, true) }}
	case 3:
		// bracket class of 1-3 items, possibly negated
		n := 1 + c.Rng.Intn(3)
		var sb strings.Builder
		neg := c.Rng.Intn(3) == 0
		sb.WriteString("[")
		if neg {
			sb.WriteString("^")
		}
		var preds []func(byte) bool
		for i := 0; i < n; i++ {
			s, p := c08ReClassItem(c)
			sb.WriteString(s)
			preds = append(preds, p)
		}
		if c.Rng.Intn(8) == 0 {
			sb.WriteString("-")
			preds = append(preds, func(b byte) bool { return b == '-' })
		}
		sb.WriteString("]")
		in := func(b byte) bool {
			for _, p := range preds {
				if p(b) {
					return true
				}
			}
			return false
		}
		return c08Re{sb.String(), false, func(c *Ctx) string {
			if neg && c.Rng.Intn(3) == 0 {
				return []string{"é", "\xff", "😀", "\xe2\x98", "\n", "\x00"}[c.Rng.Intn(6)]
			}
			return c08PickByte(c, in, !neg)
		}}
	case 4:
		return c08Re{`\b`, true, func(*Ctx) string { return "" }}
	case 5:
		if c.Rng.Intn(6) == 0 {
			return c08Re{`^`, true, func(*Ctx) string { return "" }}
		}
		return c08Re{`\d`, false, func(c *Ctx) string { return string(byte('0' + c.Rng.Intn(10))) }}
	case 6, 7:
		// concatenation
		n := 2 + c.Rng.Intn(3)
		parts := make([]c08Re, n)
		var sb strings.Builder
		nullable := true
		for i := range parts {
			parts[i] = c08GenRe(c, depth-1)
			sb.WriteString(parts[i].src)
			nullable = nullable && parts[i].nullable
		}
		return c08Re{c08Group(c, sb.String()), nullable, func(c *Ctx) string {
			var o strings.Builder
			for _, p := range parts {
				o.WriteString(p.sample(c))
			}
			return o.String()
		}}
	case 8:
		// alternation (an alternative may be empty)
		n := 2 + c.Rng.Intn(2)
		parts := make([]c08Re, n)
		srcs := make([]string, n)
		nullable := false
		for i := range parts {
			if c.Rng.Intn(10) == 0 {
				parts[i] = c08Re{"", true, func(*Ctx) string { return "" }}
			} else {
				parts[i] = c08GenRe(c, depth-1)
			}
			srcs[i] = parts[i].src
			nullable = nullable || parts[i].nullable
		}
		open := "(?:"
		if c.Rng.Intn(4) == 0 {
			open = "("
		}
		return c08Re{open + strings.Join(srcs, "|") + ")", nullable, func(c *Ctx) string {
			return parts[c.Rng.Intn(n)].sample(c)
		}}
	default:
		// repetition of an atom / group
		a := c08GenRe(c, depth-1)
		src := a.src
		if !c08IsAtom(src) {
			src = "(?:" + src + ")"
		}
		if strings.HasSuffix(src, `\b`) && len(src) == 2 || src == "^" {
			// repetition of a bare anchor: not generated
			return a
		}
		mn, mx := 0, -1
		var op string
		switch c.Rng.Intn(7) {
		case 0:
			op, mn, mx = "*", 0, -1
		case 1:
			op, mn, mx = "+", 1, -1
		case 2, 3:
			op, mn, mx = "?", 0, 1
		case 4:
			mn = c.Rng.Intn(4)
			mx = mn
			op = fmt.Sprintf("{%d}", mn)
		case 5:
			mn = c.Rng.Intn(3)
			mx = mn + c.Rng.Intn(4)
			op = fmt.Sprintf("{%d,%d}", mn, mx)
		default:
			mn = c.Rng.Intn(3)
			op = fmt.Sprintf("{%d,}", mn)
		}
		if mx < 0 && a.nullable {
			// unbounded repetition of a body that can match the empty string is outside what the
			// correspondence claims (Go's treatment of empty iterations changed between releases)
			op, mn, mx = "?", 0, 1
		}
		return c08Re{src + op, a.nullable || mn == 0, func(c *Ctx) string {
			n := mn
			if mx < 0 {
				n += c.Rng.Intn(4)
			} else if mx > mn {
				n += c.Rng.Intn(mx - mn + 1)
			}
			var o strings.Builder
			for i := 0; i < n; i++ {
				o.WriteString(a.sample(c))
			}
			return o.String()
		}}
	}
}

func c08Group(c *Ctx, s string) string {
	if c.Rng.Intn(3) == 0 {
		return "(?:" + s + ")"
	}
	return s
}

// c08IsAtom: is src a single atom (one literal, escape, class or group) so that a postfix
// operator applies to all of it?
func c08IsAtom(src string) bool {
	if len(src) == 1 {
		return true
	}
	if len(src) == 2 && src[0] == '\\' {
		return true
	}
	if src[0] == '[' {
		// one class: the first unescaped, non-posix-class ']' is the last byte
		i := 1
		if i < len(src) && src[i] == '^' {
			i++
		}
		for i < len(src) {
			switch {
			case src[i] == '\\':
				i += 2
			case strings.HasPrefix(src[i:], "[:"):
				j := strings.Index(src[i:], ":]")
				if j < 0 {
					return false
				}
				i += j + 2
			case src[i] == ']':
				return i == len(src)-1
			default:
				i++
			}
		}
		return false
	}
	if src[0] == '(' {
		depth := 0
		for i := 0; i < len(src); i++ {
			switch src[i] {
			case '\\':
				i++
			case '[':
				// skip the class
				j := i + 1
				for j < len(src) && src[j] != ']' {
					if src[j] == '\\' {
						j++
					} else if strings.HasPrefix(src[j:], "[:") {
						j += strings.Index(src[j:], ":]") + 1
					}
					j++
				}
				i = j
			case '(':
				depth++
			case ')':
				depth--
				if depth == 0 {
					return i == len(src)-1
				}
			}
		}
	}
	return false
}

func c08PickByte(c *Ctx, in func(byte) bool, want bool) string {
	const pool = "ab01-._e\"\\ :+cdfAZz9_/\n"
	for try := 0; try < 40; try++ {
		b := pool[c.Rng.Intn(len(pool))]
		if in(b) == want {
			return string(b)
		}
	}
	return "a"
}

func c08ReInputs(c *Ctx, re c08Re) []string {
	var ins []string
	n := 5
	for i := 0; i < n; i++ {
		var s string
		switch c.Rng.Intn(4) {
		case 0:
			// random string over the alphabet
			k := c.Rng.Intn(8)
			b := make([]byte, k)
			for j := range b {
				b[j] = c08ReAlpha[c.Rng.Intn(len(c08ReAlpha))]
			}
			s = string(b)
		default:
			s = re.sample(c)
			switch c.Rng.Intn(4) {
			case 0:
				s += re.sample(c)
			case 1:
				if len(s) > 0 {
					// corrupt one byte
					b := []byte(s)
					b[c.Rng.Intn(len(b))] = c08ReAlpha[c.Rng.Intn(len(c08ReAlpha))]
					s = string(b)
				}
			}
		}
		if c.Rng.Intn(2) == 0 {
			s += []string{" ", "a", "0", "_", ".", "\"", "é", "\xff", ",", "-", "e5", "\xe2\x98\x83", "\xe2\x98"}[c.Rng.Intn(13)]
		}
		ins = append(ins, s)
	}
	return ins
}

func c08Regex(c *Ctx) {
	r := c.Res
	n := 1500
	if c.Thorough {
		n = 60000
	}
	type pair struct{ src, in string }
	var pairs []pair
	var res []*regexp.Regexp
	// fixed cases where leftmost-first and leftmost-longest differ, and Go-specific corners
	fixed := []pair{
		{`^(?:a|ab)(?:c|bcd)?`, "abcd"}, {`^(?:a|ab)`, "ab"}, {`^(?:ab|a)`, "ab"}, {`^a*?`, "aa"},
		{`^(?:a|ab)*c`, "abac"}, {`^(a|ab)(c|bcd)(d*)`, "abcd"}, {`^a{2,3}`, "aaaa"}, {`^a{2,3}a`, "aaa"},
		{`^(?:a{1,2}){2}`, "aaa"}, {`^[^a]b`, "éb"}, {`^[^a]b`, "\xffb"}, {`^[^a][^a]b`, "\xe2\x98b"},
		{`^\w+\b`, "ab_1é"}, {`^\w+\b`, "ab-"}, {`^a\b`, "ab"}, {`^-\b`, "-a"}, {`^-\b`, "--"},
		{`^a**`, "aa"}, {`^a{1001}`, "a"}, {`^a{2,1}`, "a"}, {`^[a`, "a"}, {`^(a`, "a"}, {`^a)`, "a"},
		{`^[]a]`, "]"}, {`^[a-]`, "-"}, {`^[\d-z]`, "-"}, {`^a|b`, "b"}, {`^a|^b`, "b"}, {`^(?:)`, "x"}, {`^(|a)b`, "ab"},
		{`^\d+(?:(?:\.\d+)?[eE][+-]?|\.)\d+\b`, "1.5e3"}, {`^-?\d+(:?(?:\.\d+)?[eE][+-]?|\.)\d+\b`, "1:e5"},
	}
	pairs = append(pairs, fixed...)
	for i := 0; i < n; i++ {
		re := c08GenRe(c, 3)
		src := "^" + re.src
		for _, in := range c08ReInputs(c, re) {
			pairs = append(pairs, pair{src, in})
		}
	}
	reqs := make([][]string, len(pairs))
	cache := map[string]*regexp.Regexp{}
	bad := map[string]bool{}
	for i, p := range pairs {
		reqs[i] = []string{"C08.re", hx(p.src), hx(p.in)}
		if _, ok := cache[p.src]; !ok && !bad[p.src] {
			re, err := regexp.Compile(p.src)
			if err != nil {
				bad[p.src] = true
			} else {
				cache[p.src] = re
			}
		}
		res = append(res, cache[p.src])
	}
	reps := c.Drv.AskBatch(reqs)
	inSubsetFixed := map[string]bool{`^a*?`: true, `^[]a]`: true, `^[\d-z]`: true}
	for i, p := range pairs {
		var g string
		if res[i] == nil {
			g = "bad"
		} else {
			g = optHexGo(res[i].Find([]byte(p.in)))
		}
		nontriv := g != "bad" && g != "none"
		r.count("re:"+p.src+"\x00"+p.in, nontriv)
		switch {
		case g == "bad":
			r.hist("regex:go-rejects")
		case g == "none":
			r.hist("regex:no-match")
		case g == "some -":
			r.hist("regex:empty-match")
		default:
			r.hist("regex:match")
		}
		if i%997 == 0 {
			r.sample(map[string]string{"regex": p.src, "input": strconv.Quote(p.in), "go_Find": g, "model_pmatch": reps[i]})
		}
		if reps[i] == "bad" && g != "bad" && i < len(fixed) && inSubsetFixed[p.src] {
			// accepted by Go, deliberately outside the model's subset
			r.hist("regex:outside-subset")
			continue
		}
		if g != reps[i] {
			r.violate(Violation{Kind: "correspondence", Key: "C08:regex-matcher-mismatch",
				What:  "Go regexp (Compile + Find, leftmost-first) differs from the Lean regex parser + matcher (Martian.Regex.parse / pmatch) on a regex of the modelled syntax subset",
				Input: map[string]string{"regex": p.src, "input": strconv.Quote(p.in)}, Impl: g, Model: reps[i],
				Broken: "correspondence C08.re (Martian.Regex.pmatch; theorems Props.C08.*_rule_is_regex rest on it)"})
		}
	}

	// the four rule regexes as found in the source, through the generic matcher, vs the real rules
	var heads []string
	for i := 0; i < n; i++ {
		switch c.Rng.Intn(4) {
		case 0:
			heads = append(heads, c08GenNum(c))
		case 1:
			heads = append(heads, c08GenStr(c))
		case 2:
			heads = append(heads, c08GenIdent(c))
		default:
			heads = append(heads, c08GenNum(c)+c08GenIdent(c))
		}
	}
	var rreqs [][]string
	for _, h := range heads {
		for _, nm := range []string{"int", "float", "string", "id"} {
			rreqs = append(rreqs, []string{"C08.rule", nm, hx(h)})
		}
	}
	rreps := c.Drv.AskBatch(rreqs)
	for i, h := range heads {
		b := []byte(h)
		gos := []string{optHexGo(syntax.VerifTokInt(b)), optHexGo(syntax.VerifTokFloat(b)),
			optHexGo(syntax.VerifTokString(b)), optHexGo(syntax.VerifTokId(b))}
		nontriv := false
		for j, nm := range []string{"int", "float", "string", "id"} {
			if gos[j] != "none" {
				nontriv = true
				r.hist("rule-regex:" + nm + ":match")
			}
			if gos[j] != rreps[4*i+j] {
				r.violate(Violation{Kind: "correspondence", Key: "C08:rule-regex-mismatch:" + nm,
					What:  "token rule " + nm + " of tokenizer.go differs from the Lean generic matcher applied to the regenerated, parsed regex of that rule",
					Input: strconv.Quote(h), Impl: gos[j], Model: rreps[4*i+j],
					Broken: "correspondence C08.rule (Martian.Regex.pmatch on Gen.tok*Regex; Props.C08." + nm + "_rule_is_regex)"})
			}
		}
		r.count("rule:"+h, nontriv)
	}
}

var c08IdPieces = []string{"a", "b", "_", "__", "A", "Z", "x1", "9", "0", "foo", "STAGE", "stage", "in", "int", "inx", "é", "\xff", "-", ".", " ", "e5", "map", "mem_gb", "memgb", "self", "selfish", "default", "p", "py", "comp", "comp_", "true", "tru", "filetype"}

func c08GenIdent(c *Ctx) string {
	var sb strings.Builder
	n := 1 + c.Rng.Intn(4)
	for i := 0; i < n; i++ {
		sb.WriteString(c08IdPieces[c.Rng.Intn(len(c08IdPieces))])
	}
	if c.Rng.Intn(3) == 0 {
		sb.WriteString([]string{" ", ",", ".", "(", "é", "\xff", "\n", "="}[c.Rng.Intn(8)])
	}
	return sb.String()
}

func c08TokenStream(c *Ctx) {
}
