package main

// C08, lexer part 2: ties of the Lean regex model (lean/Martian/Regex.lean) and of the Lean
// tokenizer model (lean/Martian/Tokenizer.lean) to the code.
//
//  1. c08Regex: the generic leftmost-first matcher + the regex-syntax parser vs Go's regexp
//     (Compile + Find) on generated regex / input pairs inside the syntax subset, and the four
//     regenerated rule regexes of tokenizer.go (through the same generic matcher) vs the real
//     token rules.
//  2. c08TokenStream: token streams (kind, text, line, column) of the real mmLexInfo.Lex loop
//     vs the model's on generated sources, the repo's .mro files and a mutation stream.

import (
	"fmt"
	"regexp"
	"strconv"
	"strings"
	"time"

	"github.com/martian-lang/martian/martian/syntax"
)

// ---------- regex generator (inside the subset of Martian.Regex.parse) ----------

type c08Re struct {
	src      string
	nullable bool
	// unb: contains an unbounded repetition (*, +, {n,}).  Unbounded repetitions are not nested
	// (star height 1): a backtracking matcher - the Lean model is one - needs exponential time on
	// e.g. (a+)+b, which says nothing about the correspondence and would stall the run.
	unb bool
	// sample produces a string the regex is likely to match (random walk)
	sample func(c *Ctx) string
}

const c08ReAlpha = "ab01-._e\"\\ :+"

func c08ReLit(ch byte) string {
	if strings.IndexByte(`\.+*?()|[]{}^$`, ch) >= 0 || ch == '"' || ch == '-' || ch == ':' {
		if ch == '"' || ch == '-' || ch == ':' {
			// escaped and unescaped forms are both in the subset for these
			return string(ch)
		}
		return `\` + string(ch)
	}
	return string(ch)
}

func c08ReClassItem(c *Ctx) (string, func(b byte) bool) {
	switch c.Rng.Intn(9) {
	case 0:
		return `\d`, func(b byte) bool { return b >= '0' && b <= '9' }
	case 1:
		return `\w`, func(b byte) bool {
			return b >= '0' && b <= '9' || b >= 'a' && b <= 'z' || b >= 'A' && b <= 'Z' || b == '_'
		}
	case 2:
		return `[:xdigit:]`, func(b byte) bool {
			return b >= '0' && b <= '9' || b >= 'a' && b <= 'f' || b >= 'A' && b <= 'F'
		}
	case 3:
		return `[:alpha:]`, func(b byte) bool { return b >= 'a' && b <= 'z' || b >= 'A' && b <= 'Z' }
	case 4:
		lo := byte('a' + c.Rng.Intn(3))
		hi := lo + byte(c.Rng.Intn(3))
		return string(lo) + "-" + string(hi), func(b byte) bool { return b >= lo && b <= hi }
	case 5:
		lo := byte('0' + c.Rng.Intn(5))
		hi := lo + byte(c.Rng.Intn(5))
		return string(lo) + "-" + string(hi), func(b byte) bool { return b >= lo && b <= hi }
	case 6:
		ch := []byte{'\\', '"', '.', '+', '/'}[c.Rng.Intn(5)]
		return `\` + string(ch), func(b byte) bool { return b == ch }
	default:
		ch := "ab01._e :"[c.Rng.Intn(9)]
		return string(ch), func(b byte) bool { return b == ch }
	}
}

func c08GenRe(c *Ctx, depth int) c08Re {
	k := c.Rng.Intn(12)
	if depth <= 0 && k >= 6 {
		k = c.Rng.Intn(6)
	}
	switch k {
	case 0, 1:
		ch := c08ReAlpha[c.Rng.Intn(len(c08ReAlpha))]
		return c08Re{src: c08ReLit(ch), sample: func(*Ctx) string { return string(ch) }}
	case 2:
		src, in := c08ReClassItem(c)
		if src[0] != '\\' {
			src = "[" + src + "]"
		}
		return c08Re{src: src, sample: func(c *Ctx) string { return c08PickByte(c, in, true) }}
	case 3:
		// bracket class of 1-3 items, possibly negated
		n := 1 + c.Rng.Intn(3)
		var sb strings.Builder
		neg := c.Rng.Intn(3) == 0
		sb.WriteString("[")
		if neg {
			sb.WriteString("^")
		}
		var preds []func(byte) bool
		for i := 0; i < n; i++ {
			s, p := c08ReClassItem(c)
			sb.WriteString(s)
			preds = append(preds, p)
		}
		if c.Rng.Intn(8) == 0 {
			sb.WriteString("-")
			preds = append(preds, func(b byte) bool { return b == '-' })
		}
		sb.WriteString("]")
		in := func(b byte) bool {
			for _, p := range preds {
				if p(b) {
					return true
				}
			}
			return false
		}
		return c08Re{src: sb.String(), sample: func(c *Ctx) string {
			if neg && c.Rng.Intn(3) == 0 {
				return []string{"é", "\xff", "😀", "\xe2\x98", "\n", "\x00"}[c.Rng.Intn(6)]
			}
			return c08PickByte(c, in, !neg)
		}}
	case 4:
		return c08Re{src: `\b`, nullable: true, sample: func(*Ctx) string { return "" }}
	case 5:
		if c.Rng.Intn(6) == 0 {
			return c08Re{src: `^`, nullable: true, sample: func(*Ctx) string { return "" }}
		}
		return c08Re{src: `\d`, sample: func(c *Ctx) string { return string(byte('0' + c.Rng.Intn(10))) }}
	case 6, 7:
		// concatenation
		n := 2 + c.Rng.Intn(3)
		parts := make([]c08Re, n)
		var sb strings.Builder
		nullable, unb := true, false
		for i := range parts {
			parts[i] = c08GenRe(c, depth-1)
			sb.WriteString(parts[i].src)
			nullable = nullable && parts[i].nullable
			unb = unb || parts[i].unb
		}
		return c08Re{src: c08Group(c, sb.String()), nullable: nullable, unb: unb, sample: func(c *Ctx) string {
			var o strings.Builder
			for _, p := range parts {
				o.WriteString(p.sample(c))
			}
			return o.String()
		}}
	case 8:
		// alternation (an alternative may be empty)
		n := 2 + c.Rng.Intn(2)
		parts := make([]c08Re, n)
		srcs := make([]string, n)
		nullable, unb := false, false
		for i := range parts {
			if c.Rng.Intn(10) == 0 {
				parts[i] = c08Re{src: "", nullable: true, sample: func(*Ctx) string { return "" }}
			} else {
				parts[i] = c08GenRe(c, depth-1)
			}
			srcs[i] = parts[i].src
			nullable = nullable || parts[i].nullable
			unb = unb || parts[i].unb
		}
		open := "(?:"
		if c.Rng.Intn(4) == 0 {
			open = "("
		}
		return c08Re{src: open + strings.Join(srcs, "|") + ")", nullable: nullable, unb: unb, sample: func(c *Ctx) string {
			return parts[c.Rng.Intn(n)].sample(c)
		}}
	default:
		// repetition of an atom / group
		a := c08GenRe(c, depth-1)
		src := a.src
		if !c08IsAtom(src) {
			src = "(?:" + src + ")"
		}
		if strings.HasSuffix(src, `\b`) && len(src) == 2 || src == "^" {
			// repetition of a bare anchor: not generated
			return a
		}
		mn, mx := 0, -1
		var op string
		switch c.Rng.Intn(7) {
		case 0:
			op, mn, mx = "*", 0, -1
		case 1:
			op, mn, mx = "+", 1, -1
		case 2, 3:
			op, mn, mx = "?", 0, 1
		case 4:
			mn = c.Rng.Intn(4)
			mx = mn
			op = fmt.Sprintf("{%d}", mn)
		case 5:
			mn = c.Rng.Intn(3)
			mx = mn + c.Rng.Intn(4)
			op = fmt.Sprintf("{%d,%d}", mn, mx)
		default:
			mn = c.Rng.Intn(3)
			op = fmt.Sprintf("{%d,}", mn)
		}
		if mx < 0 && a.nullable {
			// unbounded repetition of a body that can match the empty string is outside what the
			// correspondence claims (Go's treatment of empty iterations changed between releases)
			op, mn, mx = "?", 0, 1
		}
		if mx < 0 && a.unb {
			// star height 1 (see c08Re.unb)
			mn = c.Rng.Intn(3)
			mx = mn + c.Rng.Intn(3)
			op = fmt.Sprintf("{%d,%d}", mn, mx)
		}
		return c08Re{src: src + op, nullable: a.nullable || mn == 0, unb: a.unb || mx < 0, sample: func(c *Ctx) string {
			n := mn
			if mx < 0 {
				n += c.Rng.Intn(4)
			} else if mx > mn {
				n += c.Rng.Intn(mx - mn + 1)
			}
			var o strings.Builder
			for i := 0; i < n; i++ {
				o.WriteString(a.sample(c))
			}
			return o.String()
		}}
	}
}

func c08Group(c *Ctx, s string) string {
	if c.Rng.Intn(3) == 0 {
		return "(?:" + s + ")"
	}
	return s
}

// c08IsAtom: is src a single atom (one literal, escape, class or group) so that a postfix
// operator applies to all of it?
func c08IsAtom(src string) bool {
	if len(src) == 1 {
		return true
	}
	if len(src) == 2 && src[0] == '\\' {
		return true
	}
	if src[0] == '[' {
		// one class: the first unescaped, non-posix-class ']' is the last byte
		i := 1
		if i < len(src) && src[i] == '^' {
			i++
		}
		for i < len(src) {
			switch {
			case src[i] == '\\':
				i += 2
			case strings.HasPrefix(src[i:], "[:"):
				j := strings.Index(src[i:], ":]")
				if j < 0 {
					return false
				}
				i += j + 2
			case src[i] == ']':
				return i == len(src)-1
			default:
				i++
			}
		}
		return false
	}
	if src[0] == '(' {
		depth := 0
		for i := 0; i < len(src); i++ {
			switch src[i] {
			case '\\':
				i++
			case '[':
				// skip the class
				j := i + 1
				for j < len(src) && src[j] != ']' {
					if src[j] == '\\' {
						j++
					} else if strings.HasPrefix(src[j:], "[:") {
						j += strings.Index(src[j:], ":]") + 1
					}
					j++
				}
				i = j
			case '(':
				depth++
			case ')':
				depth--
				if depth == 0 {
					return i == len(src)-1
				}
			}
		}
	}
	return false
}

func c08PickByte(c *Ctx, in func(byte) bool, want bool) string {
	const pool = "ab01-._e\"\\ :+cdfAZz9_/\n"
	for try := 0; try < 40; try++ {
		b := pool[c.Rng.Intn(len(pool))]
		if in(b) == want {
			return string(b)
		}
	}
	return "a"
}

func c08ReInputs(c *Ctx, re c08Re) []string {
	var ins []string
	n := 5
	for i := 0; i < n; i++ {
		var s string
		switch c.Rng.Intn(4) {
		case 0:
			// random string over the alphabet
			k := c.Rng.Intn(8)
			b := make([]byte, k)
			for j := range b {
				b[j] = c08ReAlpha[c.Rng.Intn(len(c08ReAlpha))]
			}
			s = string(b)
		default:
			s = re.sample(c)
			switch c.Rng.Intn(4) {
			case 0:
				s += re.sample(c)
			case 1:
				if len(s) > 0 {
					// corrupt one byte
					b := []byte(s)
					b[c.Rng.Intn(len(b))] = c08ReAlpha[c.Rng.Intn(len(c08ReAlpha))]
					s = string(b)
				}
			}
		}
		if len(s) > 24 {
			s = s[:24]
		}
		if c.Rng.Intn(2) == 0 {
			s += []string{" ", "a", "0", "_", ".", "\"", "é", "\xff", ",", "-", "e5", "\xe2\x98\x83", "\xe2\x98"}[c.Rng.Intn(13)]
		}
		ins = append(ins, s)
	}
	return ins
}

func c08Regex(c *Ctx) {
	r := c.Res
	t0 := time.Now()
	defer func() { r.note("regex phase: %.1fs", time.Since(t0).Seconds()) }()
	n := 1500
	if c.Thorough {
		n = 60000
	}
	type pair struct{ src, in string }
	var pairs []pair
	var res []*regexp.Regexp
	// fixed cases where leftmost-first and leftmost-longest differ, and Go-specific corners
	fixed := []pair{
		{`^(?:a|ab)(?:c|bcd)?`, "abcd"}, {`^(?:a|ab)`, "ab"}, {`^(?:ab|a)`, "ab"}, {`^a*?`, "aa"},
		{`^(?:a|ab)*c`, "abac"}, {`^(a|ab)(c|bcd)(d*)`, "abcd"}, {`^a{2,3}`, "aaaa"}, {`^a{2,3}a`, "aaa"},
		{`^(?:a{1,2}){2}`, "aaa"}, {`^[^a]b`, "éb"}, {`^[^a]b`, "\xffb"}, {`^[^a][^a]b`, "\xe2\x98b"},
		{`^\w+\b`, "ab_1é"}, {`^\w+\b`, "ab-"}, {`^a\b`, "ab"}, {`^-\b`, "-a"}, {`^-\b`, "--"},
		{`^a**`, "aa"}, {`^a{1001}`, "a"}, {`^a{2,1}`, "a"}, {`^[a`, "a"}, {`^(a`, "a"}, {`^a)`, "a"},
		{`^[]a]`, "]"}, {`^[a-]`, "-"}, {`^[\d-z]`, "-"}, {`^a|b`, "b"}, {`^a|^b`, "b"}, {`^(?:)`, "x"}, {`^(|a)b`, "ab"},
		{`^\d+(?:(?:\.\d+)?[eE][+-]?|\.)\d+\b`, "1.5e3"}, {`^-?\d+(:?(?:\.\d+)?[eE][+-]?|\.)\d+\b`, "1:e5"},
	}
	pairs = append(pairs, fixed...)
	for i := 0; i < n; i++ {
		re := c08GenRe(c, 3)
		src := "^" + re.src
		for _, in := range c08ReInputs(c, re) {
			pairs = append(pairs, pair{src, in})
		}
	}
	reqs := make([][]string, len(pairs))
	cache := map[string]*regexp.Regexp{}
	bad := map[string]bool{}
	for i, p := range pairs {
		reqs[i] = []string{"C08.re", hx(p.src), hx(p.in)}
		if _, ok := cache[p.src]; !ok && !bad[p.src] {
			re, err := regexp.Compile(p.src)
			if err != nil {
				bad[p.src] = true
			} else {
				cache[p.src] = re
			}
		}
		res = append(res, cache[p.src])
	}
	reps := c.Drv.AskBatch(reqs)
	inSubsetFixed := map[string]bool{`^a*?`: true, `^[]a]`: true, `^[\d-z]`: true}
	for i, p := range pairs {
		var g string
		if res[i] == nil {
			g = "bad"
		} else {
			g = optHexGo(res[i].Find([]byte(p.in)))
		}
		nontriv := g != "bad" && g != "none"
		r.count("re:"+p.src+"\x00"+p.in, nontriv)
		switch {
		case g == "bad":
			r.hist("regex:go-rejects")
		case g == "none":
			r.hist("regex:no-match")
		case g == "some -":
			r.hist("regex:empty-match")
		default:
			r.hist("regex:match")
		}
		if i%997 == 0 {
			r.sample(map[string]string{"regex": p.src, "input": strconv.Quote(p.in), "go_Find": g, "model_pmatch": reps[i]})
		}
		if reps[i] == "bad" && g != "bad" && i < len(fixed) && inSubsetFixed[p.src] {
			// accepted by Go, deliberately outside the model's subset
			r.hist("regex:outside-subset")
			continue
		}
		if g != reps[i] {
			r.violate(Violation{Kind: "correspondence", Key: "C08:regex-matcher-mismatch",
				What:  "Go regexp (Compile + Find, leftmost-first) differs from the Lean regex parser + matcher (Martian.Regex.parse / pmatch) on a regex of the modelled syntax subset",
				Input: map[string]string{"regex": p.src, "input": strconv.Quote(p.in)}, Impl: g, Model: reps[i],
				Broken: "correspondence C08.re (Martian.Regex.pmatch; theorems Props.C08.*_rule_is_regex rest on it)"})
		}
	}

	// the four rule regexes as found in the source, through the generic matcher, vs the real rules
	var heads []string
	for i := 0; i < n; i++ {
		switch c.Rng.Intn(4) {
		case 0:
			heads = append(heads, c08GenNum(c))
		case 1:
			heads = append(heads, c08GenStr(c))
		case 2:
			heads = append(heads, c08GenIdent(c))
		default:
			heads = append(heads, c08GenNum(c)+c08GenIdent(c))
		}
	}
	var rreqs [][]string
	for _, h := range heads {
		for _, nm := range []string{"int", "float", "string", "id"} {
			rreqs = append(rreqs, []string{"C08.rule", nm, hx(h)})
		}
	}
	rreps := c.Drv.AskBatch(rreqs)
	for i, h := range heads {
		b := []byte(h)
		gos := []string{optHexGo(syntax.VerifTokInt(b)), optHexGo(syntax.VerifTokFloat(b)),
			optHexGo(syntax.VerifTokString(b)), optHexGo(syntax.VerifTokId(b))}
		nontriv := false
		for j, nm := range []string{"int", "float", "string", "id"} {
			if gos[j] != "none" {
				nontriv = true
				r.hist("rule-regex:" + nm + ":match")
			}
			if gos[j] != rreps[4*i+j] {
				r.violate(Violation{Kind: "correspondence", Key: "C08:rule-regex-mismatch:" + nm,
					What:  "token rule " + nm + " of tokenizer.go differs from the Lean generic matcher applied to the regenerated, parsed regex of that rule",
					Input: strconv.Quote(h), Impl: gos[j], Model: rreps[4*i+j],
					Broken: "correspondence C08.rule (Martian.Regex.pmatch on Gen.tok*Regex; Props.C08." + nm + "_rule_is_regex)"})
			}
		}
		r.count("rule:"+h, nontriv)
	}
}

var c08IdPieces = []string{"a", "b", "_", "__", "A", "Z", "x1", "9", "0", "foo", "STAGE", "stage", "in", "int", "inx", "é", "\xff", "-", ".", " ", "e5", "map", "mem_gb", "memgb", "self", "selfish", "default", "p", "py", "comp", "comp_", "true", "tru", "filetype"}

func c08GenIdent(c *Ctx) string {
	var sb strings.Builder
	n := 1 + c.Rng.Intn(4)
	for i := 0; i < n; i++ {
		sb.WriteString(c08IdPieces[c.Rng.Intn(len(c08IdPieces))])
	}
	if c.Rng.Intn(3) == 0 {
		sb.WriteString([]string{" ", ",", ".", "(", "é", "\xff", "\n", "="}[c.Rng.Intn(8)])
	}
	return sb.String()
}

// ---------- whole tokenizer: token streams of the real scanner loop vs the model ----------

var c08StreamPieces = []string{
	// keywords and near-keywords
	"stage", "stagex", "sta", "mem_gb", "memgb", "vmem_gb", "vmemgb", "in", "int", "inx", "@include", "@includex", "@inc", "@",
	"_", "__a", "_1", "_a", "pipeline", "call", "comp", "compiled", "return", "retain", "out", "src", "as", "filetype", "map",
	"string", "struct", "strict", "float", "false", "path", "bool", "split", "using", "local", "preflight", "volatile",
	"disabled", "threads", "special", "py", "exec", "self", "true", "null", "default", "defaultx", "FOO", "a1", "é", "aé", "stageé", "in\x80",
	// punctuation
	"(", ")", "*", ",", ".", ":", ";", "<", "=", ">", "[", "]", "{", "}", "$", "!", "+", "/", "'", "\\", "~", "|",
	// comments
	"# x\n", "#", "# \u00e9\n", "# \xff\n", "# \xef\xbf\xbd\n", "#\n#\n", "# no newline", "#  padded \t \n", "# nbsp\u00a0\n", "# x\u2003\u3000\n",
	"# cr\r\n", "#\u0085", "# a\xe2\x80", "#\u2028#", "# \u200b \n", "#\x00\n",
	// white space
	" ", "\n", "\t\r\n", "\v\f", "  ", "\n\n", " \n ", "\u00a0", "\u0085", "\u1680", "\u2003", "\u2028", "\u2029", "\u202f", "\u205f", "\u3000", "\u2000", "\u200a",
	"\u200b", "\ufeff", "\ufffd", "\u180e", "\x80", "\x85", "\xa0", "\xc2", "\xe2\x80", "\u00a0 \u2003", " \n\u3000", "\u00a0\x80", " \xff", " \ufffd", "\u2028\n",
	// strings
	`"a"`, "\"a\nb\"", `""`, `"\n"`, "\"\n\n\"", `"a`, `"\q"`, "\"é\"", "\"\xff\"",
	// invalid bytes and control characters
	"\x00", "\xff", "\xfe\xff", "\x7f", "\x1b", "\xc0\x80", "\xed\xa0\x80", "\xf4\x90\x80\x80", "\xf0\x9f\x98\x80",
	// numbers
	"0", "-", "-1", "1.5", "1e5", "1.", "-x", "1x", "99999999999999999999", "1e999", "007",
}

type c08Stream struct {
	src  string
	kind string
}

func c08GenStreams(c *Ctx, n int) []c08Stream {
	var out []c08Stream
	// (a) the repo's .mro files whole, and byte-level mutants of them
	prog, _ := c08LoadSeeds(c)
	var files []string
	for _, sd := range prog {
		files = append(files, string(sd.src))
	}
	for _, f := range files {
		out = append(out, c08Stream{f, "file"})
	}
	// the inputs of the theorems Props.C08.line_count_quirks and of the non-vacuity example,
	// replayed on the real scanner (compared with the model like every other source)
	for _, f := range []string{"\"a\nb\" x", "#\xff", "in x\n#\n$"} {
		out = append(out, c08Stream{f, "theorem-witness"})
	}
	breaking := map[string]bool{}
	for _, p := range c08StreamPieces {
		if _, toks, _, pn := c08GoLex(p + " "); pn == "" && len(toks) > 0 && toks[len(toks)-1].Id == syntax.VerifTokINVALID {
			breaking[p] = true
		}
	}
	piece := func() string {
		switch k := c.Rng.Intn(20); {
		case k == 0:
			return c08GenNum(c)
		case k == 1:
			return c08GenStr(c)
		case k == 2:
			return c08GenIdent(c)
		default:
			// a piece that ends the scan (INVALID) only now and then: what follows it is never scanned
			for {
				p := c08StreamPieces[c.Rng.Intn(len(c08StreamPieces))]
				if !breaking[p] || c.Rng.Intn(12) == 0 {
					return p
				}
			}
		}
	}
	nmut := n / 10
	for i := 0; i < nmut && len(files) > 0; i++ {
		b := []byte(files[c.Rng.Intn(len(files))])
		if len(b) > 1500 {
			// a window of the file (keeps the quick tier fast)
			st := c.Rng.Intn(len(b) - 1500)
			b = b[st : st+1500]
		}
		for k := 1 + c.Rng.Intn(3); k > 0 && len(b) > 0; k-- {
			at := c.Rng.Intn(len(b))
			switch c.Rng.Intn(4) {
			case 0:
				b = append(b[:at:at], append([]byte{byte(c.Rng.Intn(256))}, b[at:]...)...)
			case 1:
				b = append(b[:at:at], b[at+1:]...)
			case 2:
				b[at] = byte(c.Rng.Intn(256))
			default:
				b = append(b[:at:at], append([]byte(piece()), b[at:]...)...)
			}
		}
		out = append(out, c08Stream{string(b), "file-mutant"})
	}
	// (b) random concatenations of pieces, with and without separators
	for i := 0; i < n; i++ {
		k := 1 + c.Rng.Intn(40)
		if c.Rng.Intn(3) != 0 {
			k = 1 + c.Rng.Intn(8)
		}
		sepMode := c.Rng.Intn(3)
		var sb strings.Builder
		for j := 0; j < k; j++ {
			sb.WriteString(piece())
			switch {
			case sepMode == 1, sepMode == 2 && c.Rng.Intn(2) == 0:
				sb.WriteString([]string{" ", " ", "\n", ", ", "\t", "\n  ", " ", " # c\n"}[c.Rng.Intn(8)])
			}
		}
		out = append(out, c08Stream{sb.String(), "pieces"})
	}
	return out
}

// c08NoProgress walks the source with nextToken alone: the scanner loop (mmLexInfo.Lex) advances by
// the length of the text nextToken returns and only stops at the end of the input or on INVALID, so
// an empty token that is not INVALID at a position it reaches means it never returns.
func c08NoProgress(src string) string {
	b := []byte(src)
	for p := 0; p < len(b); {
		id, v := syntax.VerifNextToken(b[p:])
		if id == syntax.VerifTokINVALID {
			return ""
		}
		if len(v) == 0 {
			return fmt.Sprintf("nextToken returns the empty token %d (%s) at offset %d (%q): the loop of Lex cannot advance", id, c08TokName(id), p, c08Head(b[p:]))
		}
		if len(v) > len(b)-p {
			return ""
		}
		p += len(v)
	}
	return ""
}

func c08Head(b []byte) string {
	if len(b) > 8 {
		b = b[:8]
	}
	return string(b)
}

// c08GoLex renders the real scanner's result in the format of the driver's C08.lex reply.  panicked
// is the panic value, or starts with "HANG" when the scanner loop would not / did not return (found
// by c08NoProgress without entering the loop, or by the deadline).
func c08GoLex(src string) (rendered string, toks []syntax.VerifTok, pos int, panicked string) {
	type res struct {
		rendered string
		toks     []syntax.VerifTok
		pos      int
		panicked string
	}
	if c08ScannerHung {
		return "", nil, 0, "HANG (not called again: the tokenizer did not return on an earlier input)"
	}
	ch := make(chan res, 1)
	go func() {
		var o res
		defer func() { ch <- o }()
		o.rendered, o.toks, o.pos, o.panicked = c08GoLexRaw(src)
	}()
	t := time.NewTimer(c08ScanDeadline)
	defer t.Stop()
	select {
	case o := <-ch:
		return o.rendered, o.toks, o.pos, o.panicked
	case <-t.C:
		c08ScannerHung = true
		return "", nil, 0, "HANG: the scanner loop did not return within " + c08ScanDeadline.String()
	}
}

func c08GoLexRaw(src string) (rendered string, toks []syntax.VerifTok, pos int, panicked string) {
	defer func() {
		if p := recover(); p != nil {
			panicked = fmt.Sprint(p)
		}
	}()
	if why := c08NoProgress(src); why != "" {
		return "", nil, 0, "HANG: " + why
	}
	toks, cms, pos := syntax.VerifLexAll([]byte(src), 1<<20)
	ts := make([]string, len(toks))
	for i, t := range toks {
		ts[i] = fmt.Sprintf("%d:%s:%d:%d", t.Id, hx(string(t.Text)), t.Line, t.Col)
	}
	cs := make([]string, len(cms))
	for i, cm := range cms {
		cs[i] = fmt.Sprintf("%d:%d:%s", cm.Line, cm.Col, hx(cm.Value))
	}
	j := func(xs []string) string {
		if len(xs) == 0 {
			return "."
		}
		return strings.Join(xs, " ")
	}
	return j(ts) + " | " + j(cs) + " | " + strconv.Itoa(pos), toks, pos, ""
}

// c08TokNames: id -> name of the token constants of grammar.go as regenerated into Gen.tokIds
// (driver op C08.tokids); checked against syntax.VerifTokenName (mmTok2/mmToknames) at the start of
// c08TokenStream.
var c08TokNames map[int]string

func c08TokName(id int) string {
	if id > 0 && id < 128 {
		return "'" + string(rune(id)) + "'"
	}
	if nm, ok := c08TokNames[id]; ok {
		return nm
	}
	return strconv.Itoa(id)
}

// c08ReadableTok turns one `id:hex:line:col` (token) or `line:col:hex` (comment) item into text.
func c08ReadableItem(section int, item string) string {
	f := strings.Split(item, ":")
	if section == 0 && len(f) == 4 {
		id, _ := strconv.Atoi(f[0])
		return fmt.Sprintf("token %s %s at line %s col %s", c08TokName(id), strconv.Quote(unhx(f[1])), f[2], f[3])
	}
	if section == 1 && len(f) == 3 {
		return fmt.Sprintf("comment %s at line %s col %s", strconv.Quote(unhx(f[2])), f[0], f[1])
	}
	if section == 2 {
		return "final position " + item
	}
	return item
}

// c08FirstDiff: the first differing item of two C08.lex renderings, readable.
func c08FirstDiff(impl, model string) (string, string) {
	is, ms := strings.Split(impl, " | "), strings.Split(model, " | ")
	if len(is) != 3 || len(ms) != 3 {
		return impl, model
	}
	for sec := 0; sec < 3; sec++ {
		if is[sec] == ms[sec] {
			continue
		}
		ia, ma := strings.Fields(is[sec]), strings.Fields(ms[sec])
		if is[sec] == "." {
			ia = nil
		}
		if ms[sec] == "." {
			ma = nil
		}
		for k := 0; k < len(ia) || k < len(ma); k++ {
			a, b := "(no further item)", "(no further item)"
			if k < len(ia) {
				a = c08ReadableItem(sec, ia[k])
			}
			if k < len(ma) {
				b = c08ReadableItem(sec, ma[k])
			}
			if a != b {
				return fmt.Sprintf("item %d: %s", k, a), fmt.Sprintf("item %d: %s", k, b)
			}
		}
	}
	return impl, model
}

// c08WalkTokens monitors the real tokenizer directly: nextToken on every head the scanner loop
// reaches returns a prefix of the head, non-empty unless INVALID; the tokens the loop returns are
// exactly those pieces of the source, in order, and its final position is where the walk ends.
func c08WalkTokens(src string, toks []syntax.VerifTok, pos int) string {
	b := []byte(src)
	p, k := 0, 0
	for p < len(b) {
		id, v := syntax.VerifNextToken(b[p:])
		if len(v) > len(b)-p || string(v) != string(b[p:p+len(v)]) {
			return fmt.Sprintf("nextToken at offset %d returned %q, not a prefix of the input there", p, v)
		}
		if len(v) == 0 && id != syntax.VerifTokINVALID {
			return fmt.Sprintf("nextToken at offset %d returned an empty token %d that is not INVALID (the scanner loop cannot advance)", p, id)
		}
		if id != syntax.VerifTokSKIP && id != syntax.VerifTokCOMMENT {
			if k >= len(toks) || toks[k].Id != id || string(toks[k].Text) != string(v) {
				return fmt.Sprintf("token %d of the scanner loop is not the text at offset %d (%q)", k, p, v)
			}
			k++
		}
		p += len(v)
		if id == syntax.VerifTokINVALID {
			break
		}
	}
	if k != len(toks) {
		return fmt.Sprintf("the scanner loop returned %d tokens, the input has %d", len(toks), k)
	}
	if p != pos {
		return fmt.Sprintf("the scanner loop ended at offset %d, the tokens end at %d", pos, p)
	}
	return ""
}

// c08ShrinkBytes: greedy shrink of a byte string under pred (drop chunks of halving size, then
// truncate), at most budget evaluations of pred.
func c08ShrinkBytes(src string, pred func(string) bool, budget int) string {
	cur := src
	for chunk := (len(cur) + 1) / 2; chunk >= 1 && budget > 0; {
		changed := false
		for at := 0; at < len(cur) && budget > 0; {
			end := at + chunk
			if end > len(cur) {
				end = len(cur)
			}
			cand := cur[:at] + cur[end:]
			budget--
			if cand != cur && pred(cand) {
				cur = cand
				changed = true
			} else {
				at += chunk
			}
		}
		if chunk == 1 && !changed {
			break
		}
		if chunk > 1 {
			chunk = (chunk + 1) / 2
		}
	}
	return cur
}

func c08TokenStream(c *Ctx) {
	r := c.Res
	n := 3000
	if c.Thorough {
		n = 90000
	}
	t0 := time.Now()
	c08TokNames = map[int]string{}
	for _, f := range strings.Fields(c.Drv.Ask("C08.tokids")) {
		if nv := strings.SplitN(f, "=", 2); len(nv) == 2 {
			if id, err := strconv.Atoi(nv[1]); err == nil {
				c08TokNames[id] = nv[0]
			}
		}
	}
	// the regenerated token constants against the names the generated parser itself uses
	for id, nm := range c08TokNames {
		if g := syntax.VerifTokenName(id); g != nm {
			r.violate(Violation{Kind: "correspondence", Key: "C08:token-id-table-mismatch",
				What:  "a token constant regenerated from grammar.go (Gen.tokIds) is not the token the generated parser knows under that number (mmTok2/mmToknames)",
				Input: fmt.Sprintf("%s = %d", nm, id), Impl: g, Model: nm, Broken: "fact Gen.tokIds"})
		}
	}
	streams := c08GenStreams(c, n)
	reqs := make([][]string, len(streams))
	for i, s := range streams {
		reqs[i] = []string{"C08.lex", hx(s.src)}
	}
	reps := c.Drv.AskBatch(reqs)
	ntok, nbytes := 0, 0
	reported := map[string]bool{}
	for i, s := range streams {
		g, toks, pos, panicked := c08GoLex(s.src)
		r.count("stream:"+s.src, len(toks) > 1)
		r.hist("stream:" + s.kind)
		nbytes += len(s.src)
		if strings.HasPrefix(panicked, "HANG") {
			if !reported["hang"] {
				reported["hang"] = true
				small := c08ShrinkBytes(s.src, func(x string) bool { _, _, _, p := c08GoLex(x); return strings.HasPrefix(p, "HANG") }, 300)
				_, _, _, why := c08GoLex(small)
				if !strings.HasPrefix(why, "HANG") {
					small, why = s.src, panicked
				}
				r.violate(Violation{Kind: "property", Key: "C08:hang:lexer",
					What:  "the scanner loop (mmLexInfo.Lex) does not terminate: " + why,
					Input: strconv.Quote(small), Impl: why, Expect: "every iteration consumes at least one byte or returns INVALID",
					Broken: "Props.C08.lexer_progress_full / lex_terminates"})
			}
			continue
		}
		if panicked != "" {
			r.violate(Violation{Kind: "property", Key: "C08:lexer-panic",
				What:  "the scanner loop (mmLexInfo.Lex) panicked: " + panicked,
				Input: strconv.Quote(c08ShrinkBytes(s.src, func(x string) bool { _, _, _, p := c08GoLex(x); return p != "" }, 400))})
			continue
		}
		ntok += len(toks)
		for _, t := range toks {
			nm := c08TokName(t.Id)
			if t.Id < 128 {
				nm = "punct"
			}
			if t.Id == syntax.VerifTokINVALID && len(t.Text) > 0 {
				nm = "INVALID-with-text"
			}
			r.hist("tokkind:" + nm)
		}
		if strings.Contains(g, " | . | ") == false {
			r.hist("stream:with-comments")
		}
		if i%1201 == 7 {
			r.sample(map[string]string{"source": strconv.Quote(s.src), "go_Lex": g, "model_lexAll": reps[i]})
		}
		// the property, directly on the real code
		if why := c08WalkTokens(s.src, toks, pos); why != "" {
			small := c08ShrinkBytes(s.src, func(x string) bool {
				_, tk, ps, p := c08GoLex(x)
				return p == "" && c08WalkTokens(x, tk, ps) != ""
			}, 400)
			_, tk, ps, _ := c08GoLex(small)
			r.violate(Violation{Kind: "property", Key: "C08:lexer-no-progress",
				What:   "the tokenizer returned a token that is not the text of the source at the scan position, or an empty token that is not INVALID: " + c08WalkTokens(small, tk, ps),
				Input:  strconv.Quote(small),
				Expect: "every token is a non-empty prefix of the rest of the input (INVALID may be empty and ends the scan)"})
		}
		// correspondence with the model
		if g != reps[i] {
			small := c08ShrinkBytes(s.src, func(x string) bool {
				gx, _, _, p := c08GoLex(x)
				return p == "" && gx != c.Drv.Ask("C08.lex", hx(x))
			}, 300)
			if reported[small] {
				continue
			}
			reported[small] = true
			gs, _, _, _ := c08GoLex(small)
			ms := c.Drv.Ask("C08.lex", hx(small))
			impl, model := c08FirstDiff(gs, ms)
			r.violate(Violation{Kind: "correspondence", Key: "C08:token-stream-mismatch",
				What:  "the token stream of the real scanner loop (tokens with line and column, comment blocks, final position) differs from the Lean tokenizer model's",
				Input: strconv.Quote(small), Impl: impl, Model: model,
				Broken: "correspondence C08.lex (Martian.Tokenizer.lexAll; Props.C08.lexer_progress_full / lex_reconstructs)"})
		}
	}
	// nextToken alone on single heads (the model's C08.next)
	var heads []string
	for i := 0; i < n/3; i++ {
		h := c08StreamPieces[c.Rng.Intn(len(c08StreamPieces))]
		if c.Rng.Intn(2) == 0 {
			h += c08StreamPieces[c.Rng.Intn(len(c08StreamPieces))]
		}
		heads = append(heads, h)
	}
	hreqs := make([][]string, len(heads))
	for i, h := range heads {
		hreqs[i] = []string{"C08.next", hx(h)}
	}
	hreps := c.Drv.AskBatch(hreqs)
	for i, h := range heads {
		id, v, pn := c08NextTokenGuarded([]byte(h))
		if pn != "" {
			r.violate(Violation{Kind: "property", Key: "C08:panic:nextToken", What: "nextToken panics: " + pn,
				Input: strconv.Quote(h), Impl: "panic: " + pn, Expect: "a token or INVALID", Broken: "Props.C08.lexer_progress_full"})
			continue
		}
		g := fmt.Sprintf("%d %s", id, hx(string(v)))
		r.count("next:"+h, len(v) > 0)
		if g != hreps[i] {
			mf := strings.Fields(hreps[i])
			model := hreps[i]
			if len(mf) == 2 {
				mid, _ := strconv.Atoi(mf[0])
				model = fmt.Sprintf("%s %s", c08TokName(mid), strconv.Quote(unhx(mf[1])))
			}
			r.violate(Violation{Kind: "correspondence", Key: "C08:next-token-mismatch",
				What:  "nextToken differs from the Lean tokenizer model's nextToken",
				Input: strconv.Quote(h), Impl: fmt.Sprintf("%s %s", c08TokName(id), strconv.Quote(string(v))), Model: model,
				Broken: "correspondence C08.next (Martian.Tokenizer.nextToken; Proofs.Tokenizer.nextToken_prefix / nextToken_progress)"})
		}
	}
	r.note("token streams: %d sources (%d bytes, %d tokens returned by Lex) + %d single heads compared with the Lean tokenizer model in %.1fs",
		len(streams), nbytes, ntok, len(heads), time.Since(t0).Seconds())
}
