package main

// Replay of a Tier-A history (SchedTracer.Lines, see tiera_trace.go) by the
// Lean `Sched` model through the driver op `C02.replay` (lean/Driver/C02.lean).
// Used by the C02 / C03 / C05 / C06 runners.

import (
	"fmt"
	"os"
	"path/filepath"
	"sort"
	"strconv"
	"strings"
)

// schedReplayHook lets per-property runners call schedReplay without a
// compile-time dependency on this file.
var schedReplayHook func(c *Ctx, lines []string) (bool, string)

func init() {
	schedReplayHook = schedReplay
	register("SCHED", runSchedCorpus)
}

// schedReplay sends the history to the model.  ok = the model accepted every
// event (all guards held) and every `snapshot` line equals the model's own
// derived node / fork / chunk states.  detail = the driver's answer
// (`ok <n>[ note=failed-fork-masked@<i>]`), or for a rejection
// `reject <index> <reason…> | <the offending line> | context: <3 lines before>`.
func schedReplay(c *Ctx, lines []string) (ok bool, detail string) {
	clean := make([]string, 0, len(lines))
	for _, l := range lines {
		l = strings.TrimSpace(l)
		if l == "" {
			continue
		}
		if strings.ContainsAny(l, ";\t\n") {
			return false, "reject -1 history line contains a separator: " + strconv.Quote(l)
		}
		clean = append(clean, l)
	}
	reply := c.Drv.Ask("C02.replay", strings.Join(clean, ";"))
	if strings.HasPrefix(reply, "ok ") {
		return true, reply
	}
	detail = reply
	f := strings.Fields(reply)
	if len(f) >= 2 && f[0] == "reject" {
		if i, err := strconv.Atoi(f[1]); err == nil && i >= 0 && i < len(clean) {
			from := i - 3
			if from < 0 {
				from = 0
			}
			detail = fmt.Sprintf("%s | line %d: %s | context: %s", reply, i, clean[i],
				strings.Join(clean[from:i], " ; "))
		}
	}
	return false, detail
}

// schedMaskedNote extracts the index of the first masked failed fork from an
// `ok` answer (-1 if none).
func schedMaskedNote(detail string) int {
	const key = "note=failed-fork-masked@"
	if i := strings.Index(detail, key); i >= 0 {
		if n, err := strconv.Atoi(strings.TrimSpace(detail[i+len(key):])); err == nil {
			return n
		}
	}
	return -1
}

// schedEndNote extracts the model's classification of the end state of an accepted
// history (`finished`, `done`, `open:<k>`, `crashed`, `loading`; "" if absent).
func schedEndNote(detail string) string {
	for _, f := range strings.Fields(detail) {
		if strings.HasPrefix(f, "end=") {
			return f[4:]
		}
	}
	return ""
}

// schedHypNote extracts one of the hypothesis flags (`topo`, `ff`, `benign`) of an accepted history:
// "ok", "no" or "" (absent).
func schedHypNote(detail, name string) string {
	for _, f := range strings.Fields(detail) {
		if strings.HasPrefix(f, name+"=") {
			return f[len(name)+1:]
		}
	}
	return ""
}

// SCHED: replay every committed sample history (corpus/sched/*.trace).
func runSchedCorpus(c *Ctx) {
	dir := filepath.Join(filepath.Dir(c.Corpus), "sched")
	files, _ := filepath.Glob(filepath.Join(dir, "*.trace"))
	sort.Strings(files)
	for _, f := range files {
		b, err := os.ReadFile(f)
		if err != nil {
			c.Res.note("cannot read %s: %v", f, err)
			continue
		}
		lines := strings.Split(string(b), "\n")
		ok, detail := schedReplay(c, lines)
		c.Res.count("trace:"+filepath.Base(f), true)
		if !ok {
			c.Res.violate(Violation{Kind: "correspondence", Key: "sched-replay:" + filepath.Base(f),
				What:   "the Sched model rejects a history of the real scheduler: " + detail,
				Input:  filepath.Base(f),
				Broken: "Sched.replay accepts real histories"})
		} else if schedMaskedNote(detail) >= 0 {
			c.Res.note("%s: %s", filepath.Base(f), detail)
		}
	}
}
