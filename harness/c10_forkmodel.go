package main

// C10: the ORDER in which the real code enumerates the forks of a node vs the Lean model
// Martian.ForkOrder (driver op C10.forkorder).
//
// Generated programs: a chain of 2 or 3 map calls (TOP -> P1 -> [P2 ->] LEAF), i.e. SEVERAL fork
// roots for the node of LEAF.  The levels are partitioned into groups; a group is one nested
// collection value (arrays / maps, ragged, with empty and one-element collections) which the
// first call of the group splits and whose elements the following calls of the group split in
// turn (`split self.x`: a root which is not statically known; its elements depend on the parts
// chosen for the calls before it = the model's table).  A group's value is a literal (static) or,
// for the first group only, the output of an upstream stage written as _outs (run time: the static
// list has undetermined parts, Node.expandForks expands it).  A later group is a static root
// AFTER a non-static one.  The int leaf of a finished group is carried down to LEAF so that LEAF
// forks over every call.
//
// Compared, every case: (1) ForkIdSet.MakeForkIds on the compiled call graph, (2) Node.forks of
// the invoked pipestance, (3) for run-time cases Node.forks after Node.expandForks - each as the
// exact sequence of forks in the model's part notation (core hooks VerifC10CompiledForkParts /
// VerifC10NodeForkParts / VerifC10ExpandForkParts) against the model's reply.  Map keys are handed
// to the model in Go map order (and, for literals, in generation order).

import (
	"encoding/hex"
	"encoding/json"
	"fmt"
	"math/rand"
	"os"
	"path/filepath"
	"strconv"
	"strings"

	"github.com/martian-lang/martian/martian/core"
)

type fmTree struct {
	isMap bool
	keys  []string  // map keys in generation order
	kids  []*fmTree // nil for the innermost collection (int leaves)
	n     int
}

type fmGroup struct {
	flags []bool // isMap per level of the group, outermost first
	tree  *fmTree
	rt    bool
}

type fmCase struct {
	Name   string
	Shape  string
	Src    string
	Fqid   string
	Outs   map[string]string
	Roots  string
	Table  string
	RtTab  string // "." when there is no run-time group
	Levels int
}

const fmKeyAlphabet = "abcxyzABZ019_-. +~!é"

func fmKey(rng *rand.Rand, taken map[string]bool) string {
	rs := []rune(fmKeyAlphabet)
	for {
		var sb strings.Builder
		for l := 1 + rng.Intn(4); l > 0; l-- {
			sb.WriteRune(rs[rng.Intn(len(rs))])
		}
		k := sb.String()
		if !taken[k] {
			taken[k] = true
			return k
		}
	}
}

// a collection of the given shape; `last` = this group ends the chain (its innermost size may be large)
func fmGenTree(rng *rand.Rand, flags []bool, last, allowEmpty bool) *fmTree {
	t := &fmTree{isMap: flags[0]}
	switch x := rng.Intn(20); {
	case x < 2 && allowEmpty:
		t.n = 0
	case x < 5:
		t.n = 1
	case len(flags) == 1 && last && x < 9:
		t.n = 5 + rng.Intn(8) // up to 12
	default:
		t.n = 2 + rng.Intn(3)
	}
	if t.isMap {
		taken := map[string]bool{}
		for i := 0; i < t.n; i++ {
			t.keys = append(t.keys, fmKey(rng, taken))
		}
	}
	if len(flags) > 1 {
		for i := 0; i < t.n; i++ {
			t.kids = append(t.kids, fmGenTree(rng, flags[1:], last, allowEmpty))
		}
	}
	return t
}

// give every collection of the same nesting level the same length / key set
func (t *fmTree) makeUniform(rng *rand.Rand) {
	level := []*fmTree{t}
	for len(level) > 0 && level[0].kids != nil {
		var next []*fmTree
		for _, n := range level {
			next = append(next, n.kids...)
		}
		if len(next) == 0 {
			return
		}
		proto := next[0]
		for _, n := range next[1:] {
			n.n = proto.n
			n.keys = append([]string(nil), proto.keys...)
			rng.Shuffle(len(n.keys), func(i, j int) { n.keys[i], n.keys[j] = n.keys[j], n.keys[i] })
			if proto.kids != nil {
				for len(n.kids) < n.n {
					n.kids = append(n.kids, proto.kids[len(n.kids)%len(proto.kids)])
				}
				n.kids = n.kids[:n.n]
			}
		}
		level = next
	}
}

// the collections `depth` levels below t
func (t *fmTree) atDepth(depth int) []*fmTree {
	level := []*fmTree{t}
	for ; depth > 0; depth-- {
		var next []*fmTree
		for _, n := range level {
			next = append(next, n.kids...)
		}
		level = next
	}
	return level
}

func (t *fmTree) sameElems(o *fmTree) bool {
	if t.isMap != o.isMap || t.n != o.n {
		return false
	}
	if t.isMap {
		m := map[string]bool{}
		for _, k := range t.keys {
			m[k] = true
		}
		for _, k := range o.keys {
			if !m[k] {
				return false
			}
		}
	}
	return true
}

// the collections at this nesting level all have the same length / key set: the code knows
// the source of the inner call statically (it does not depend on the outer element)
func fmUniform(level []*fmTree) bool {
	if len(level) == 0 {
		return false
	}
	for _, n := range level[1:] {
		if !level[0].sameElems(n) {
			return false
		}
	}
	return true
}

func (t *fmTree) literal(rng *rand.Rand) string {
	var parts []string
	for i := 0; i < t.n; i++ {
		v := fmt.Sprint(rng.Intn(100))
		if t.kids != nil {
			v = t.kids[i].literal(rng)
		}
		if t.isMap {
			parts = append(parts, fmt.Sprintf("%q: %s", t.keys[i], v))
		} else {
			parts = append(parts, v)
		}
	}
	if t.isMap {
		return "{" + strings.Join(parts, ", ") + "}"
	}
	return "[" + strings.Join(parts, ", ") + "]"
}

func (t *fmTree) value() interface{} {
	if t.isMap {
		m := map[string]interface{}{}
		for i, k := range t.keys {
			if t.kids != nil {
				m[k] = t.kids[i].value()
			} else {
				m[k] = i
			}
		}
		return m
	}
	a := make([]interface{}, t.n)
	for i := range a {
		if t.kids != nil {
			a[i] = t.kids[i].value()
		} else {
			a[i] = i
		}
	}
	return a
}

func fmType(flags []bool) string {
	t := "int"
	for i := len(flags) - 1; i >= 0; i-- {
		if flags[i] {
			t = "map<" + t + ">"
		} else {
			t += "[]"
		}
	}
	return t
}

// the model's notation for the elements of a collection; map keys in Go map order
func (t *fmTree) elems() string {
	if !t.isMap {
		return fmt.Sprintf("a%d", t.n)
	}
	m := map[string]bool{}
	for _, k := range t.keys {
		m[k] = true
	}
	var ks []string
	for k := range m {
		ks = append(ks, hex.EncodeToString([]byte(k)))
	}
	return "m" + strings.Join(ks, ",")
}

func (t *fmTree) part(i int) string {
	if t.isMap {
		return "k" + hex.EncodeToString([]byte(t.keys[i]))
	}
	return fmt.Sprintf("i%d", i)
}

func fmPre(pre []string) string {
	if len(pre) == 0 {
		return "."
	}
	return strings.Join(pre, "+")
}

func fmGenCase(rng *rand.Rand, idx int) *fmCase {
	L := 2 + rng.Intn(2)
	// partition the levels into groups
	var depths []int
	for rest := L; rest > 0; {
		d := 1 + rng.Intn(rest)
		depths = append(depths, d)
		rest -= d
	}
	var groups []*fmGroup
	prevMap := false
	for gi, d := range depths {
		g := &fmGroup{}
		groupHasMap := false
		for i := 0; i < d; i++ {
			isMap := rng.Intn(2) == 0
			if (prevMap || groupHasMap) && isMap {
				// MRO has no map type inside a map type (map<map<int>>, map<map<int>[]>), and a
				// map-keyed call directly inside a map-keyed call would return one
				isMap = false
			}
			prevMap = isMap
			groupHasMap = groupHasMap || isMap
			g.flags = append(g.flags, isMap)
		}
		g.rt = gi == 0 && rng.Intn(3) == 0
		// `[]` and `{}` cannot be written after `split`: only run-time collections can be empty
		g.tree = fmGenTree(rng, g.flags, gi == len(depths)-1, g.rt)
		if rng.Intn(4) == 0 {
			g.tree.makeUniform(rng)
		}
		groups = append(groups, g)
	}
	// level -> (group, level within the group)
	type lv struct {
		g *fmGroup
		i int
	}
	var levels []lv
	for _, g := range groups {
		for i := range g.flags {
			levels = append(levels, lv{g, i})
		}
	}
	c := &fmCase{Name: fmt.Sprintf("forkmodel-%d", idx), Levels: L, RtTab: "."}
	var shape []string
	for _, g := range groups {
		s := fmType(g.flags)
		if g.rt {
			s = "rt:" + s
		}
		shape = append(shape, s)
	}
	c.Shape = strings.Join(shape, " | ")
	// ---- program ----
	callee := func(l int) string {
		if l == L-1 {
			return "LEAF"
		}
		return fmt.Sprintf("P%d", l+1)
	}
	var sb strings.Builder
	sb.WriteString("stage SINK(\n    in  int c,\n    out int r,\n    src comp \"mock\",\n)\n\n")
	sb.WriteString("stage LEAF(\n    in  int x,\n    in  int c1,\n    in  int c2,\n    out int r,\n    src comp \"mock\",\n)\n\n")
	if groups[0].rt {
		fmt.Fprintf(&sb, "stage PRODUCE(\n    in  int seed,\n    out %s v,\n    src comp \"mock\",\n)\n\n", fmType(groups[0].flags))
	}
	body := func(l int) string {
		var b strings.Builder
		lvl := levels[l]
		newGroup := lvl.i == 0
		sink, src, c1, c2 := "0", "self.x", "self.c1", "self.c2"
		if newGroup {
			src = lvl.g.tree.literal(rng)
			if lvl.g.rt {
				src = "PRODUCE.v"
			}
			if l == 0 {
				c1, c2 = "0", "0"
			} else {
				sink, c1, c2 = "self.c2", "self.x", "self.c1"
			}
		}
		if l == 0 && lvl.g.rt {
			b.WriteString("    call PRODUCE(\n        seed = 0,\n    )\n\n")
		}
		fmt.Fprintf(&b, "    call SINK(\n        c = %s,\n    )\n\n", sink)
		fmt.Fprintf(&b, "    map call %s(\n        x  = split %s,\n        c1 = %s,\n        c2 = %s,\n    )\n\n", callee(l), src, c1, c2)
		b.WriteString("    return (\n        r = SINK.r,\n    )\n")
		return b.String()
	}
	for l := L - 1; l >= 1; l-- {
		lvl := levels[l]
		xt := "int"
		if lvl.i > 0 {
			xt = fmType(lvl.g.flags[lvl.i:])
		}
		fmt.Fprintf(&sb, "pipeline P%d(\n    in  %s x,\n    in  int c1,\n    in  int c2,\n    out int r,\n)\n{\n%s}\n\n", l, xt, body(l))
	}
	fmt.Fprintf(&sb, "pipeline TOP(\n    out int r,\n)\n{\n%s}\n\ncall TOP()\n", body(0))
	c.Src = sb.String()
	fq := "TOP"
	for l := 0; l < L; l++ {
		fq += "." + callee(l)
	}
	c.Fqid = fq
	if groups[0].rt {
		b, _ := json.Marshal(map[string]interface{}{"v": groups[0].tree.value()})
		c.Outs = map[string]string{"TOP.PRODUCE": string(b)}
	}
	// ---- the model's input ----
	var roots []string
	staticRoot := make([]bool, L)
	for l, lvl := range levels {
		// what the real code knows statically about the source of a call (observed, and reported to the
		// model's owner as the meaning of a `static` root): a literal; the elements of a literal when
		// they all have the same length / key set (one level down); never anything two levels down,
		// uniform or not - that is expanded per fork by expandStaticForks
		if at := lvl.g.tree.atDepth(lvl.i); !lvl.g.rt && lvl.i <= 1 && fmUniform(at) {
			staticRoot[l] = true
			roots = append(roots, at[0].elems())
		} else {
			roots = append(roots, "d")
		}
	}
	c.Roots = strings.Join(roots, ";")
	// walk every path: entries for the levels which are not statically known roots
	var walk func(l int, pre []string, cur *fmTree, runtime bool, out *[]string)
	walk = func(l int, pre []string, cur *fmTree, runtime bool, out *[]string) {
		if l == L {
			return
		}
		lvl := levels[l]
		coll := cur
		if lvl.i == 0 {
			coll = lvl.g.tree
		}
		known := coll != nil && (runtime || !lvl.g.rt)
		if !known {
			walk(l+1, append(append([]string(nil), pre...), "u"), nil, runtime, out)
			return
		}
		if !staticRoot[l] {
			*out = append(*out, fmt.Sprintf("%d:%s=%s", l, fmPre(pre), coll.elems()))
		}
		if coll.n == 0 {
			return // nothing exists below an empty dimension
		}
		for i := 0; i < coll.n; i++ {
			var next *fmTree
			if coll.kids != nil {
				next = coll.kids[i]
			}
			walk(l+1, append(append([]string(nil), pre...), coll.part(i)), next, runtime, out)
		}
	}
	var tab []string
	walk(0, nil, nil, false, &tab)
	c.Table = "."
	if len(tab) > 0 {
		c.Table = strings.Join(tab, "/")
	}
	if groups[0].rt {
		var rt []string
		walk(0, nil, nil, true, &rt)
		c.RtTab = "."
		if len(rt) > 0 {
			c.RtTab = strings.Join(rt, "/")
		}
	}
	return c
}

func c10ForkModel(c *Ctx, rt *core.Runtime) {
	ncases := 40
	if c.Thorough {
		ncases = 600
	}
	if n, err := strconv.Atoi(os.Getenv("VERIF_C10_FM_N")); err == nil && n > 0 {
		ncases = n
	}
	var cases []*fmCase
	var reqs [][]string
	for i := 0; i < ncases; i++ {
		cs := fmGenCase(c.Rng, i)
		cases = append(cases, cs)
		reqs = append(reqs, []string{"C10.forkorder", cs.Roots, cs.Table, "."})
		if cs.Outs != nil {
			reqs = append(reqs, []string{"C10.forkorder", cs.Roots, cs.Table, cs.RtTab})
		}
	}
	replies := c.Drv.AskBatch(reqs)
	ri := 0
	for _, cs := range cases {
		static := replies[ri]
		ri++
		runtime := ""
		if cs.Outs != nil {
			runtime = replies[ri]
			ri++
		}
		c10ForkModelCase(c, rt, cs, static, runtime)
	}
}

func fmNorm(forks []string) string {
	if len(forks) == 0 {
		return "."
	}
	return strings.Join(forks, ";")
}

// MODEL GAP (reported to the owner of Martian/ForkOrder.lean): when a part turns out EMPTY during the
// RUN-TIME expansion the real code disables the fork (Fork.writeDisable) and Fork.expandForkPart
// returns at once for a disabled fork, so later undetermined parts STAY undetermined (`e+u+…`); the
// model marks them empty (`e+e+…`) as the static expansion does.  Until the model says which, an
// undetermined part after an empty one is read as empty on both sides.
func fmAfterEmpty(list string) (string, bool) {
	changed := false
	forks := strings.Split(list, ";")
	for i, f := range forks {
		parts := strings.Split(f, "+")
		seen := false
		for j, p := range parts {
			if p == "e" {
				seen = true
			} else if p == "u" && seen {
				parts[j] = "e"
				changed = true
			}
		}
		forks[i] = strings.Join(parts, "+")
	}
	return strings.Join(forks, ";"), changed
}

func c10ForkModelCase(c *Ctx, rt *core.Runtime, cs *fmCase, static, runtime string) {
	r := c.Res
	r.count("forkmodel\x00"+cs.Src+cs.Outs["TOP.PRODUCE"], strings.Count(static, ";") >= 2)
	r.hist(fmt.Sprintf("fork-model:levels=%d", cs.Levels))
	if cs.Outs != nil {
		r.hist("fork-model:run-time group")
	}
	input := map[string]interface{}{"case": cs.Name, "shape": cs.Shape, "program": cs.Src, "node": cs.Fqid,
		"model_roots": cs.Roots, "model_table": cs.Table, "model_rt_table": cs.RtTab}
	if cs.Outs != nil {
		input["outs"] = cs.Outs
	}
	mismatch := func(what, got, want string) {
		r.violate(Violation{Kind: "correspondence", Key: "C10:forkorder:" + what + ":" + cs.Shape,
			What:  fmt.Sprintf("the forks of %s as listed by %s differ from the model's list (shape %s)", cs.Fqid, what, cs.Shape),
			Input: input, Impl: got, Expect: want, Broken: "correspondence C10.forkorder (Martian.ForkOrder.forkOrder)"})
	}
	if static == "bad-op" || runtime == "bad-op" {
		r.note("fork-model case %s: the driver rejected the request (%s | %s | %s)", cs.Name, cs.Roots, head(cs.Table, 200), head(cs.RtTab, 200))
		r.hist("fork-model-outcome:bad-op")
		return
	}
	if d := os.Getenv("VERIF_C10_FM_DUMP"); d != "" {
		os.MkdirAll(d, 0o755)
		os.WriteFile(filepath.Join(d, cs.Name+".mro"), []byte(cs.Src+"\n# "+cs.Shape+"\n# "+cs.Roots+"\n# "+cs.Table+"\n# "+cs.RtTab+"\n# "+cs.Outs["TOP.PRODUCE"]+"\n"), 0o644)
	}
	roots, forks, err := core.VerifC10CompiledForkParts(cs.Src, cs.Fqid)
	r.Evals++
	if err != nil {
		r.hist("fork-model-outcome:does-not-compile")
		r.note("fork-model case %s (%s) does not compile: %s", cs.Name, cs.Shape, head(strings.ReplaceAll(err.Error(), "\n", " "), 200))
		return
	}
	if len(roots) != cs.Levels {
		r.hist("fork-model-outcome:fewer-roots")
		r.note("fork-model case %s (%s): the node has fork roots %v, %d expected - not compared", cs.Name, cs.Shape, roots, cs.Levels)
		return
	}
	r.hist("fork-model-outcome:compared")
	if got := fmNorm(forks); got != static {
		mismatch("MakeForkIds", got, static)
		return
	}
	// instance of theorem forks_bijection on the REAL list: when the static list is fully
	// determined (no `u`, no `e`), it must be a duplicate-free enumeration of exactly the
	// combinations the sources define (Lean allForks)
	if !strings.Contains(static, "u") && !strings.Contains(static, "e") && static != "." {
		rep := c.Drv.AskBatch([][]string{{"C10.forkbij", cs.Roots, cs.Table}})[0]
		// reply: <hypothesis knownWhereNeeded of forks_bijection_where_known> <conclusion>
		if strings.HasPrefix(rep, "true ") {
			r.hist("fork-model-outcome:bijection hypothesis (knownWhereNeeded) holds for the table")
		} else {
			r.hist("fork-model-outcome:bijection hypothesis does not hold for the table")
		}
		if rep == "true true" || rep == "false true" {
			r.hist("fork-model-outcome:bijection conclusion holds")
		}
		if rep == "true true" || strings.HasPrefix(rep, "false ") {
			// with the hypothesis the theorem promises the conclusion; without it nothing is claimed
		} else {
			r.violate(Violation{Kind: "correspondence", Key: "C10:forkorder:bijection:" + cs.Shape,
				What:  "the fully determined fork list is not a duplicate-free enumeration of the combinations the sources define",
				Input: input, Impl: static, Model: rep, Broken: "theorem Props.C10.forks_bijection (instance)"})
		}
	}
	if rt == nil {
		return
	}
	psdir := filepath.Join(c.Scratch, fmt.Sprintf("c10fm-%d-%s", os.Getpid(), cs.Name))
	defer os.RemoveAll(psdir)
	ps, err := rt.InvokePipeline(cs.Src, filepath.Join(c.Scratch, "forkmodel.mro"), "ps", psdir, nil, "verif", nil, nil)
	if err != nil {
		r.note("fork-model case %s: InvokePipeline: %s", cs.Name, head(err.Error(), 200))
		return
	}
	defer ps.Unlock()
	r.Evals++
	if _, nf, err := ps.VerifC10NodeForkParts("ID.ps." + cs.Fqid); err != nil {
		r.note("fork-model case %s: %v", cs.Name, err)
	} else if got := fmNorm(nf); got != static {
		mismatch("Node.forks of the invoked pipestance", got, static)
		return
	}
	if cs.Outs == nil {
		return
	}
	outs := map[string][]byte{}
	for k, v := range cs.Outs {
		outs["ID.ps."+k] = []byte(v)
	}
	r.Evals++
	ef, err := ps.VerifC10ExpandForkParts(outs, "ID.ps."+cs.Fqid)
	if err != nil {
		r.note("fork-model case %s: expandForks: %s", cs.Name, head(err.Error(), 200))
		return
	}
	r.hist("fork-model-outcome:run-time compared")
	// exact comparison: the model's run-time phase (satRt) leaves the parts after a part that
	// turned out empty undetermined, as the real code does for a disabled fork
	if _, gap := fmAfterEmpty(fmNorm(ef)); gap {
		r.hist("fork-model-outcome:run-time case with an undetermined part after an empty one")
	}
	if got := fmNorm(ef); got != runtime {
		mismatch("Node.expandForks (run time)", got, runtime)
	}
}
