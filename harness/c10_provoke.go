package main

// C10: targeted provocations, one per map-range site whose loop body accumulates output
// (an error list, a text buffer, a slice, or returns the first failure): an input with
// >= 8 entries of which several fail, evaluated repeatedly; the text must be byte-identical.

import (
	"encoding/json"
	"fmt"
	"os"
	"path/filepath"
	"sort"
	"strings"

	"github.com/martian-lang/martian/martian/core"
	"github.com/martian-lang/martian/martian/syntax"
	"github.com/martian-lang/martian/martian/util"
)

func c10CompileText(dir, lib, inv string, checkSrc bool, extra map[string]string) string {
	files := map[string]string{"lib.mro": lib}
	for k, v := range extra {
		files[k] = v
	}
	if err := c15Write(dir, files); err != nil {
		return "WRITE-ERR " + err.Error()
	}
	post, _, ast, err := syntax.ParseSourceBytes([]byte(inv), filepath.Join(dir, "invocation.mro"), []string{dir}, checkSrc)
	if err != nil {
		return "ERR:" + strings.ReplaceAll(err.Error(), dir, "$D")
	}
	cg, err := ast.MakePipelineCallGraph("ID.ps.", ast.Call)
	if err != nil {
		return "CGERR:" + strings.ReplaceAll(err.Error(), dir, "$D")
	}
	b, _ := json.Marshal(cg)
	return post + string(b)
}

func c10Provocations(c *Ctx) map[string]func() string {
	out := map[string]func() string{}
	if ps, err := syntax.VerifC10Provocations(); err != nil {
		c.Res.note("syntax provocations unavailable: %v", err)
	} else {
		for k, f := range ps {
			out[k] = f
		}
	}
	c10SiteProvocations(c, out)
	c10ForkSiteProvocations(c, out)
	c10SortProvocations(c, out)
	c10Site2Provocations(c, out)
	n := 10
	dir := filepath.Join(c.Scratch, "c10provoke")
	inv := "@include \"lib.mro\"\n\ncall TOP(\n    x = 1,\n)\n"
	// --- whole programs -----------------------------------------------------------------
	// findDeps (Pipeline.directDepsMap): a call whose map literal refers to its own outputs, one per line
	{
		var ents []string
		for i := 0; i < n; i++ {
			ents = append(ents, fmt.Sprintf("            \"k%02d\": SELF.r,", (i*7)%n))
		}
		lib := "stage ST(\n    in  map anything,\n    in  int x,\n    out int r,\n    src comp \"bin/st\",\n)\n\npipeline TOP(\n    in  int x,\n    out int r,\n)\n{\n" +
			"    call ST as SELF(\n        x = self.x,\n        anything = {\n" + strings.Join(ents, "\n") + "\n        },\n    )\n\n    return (\n        r = SELF.r,\n    )\n}\n"
		out["Pipeline.directDepsMap"] = func() string { return c10CompileText(dir+"/deps", lib, inv, false, nil) }
	}
	// Pipeline.addNextDeps / findMissingDeps: several dependency cycles
	{
		var calls []string
		for i := 0; i < n; i++ {
			calls = append(calls, fmt.Sprintf("    call ST as A%d(\n        x = B%d.r,\n    )\n\n    call ST as B%d(\n        x = C%d.r,\n    )\n\n    call ST as C%d(\n        x = A%d.r,\n    )\n", i, i, i, i, i, i))
		}
		lib := "stage ST(\n    in  int x,\n    out int r,\n    src comp \"bin/st\",\n)\n\npipeline TOP(\n    in  int x,\n    out int r,\n)\n{\n" +
			strings.Join(calls, "\n") + "\n    return (\n        r = A0.r,\n    )\n}\n"
		out["Pipeline.addNextDeps"] = func() string { return c10CompileText(dir+"/cyc", lib, inv, false, nil) }
	}
	// Stage.compile: split inputs that repeat the stage's own input names
	{
		var ins, chunk []string
		for i := 0; i < n; i++ {
			ins = append(ins, fmt.Sprintf("    in  int p%02d,", i))
			chunk = append(chunk, fmt.Sprintf("    in  int p%02d,", (i*3)%n))
		}
		var binds []string
		for i := 0; i < n; i++ {
			binds = append(binds, fmt.Sprintf("        p%02d = self.x,", i))
		}
		lib := "stage ST(\n" + strings.Join(ins, "\n") + "\n    out int r,\n    src comp \"bin/st\",\n) split (\n" + strings.Join(chunk, "\n") + "\n)\n\npipeline TOP(\n    in  int x,\n    out int r,\n)\n{\n" +
			"    call ST(\n" + strings.Join(binds, "\n") + "\n    )\n\n    return (\n        r = ST.r,\n    )\n}\n"
		prev := syntax.GetEnforcementLevel()
		out["Stage.compile"] = func() string {
			syntax.SetEnforcementLevel(syntax.EnforceError)
			defer syntax.SetEnforcementLevel(prev)
			return c10CompileText(dir+"/chunk", lib, inv, false, nil)
		}
	}
	// Parser.ParseSourceBytes with checkSrc: the stage-code search path is built from the map of source files
	{
		extra := map[string]string{}
		var incs []string
		for i := 0; i < n; i++ {
			fn := fmt.Sprintf("d%02d/inc%02d.mro", (i*7)%n, i)
			extra[fn] = fmt.Sprintf("stage INC_%d(\n    in  int x,\n    out int r,\n    src comp \"bin/x\",\n)\n", i)
			incs = append(incs, fmt.Sprintf("@include %q", fn))
		}
		lib := strings.Join(incs, "\n") + "\n\nstage ST(\n    in  int x,\n    out int r,\n    src py \"no/such/stage_code\",\n)\n\npipeline TOP(\n    in  int x,\n    out int r,\n)\n{\n    call ST(\n        x = self.x,\n    )\n\n    return (\n        r = ST.r,\n    )\n}\n"
		out["Parser.ParseSourceBytes"] = func() string {
			oldPath := os.Getenv("PATH")
			os.Setenv("PATH", "")
			defer os.Setenv("PATH", oldPath)
			return c10CompileText(dir+"/src", lib, inv, true, extra)
		}
	}
	// checkSrc with MANY stages whose code cannot be found (py / exec-exempt / comp-exempt mixed, declared in
	// the top file and in included files): one error per stage, in the order of the stage declarations.
	// (Whatever does the per-stage lookups - a loop today - must not let the order of the messages depend
	// on scheduling or on a map.)
	{
		extra := map[string]string{}
		var incs, stages, calls, rets, outs []string
		for i := 0; i < 6; i++ {
			fn := fmt.Sprintf("m%02d/more%02d.mro", (i*5)%6, i)
			var b strings.Builder
			for k := 0; k < 4; k++ {
				lang := []string{"py", "py", "comp", "py"}[k]
				fmt.Fprintf(&b, "stage MISSING_%02d_%d(\n    in  int x,\n    out int r,\n    src %s \"gone/%02d/code_%d\",\n)\n\n", (i*7)%6, k, lang, i, k)
			}
			extra[fn] = b.String()
			incs = append(incs, fmt.Sprintf("@include %q", fn))
		}
		for i := 0; i < 24; i++ {
			name := fmt.Sprintf("LOST_%02d", (i*11)%24)
			lang := "py"
			if i%7 == 3 {
				lang = "exec"
			}
			stages = append(stages, fmt.Sprintf("stage %s(\n    in  int x,\n    out int r,\n    src %s \"lost/%s/main\",\n)\n", name, lang, name))
			calls = append(calls, fmt.Sprintf("    call %s(\n        x = self.x,\n    )\n", name))
			outs = append(outs, fmt.Sprintf("    out int r%02d,", i))
			rets = append(rets, fmt.Sprintf("        r%02d = %s.r,", i, name))
		}
		lib := strings.Join(incs, "\n") + "\n\n" + strings.Join(stages, "\n") + "\npipeline TOP(\n    in  int x,\n" + strings.Join(outs, "\n") +
			"\n)\n{\n" + strings.Join(calls, "\n") + "\n    return (\n" + strings.Join(rets, "\n") + "\n    )\n}\n"
		out["Ast.checkSrcPaths(many stages without code)"] = func() string {
			oldPath := os.Getenv("PATH")
			os.Setenv("PATH", "")
			defer os.Setenv("PATH", oldPath)
			return c10CompileText(dir+"/lost", lib, inv, true, extra)
		}
	}
	// an UNDECLARED name that is a near miss (one edit) of SEVERAL declared names at once: whatever the error
	// text says about it (a plain "undefined", a suggestion, a list of candidates) must be the same every time
	{
		var fts, structs, stages []string
		for _, s := range []string{"bam", "bai", "bar", "baz", "bag", "bat", "bab", "bad", "bah", "bak", "bap", "baw"} {
			fts = append(fts, "filetype "+s+";")
		}
		for i := 0; i < 10; i++ {
			structs = append(structs, fmt.Sprintf("struct PT%d(\n    int x,\n)\n", i))
			stages = append(stages, fmt.Sprintf("stage STAGE%c(\n    in  int input%c,\n    out int r,\n    src comp \"bin/s\",\n)\n", 'A'+i, 'a'+i))
		}
		decls := strings.Join(fts, "\n") + "\n\n" + strings.Join(structs, "\n") + "\n" + strings.Join(stages, "\n")
		for name, body := range map[string]string{
			"undeclared in-type near many filetypes":  "stage USE(\n    in  bal f,\n    out int r,\n    src comp \"bin/u\",\n)\n",
			"undeclared out-type near many filetypes": "stage USE(\n    in  int x,\n    out ba  r,\n    src comp \"bin/u\",\n)\n",
			"undeclared struct near many structs":     "stage USE(\n    in  PT  p,\n    out int r,\n    src comp \"bin/u\",\n)\n",
			"undeclared field type near many":         "struct HOLD(\n    PTX p,\n    baq f,\n)\n\nstage USE(\n    in  HOLD h,\n    out int r,\n    src comp \"bin/u\",\n)\n",
			"undeclared callable near many stages":    "pipeline P2(\n    in  int x,\n    out int r,\n)\n{\n    call STAGE(\n        inputa = self.x,\n    )\n\n    return (\n        r = STAGE.r,\n    )\n}\n",
			"undeclared parameter near many":          "pipeline P3(\n    in  int x,\n    out int r,\n)\n{\n    call STAGEA(\n        input = self.x,\n    )\n\n    return (\n        r = STAGEA.r,\n    )\n}\n",
			"undeclared output near many":             "pipeline P4(\n    in  int x,\n    out int r,\n)\n{\n    call STAGEA(\n        inputa = self.x,\n    )\n\n    return (\n        r = STAGEA.rr,\n    )\n}\n",
		} {
			lib := decls + "\n" + body + "\npipeline TOP(\n    in  int x,\n    out int r,\n)\n{\n    call STAGEA(\n        inputa = self.x,\n    )\n\n    return (\n        r = STAGEA.r,\n    )\n}\n"
			name, lib := name, lib
			out["near-miss("+name+")"] = func() string { return c10CompileText(dir+"/near", lib, inv, false, nil) }
		}
	}
	// MapExp.GoString abbreviates a map with many keys (first two … last two): error text naming a big literal
	for _, nk := range []int{17, 23, 40} {
		nk := nk
		var ents []string
		for i := 0; i < nk; i++ {
			v := fmt.Sprint(i)
			if i == nk/2 {
				v = "\"not an int\""
			}
			ents = append(ents, fmt.Sprintf("\"key%03d\": %s", (i*7)%nk, v))
		}
		lib := "stage ST(\n    in  map<int> m,\n    in  int x,\n    out int r,\n    src comp \"bin/st\",\n)\n\npipeline TOP(\n    in  int x,\n    out int r,\n)\n{\n    call ST(\n        m = {" +
			strings.Join(ents, ", ") + "},\n        x = self.x,\n    )\n\n    return (\n        r = ST.r,\n    )\n}\n"
		out[fmt.Sprintf("MapExp.GoString(%d keys)", nk)] = func() string { return c10CompileText(dir+"/gostr", lib, inv, false, nil) }
	}
	// keys that are equal under a folding a sorter might apply (ASCII / Unicode case, surrounding blanks):
	// formatted source, call-graph JSON and error text must still be byte-identical
	{
		keys := []string{"sample_a", "SAMPLE_A", "Sample_A", "sample_b", "SAMPLE_B", "x", "X", "x ", " x", "\u00e9t\u00e9", "\u00c9T\u00c9", "straSSe", "stra\u00dfe"}
		var ents, bad []string
		for i, k := range keys {
			ents = append(ents, fmt.Sprintf("%q: %d", k, i))
			bad = append(bad, fmt.Sprintf("%q: \"s%d\"", k, i))
		}
		mk := func(entries []string) string {
			return "struct Cs(\n    int sample_a,\n    int SAMPLE_A,\n    int Sample_A,\n    int sAMPLE_a,\n)\n\nstage ST(\n    in  map<int> m,\n    in  map      u,\n    in  Cs       c,\n    in  int      x,\n    out int      r,\n    src comp     \"bin/st\",\n)\n\npipeline TOP(\n    in  int x,\n    out int r,\n)\n{\n    call ST(\n        m = {" +
				strings.Join(entries, ", ") + "},\n        u = {" + strings.Join(ents, ", ") + "},\n        c = {sAMPLE_a: 4, Sample_A: 3, SAMPLE_A: 2, sample_a: 1},\n        x = self.x,\n    )\n\n    return (\n        r = ST.r,\n    )\n}\n"
		}
		good, ill := mk(ents), mk(bad)
		out["MapExp.format(keys equal under case folding)"] = func() string { return c10CompileText(dir+"/case", good, inv, false, nil) }
		out["MapExp.sortedKeys(keys equal under case folding)"] = func() string { return c10CompileText(dir+"/caseerr", ill, inv, false, nil) }
	}
	// `mro format --includes`: a file that lacks the includes of several private (underscore) and public
	// files in its own and in another directory, and of files whose name contains its own name
	{
		files := map[string]string{}
		var calls []string
		prev := "self.value"
		add := func(file, stage string) {
			files[file] = "\nstage " + stage + "(\n    in  int value,\n    out int result,\n    src comp \"" + strings.ToLower(stage) + "\",\n)\n"
			calls = append(calls, "    call "+stage+"(\n        value = "+prev+",\n    )\n")
			prev = stage + ".result"
		}
		add("_align_stages.mro", "ALIGN")
		add("_count_stages.mro", "COUNT")
		add("_report_stages.mro", "REPORT")
		add("merge_stages.mro", "MERGE")
		add("filter_stages.mro", "FILTER")
		add("sub/_deep_stages.mro", "DEEP")
		add("sub/_deeper_stages.mro", "DEEPER")
		add("sub/wide_stages.mro", "WIDE")
		add("sub/wider_stages.mro", "WIDER")
		add("_analysis_stages.mro", "OWN_A")
		add("_analysis_more_stages.mro", "OWN_B")
		add("analysis_helpers.mro", "OWN_C")
		top := "\npipeline ANALYSIS(\n    in  int value,\n    out int result,\n)\n{\n" + strings.Join(calls, "\n") + "\n    return (\n        result = " + prev + ",\n    )\n}\n"
		files["analysis.mro"] = top
		fdir := dir + "/fixinc"
		out["fixIncludes"] = func() string {
			if err := c15Write(fdir, files); err != nil {
				return "WRITE-ERR " + err.Error()
			}
			txt, err := syntax.FormatFile(filepath.Join(fdir, "analysis.mro"), true, []string{fdir, fdir + "/sub"})
			return strings.ReplaceAll(txt+fmt.Sprint(" / ", err), fdir, "$D")
		}
		// the same with the sub-directory NOT on the search path: several definitions cannot be found
		out["Parser.findMissingIncludes"] = func() string {
			if err := c15Write(fdir, files); err != nil {
				return "WRITE-ERR " + err.Error()
			}
			txt, err := syntax.FormatFile(filepath.Join(fdir, "analysis.mro"), true, []string{fdir})
			return strings.ReplaceAll(txt+fmt.Sprint(" / ", err), fdir, "$D")
		}
	}
	// comments around map / struct entries that share a source line (the formatter attaches a comment to
	// the first sub-node on the following line; sub-nodes of a literal come from a Go map)
	{
		srcs := map[string]string{
			"before same-line map entries":    "    m = {\n        # about these\n        \"a\": 1, \"b\": 2, \"c\": 3, \"d\": 4, \"e\": 5, \"f\": 6,\n    },\n    p = null,\n    ms = null,\n",
			"between lines of map entries":    "    m = {\n        \"k1\": 1, \"k2\": 2, \"k3\": 3,\n        # second row\n        \"a\": 1, \"b\": 2, \"c\": 3, \"d\": 4,\n        # third row\n        \"x\": 7, \"y\": 8, \"z\": 9,\n    },\n    p = null,\n    ms = null,\n",
			"trailing and closing comments":   "    m = {\n        \"a\": 1, \"b\": 2, \"c\": 3, # trailing\n        \"d\": 4, \"e\": 5,\n        # before the brace\n    },\n    p = null,\n    ms = null,\n",
			"struct literal":                  "    m = null,\n    p = {\n        # the point\n        x: 1, label: \"l\", w: 2.5, on: true,\n        # more\n        ys: [1, 2], z: 3,\n    },\n    ms = null,\n",
			"array of maps":                   "    m = null,\n    p = null,\n    ms = [\n        # first pair\n        {\"a\": 1, \"b\": 2}, {\"c\": 3, \"d\": 4},\n        {\n            # inside\n            \"e\": 5, \"f\": 6, \"g\": 7,\n        },\n    ],\n",
			"entries and map all on one line": "    # whole argument\n    m = {\"a\": 1, \"b\": 2, \"c\": 3}, p = null, ms = null,\n",
		}
		decl := "struct Pt(\n    int    x,\n    string label,\n    float  w,\n    bool   on,\n    int[]  ys,\n    int    z,\n)\n\nstage S(\n    in  map<int>   m,\n    in  Pt         p,\n    in  map<int>[] ms,\n    out int        r,\n    src comp       \"bin/s\",\n)\n\n"
		for name, args := range srcs {
			src := decl + "call S(\n" + args + ")\n"
			pipe := decl + "pipeline P(\n    out int r,\n)\n{\n    call S(\n" + strings.ReplaceAll(args, "\n    ", "\n        ") + "    )\n\n    return (\n        r = S.r,\n    )\n}\n\ncall P()\n"
			out["Format(comments: "+name+")"] = func() string {
				a, err := syntax.Format(src, "c.mro", false, nil)
				b, err2 := syntax.Format(pipe, "p.mro", false, nil)
				return a + fmt.Sprint(" / ", err, "\n") + b + fmt.Sprint(" / ", err2)
			}
		}
	}
	// --- core, through exported API -------------------------------------------------------
	if _, _, ast, err := syntax.ParseSourceBytes([]byte(c10ProvokeCoreSrc(n)), filepath.Join(dir, "core.mro"), nil, false); err != nil {
		c.Res.note("core provocation program does not compile: %v", err)
	} else {
		st := ast.Callables.Table["WIDE"].(*syntax.Stage)
		lookup := &ast.TypeTable
		missing := core.LazyArgumentMap{}
		badTypes := core.LazyArgumentMap{}
		unexpected := core.LazyArgumentMap{}
		for i := 0; i < n; i++ {
			badTypes[fmt.Sprintf("p%02d", i)] = json.RawMessage(fmt.Sprintf("\"s%d\"", i))
			unexpected[fmt.Sprintf("p%02d", i)] = json.RawMessage("1")
			unexpected[fmt.Sprintf("zz%02d", (i*7)%n)] = json.RawMessage("1")
		}
		show := func(err error, alarms string) string {
			if err == nil {
				return "<nil> / " + alarms
			}
			return err.Error() + " / " + alarms
		}
		out["LazyArgumentMap.ValidateInputs(missing)"] = func() string { return show(missing.ValidateInputs(lookup, st.InParams)) }
		out["LazyArgumentMap.ValidateInputs(ill-typed)"] = func() string { return show(badTypes.ValidateInputs(lookup, st.InParams)) }
		out["LazyArgumentMap.ValidateInputs(unexpected)"] = func() string { return show(unexpected.ValidateInputs(lookup, st.InParams)) }
		out["LazyArgumentMap.ValidateOutputs(missing)"] = func() string { return show(missing.ValidateOutputs(lookup, st.OutParams)) }
		out["LazyArgumentMap.ValidateOutputs(ill-typed)"] = func() string { return show(badTypes.ValidateOutputs(lookup, st.OutParams)) }
		out["LazyArgumentMap.ValidateOutputs(unexpected)"] = func() string { return show(unexpected.ValidateOutputs(lookup, st.OutParams)) }
		out["LazyArgumentMap.GoString"] = func() string { return badTypes.GoString() }
		mm := core.MarshalerMap{}
		for k, v := range badTypes {
			mm[k] = v
		}
		out["MarshalerMap.GoString"] = func() string { return mm.GoString() }
		failing := core.MarshalerMap{}
		for i := 0; i < n; i++ {
			failing[fmt.Sprintf("k%02d", i)] = c10FailingMarshaler(fmt.Sprintf("k%02d", i))
		}
		out["MarshalerMap.ToLazyArgumentMap"] = func() string {
			_, err := failing.ToLazyArgumentMap()
			return fmt.Sprint(err)
		}
	}
	// typed maps of structs: project a path that does not exist / filter values that are not structs
	if _, _, ast, err := syntax.ParseSourceBytes([]byte("struct Pt(\n    int x,\n    string label,\n)\n\nstage S(\n    in  map<Pt> pts,\n    out int r,\n    src comp \"bin/s\",\n)\n"),
		filepath.Join(dir, "pt.mro"), nil, false); err == nil {
		lookup := &ast.TypeTable
		mapPt := lookup.Get(syntax.TypeId{Tname: "Pt", MapDim: 1})
		mapInt := lookup.Get(syntax.TypeId{Tname: "int", MapDim: 1})
		bad := core.LazyArgumentMap{}
		for i := 0; i < n; i++ {
			bad[fmt.Sprintf("k%02d", (i*7)%n)] = json.RawMessage(fmt.Sprintf("\"notastruct%d\"", i))
		}
		out["LazyArgumentMap.Path"] = func() string {
			_, err := bad.Path("x", mapPt, mapInt, lookup)
			return fmt.Sprint(err)
		}
		out["LazyArgumentMap.filter"] = func() string {
			_, err := core.VerifFilterArgs(bad, mapPt, lookup)
			return fmt.Sprint(err)
		}
	}
	// Exp.equal through EquivalentCall: the logged reason names the first differing map entry
	{
		mk := func(off int) string {
			var ents []string
			for i := 0; i < n; i++ {
				ents = append(ents, fmt.Sprintf("\"k%02d\": %d", (i*7)%n, i+off))
			}
			return "stage ST(\n    in  map<int> m,\n    in  int x,\n    out int r,\n    src comp \"bin/st\",\n)\n\npipeline TOP(\n    in  int x,\n    out int r,\n)\n{\n    call ST(\n        m = {" +
				strings.Join(ents, ", ") + "},\n        x = self.x,\n    )\n\n    return (\n        r = ST.r,\n    )\n}\n\ncall TOP(\n    x = 1,\n)\n"
		}
		_, _, a1, e1 := syntax.ParseSourceBytes([]byte(mk(0)), filepath.Join(dir, "eq1.mro"), nil, false)
		_, _, a2, e2 := syntax.ParseSourceBytes([]byte(mk(100)), filepath.Join(dir, "eq2.mro"), nil, false)
		if e1 == nil && e2 == nil {
			out["MapExp.equal"] = func() string {
				var sb strings.Builder
				util.SetPrintLogger(&sb)
				defer util.SetPrintLogger(&c15DevNull{})
				eq := a1.EquivalentCall(a2)
				// drop the timestamps
				var lines []string
				for _, l := range strings.Split(sb.String(), "\n") {
					if i := strings.Index(l, "["); i >= 0 {
						l = l[i:]
					}
					lines = append(lines, l)
				}
				return fmt.Sprint(eq, "\n", strings.Join(lines, "\n"))
			}
		}
	}
	return out
}

type c10FailingMarshaler string

func (f c10FailingMarshaler) MarshalJSON() ([]byte, error) {
	return nil, fmt.Errorf("cannot encode %s", string(f))
}

func c10ProvokeCoreSrc(n int) string {
	var ins, outs []string
	for i := 0; i < n; i++ {
		ins = append(ins, fmt.Sprintf("    in  int p%02d,", (i*3)%n))
		outs = append(outs, fmt.Sprintf("    out int p%02d,", (i*7)%n))
	}
	return "stage WIDE(\n" + strings.Join(ins, "\n") + "\n" + strings.Join(outs, "\n") + "\n    src comp \"bin/wide\",\n)\n"
}

func c10RunProvocations(c *Ctx, boost map[string]bool) {
	r := c.Res
	// sites the regenerated list reports as new / changed get 5x repetitions
	reported := map[string]bool{}
	for _, fn := range c10ReportedFunctions(c) {
		reported[fn] = true
	}
	ps := c10Provocations(c)
	names := make([]string, 0, len(ps))
	for k := range ps {
		names = append(names, k)
	}
	sort.Strings(names)
	reps := 40
	if c.Thorough {
		reps = 200
	}
	for _, name := range names {
		f := ps[name]
		site := name
		if i := strings.Index(site, "("); i > 0 {
			site = site[:i]
		}
		nrep := reps
		if strings.HasPrefix(name, "MapExp.GoString(") && nrep < 300 {
			nrep = 300 // the one-pass key selection for big maps only differs for some iteration orders
		}
		if reported[site] {
			nrep = reps * 5
			r.note("site list reports %s: provocation %q run with %d repetitions", site, name, nrep)
		}
		first := ""
		func() {
			defer func() {
				if rec := recover(); rec != nil {
					first = fmt.Sprintf("PANIC: %v", rec)
				}
			}()
			first = f()
		}()
		r.count("provoke\x00"+name+"\x00"+first, true)
		r.hist("provocation-sites")
		for k := 1; k < nrep; k++ {
			got := ""
			func() {
				defer func() {
					if rec := recover(); rec != nil {
						got = fmt.Sprintf("PANIC: %v", rec)
					}
				}()
				got = f()
			}()
			r.Evals++
			if got != first {
				da, db := c10FirstDiff(first, got)
				r.violate(Violation{Kind: "property", Key: "C10:nondeterministic:provoked:" + name,
					What:  fmt.Sprintf("the text produced by %s for the same input differs between repetition 0 and repetition %d", name, k),
					Input: map[string]interface{}{"site": name, "first_output": head(first, 1500)},
					Impl:  map[string]string{"first": da, "later": db}, Expect: "byte-identical output",
					Broken: "map-range site " + name + " iterates a Go map while accumulating output"})
				break
			}
		}
	}
}
