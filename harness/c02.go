package main

// C02 — jobs start only after everything they depend on has finished.
// C03 — every enabled job runs exactly once; disabled calls never run.
// Both run real pipestances under adversarial schedules (Tier A), replay the
// history in the Lean Sched model (correspondence) and monitor the property
// directly on the real history (the failing-input search).

import (
	"fmt"
	"math/rand"
	"os"
	"path/filepath"
	"sort"
	"strings"

	"github.com/martian-lang/martian/martian/core"
)

func init() {
	register("C02", runC02)
	register("C03", runC03)
}

type rtCase struct {
	prog *rtProgram
	spec *TASpec
	res  *TAResult
}

func rtSchedules(c *Ctx, p *rtProgram, k int, base TASpec) []*TASpec {
	var specs []*TASpec
	for v := 0; v < k; v++ {
		s := base
		s.Name = fmt.Sprintf("%s#%d", p.Name, v)
		s.Src = p.Src
		s.MroPaths = p.MroPaths
		s.Seed = c.Seed*1000003 + int64(c.Rng.Intn(1<<30))
		s.StepBias = []float64{0.4, 0.15, 0.7}[v%3]
		s.StartSeparate = 0.3
		s.WantEvents, s.WantTrace, s.WantNodes = true, true, true
		if v%2 == 1 {
			s.Adversarial = true
			s.InlineFinish = 0.15
		}
		if s.TimeoutS == 0 {
			s.TimeoutS = 30
		}
		s.Echo = p.Echo
		sp := s
		specs = append(specs, &sp)
	}
	// directed schedules of a program family: the named jobs finish last
	for i, slow := range p.Slow {
		s := base
		s.Name = fmt.Sprintf("%s#slow%d", p.Name, i)
		s.Src, s.MroPaths, s.Echo, s.SlowJobs = p.Src, p.MroPaths, p.Echo, slow
		s.Seed = c.Seed*1000003 + int64(c.Rng.Intn(1<<30))
		s.StepBias, s.StartSeparate = 0.4, 0.3
		s.WantEvents, s.WantTrace, s.WantNodes = true, true, true
		if s.TimeoutS == 0 {
			s.TimeoutS = 30
		}
		sp := s
		specs = append(specs, &sp)
	}
	return specs
}

func runCases(c *Ctx, progs []*rtProgram, perProg int, base TASpec) []*rtCase {
	var cases []*rtCase
	var specs []*TASpec
	for _, p := range progs {
		for _, s := range rtSchedules(c, p, perProg, base) {
			cases = append(cases, &rtCase{prog: p, spec: s})
			specs = append(specs, s)
		}
	}
	results := RunSpecs(specs, 14)
	for i, r := range results {
		cases[i].res = confirmAlone(c, cases[i].spec, r)
	}
	return cases
}

func depEdges(p *rtProgram) int {
	n := 0
	for _, d := range p.Deps.Deps {
		n += len(d)
	}
	return n
}

// metaStateExhaustive compares Metadata._getStateNoLock with the model's
// metaState on EVERY subset of the state-bearing sentinel files (exhaustive: 2^7).
func metaStateExhaustive(c *Ctx) {
	r := c.Res
	names := []core.MetadataFileName{core.Errors, core.Assert, core.CompleteFile, core.DisabledFile,
		core.LogFile, core.JobInfoFile, core.QueuedLocally}
	var reqs [][]string
	var impl []string
	for mask := 0; mask < 1<<len(names); mask++ {
		dir := filepath.Join(c.Scratch, fmt.Sprintf("ms%d", mask))
		os.MkdirAll(filepath.Join(dir, "files"), 0o755)
		md := core.NewMetadata("ID.x.ST.fork0", dir)
		var parts []string
		for i, n := range names {
			if mask&(1<<i) != 0 {
				md.WriteRaw(n, "x")
				parts = append(parts, string(n))
			}
		}
		st, ok := core.VerifMetadataState(md)
		if st == "" || !ok {
			st = "none"
		}
		if string(st) == "waiting" && !ok {
			st = "none"
		}
		impl = append(impl, fmt.Sprintf("%s %v", st, ok))
		arg := "-"
		if len(parts) > 0 {
			arg = strings.Join(parts, ",")
		}
		reqs = append(reqs, []string{"C02.metastate", arg})
	}
	for i, rep := range c.Drv.AskBatch(reqs) {
		r.hist("metastate_subsets")
		if rep != impl[i] {
			r.violate(Violation{Kind: "correspondence", Key: "C02:metastate-mismatch",
				What:  "Metadata._getStateNoLock differs from the model's metaState on sentinel set " + reqs[i][1],
				Input: reqs[i][1], Impl: impl[i], Model: rep,
				Broken: "correspondence C02.metastate (exhaustive over sentinel subsets)"})
		}
	}
}

func runC02(c *Ctx) {
	r := c.Res
	r.Histogram = map[string]int{}
	metaStateExhaustive(c)
	r.Rule = "programs: corpus/tiera + corpus/C02 + the repo's map_call_edge_cases.mro + PRNG-generated well-typed programs (stages splitting or not, nested/aliased/mapped calls with static and run-time sizes, disabled modifiers, preflight), each run under >=2 PRNG schedules of the REAL scheduler with a fake job manager (random / adversarial newest-first completion, jobs finishing inside StepNodes, separate start events); each history is (a) replayed in the Lean Sched model (every launch must be enabled, every snapshot's derived states must equal the model's), (b) monitored directly: no job of a call starts before every job of every call it depends on (source-level dependency oracle incl. sub-pipeline boundaries, disabled conditions, map sources, preflights) has finished successfully; split before chunks before join; non-trivial = program has >=1 dependency edge and the schedule finished jobs out of launch order; distinct = (program text, history) hash"
	n := 120
	if c.Thorough {
		n = 2500
	}
	progs := rtPrograms(c, n, GenOpts{Preflight: true})
	// the parametrised families of C01 (nested disabled pipelines with a flag producer per level, flags per
	// fork inside mapped pipelines, literal flag collections): without the ECHO hook their flag stages return
	// arbitrary booleans, which is all the ordering monitor needs
	famRng := rand.New(rand.NewSource(c.Seed ^ 0x0c02))
	nfam := 0
	for _, fc := range c01Families(famRng, c.Thorough) {
		cl := c01FamilyClass(fc.name)
		if cl != "disabled-nest" && cl != "fork-flag" && cl != "lit-flag" {
			continue
		}
		if !c.Thorough && nfam >= 40 {
			break
		}
		if p, err := compileProgram(fc.name, fc.src, nil); err == nil {
			progs = append(progs, p)
			nfam++
		}
	}
	r.Histogram["family_programs"] = nfam
	// families of sched_families.go: pass-through outputs of conditionally called pipelines under directed
	// schedules (the producer of the condition / of the value finishes last), adversarial map key sets
	nf := 14
	if c.Thorough {
		nf = 140
	}
	fams := append(schedPassthroughFamily(famRng, nf), schedKeysetFamily(famRng, nf/2)...)
	fams = append(fams, schedCoMappedFamily(famRng, 8)...)
	sfams := schedFamilyPrograms(c, fams)
	r.Histogram["sched_family_programs"] = len(sfams)
	progs = append(progs, sfams...)
	cases := runCases(c, progs, 2, TASpec{})
	replayed := 0
	for _, cs := range cases {
		res := cs.res
		r.hist("final_" + finalClass(res.Final))
		if res.Final == "compile-error" || res.Final == "process-exit" || len(res.Events) == 0 {
			continue
		}
		nontriv := depEdges(cs.prog) > 0 && scheduleInterleaved(res.Events)
		r.count(cs.prog.Src+"|"+strings.Join(excerpt(res.Events, 400), ";"), nontriv)
		if len(r.Samples) < 4 && nontriv {
			r.sample(map[string]interface{}{"program": cs.prog.Name, "final": res.Final, "history": excerpt(res.Events, 25)})
		}
		if bad := monitorOrder(cs.prog, res.Events); len(bad) > 0 {
			r.violate(Violation{Kind: "property", Key: "C02:order:" + classifyOrder(bad[0]),
				What:  "a job started before something it depends on had finished: " + bad[0],
				Input: map[string]interface{}{"program": cs.prog.Src, "spec": cs.spec.Name, "seed": cs.spec.Seed, "all": bad, "history": excerpt(res.Events, 200)}})
		}
		if ok, detail, done := replayInModel(c, res); done {
			replayed++
			if !ok {
				r.violate(Violation{Kind: "correspondence", Key: "C02:sched-replay-reject:" + classifyReject(detail),
					What:   "the Lean Sched model rejects a real history: " + detail,
					Input:  map[string]interface{}{"program": cs.prog.Src, "spec": cs.spec.Name, "seed": cs.spec.Seed, "trace": res.Trace},
					Broken: "correspondence Sched.replay (history of the real scheduler is not a trace of the model)"})
			}
		}
	}
	r.Histogram["histories_replayed_in_model"] = replayed
	if schedReplayHook == nil {
		r.note("Sched replay helper not linked: model correspondence skipped")
	}
}

func classifyOrder(s string) string {
	switch {
	case strings.Contains(s, "before the split"):
		return "chunk-before-split"
	case strings.Contains(s, "join of"):
		return "join-early"
	case strings.Contains(s, "at/after consumer"):
		return "producer-after-consumer"
	default:
		return "consumer-before-producer-finished"
	}
}

func classifyReject(d string) string {
	f := strings.Fields(d)
	if len(f) >= 3 {
		return f[2]
	}
	return "unknown"
}

// ---------------- C03 ----------------

// monitorOnce: in a run without failures and crashes every job key is
// launched exactly once; complete forks have launched exactly what they
// should; disabled forks nothing.
func monitorOnce(cs *rtCase) []string {
	var bad []string
	res := cs.res
	for _, k := range sortedKeys(res.Launches) {
		if res.Launches[k] > 1 {
			bad = append(bad, fmt.Sprintf("job %s submitted %d times", k, res.Launches[k]))
		}
	}
	if res.Final != "complete" {
		return bad
	}
	launchedIn := func(prefix string) []string {
		var ks []string
		for k := range res.Launches {
			if strings.HasPrefix(k, prefix+".") {
				ks = append(ks, k)
			}
		}
		sort.Strings(ks)
		return ks
	}
	for _, n := range res.Nodes {
		if n.Kind != "stage" {
			continue
		}
		seen := map[string]bool{}
		seenDisabled := map[string]bool{}
		for _, f := range n.Forks {
			if seen[f.Fqname] && !(string(f.State) == "disabled" && seenDisabled[f.Fqname]) {
				bad = append(bad, fmt.Sprintf("two forks of %s share the name %s", n.Fqname, f.Fqname))
			}
			seen[f.Fqname] = true
			// empty run-time forks nested under another map call all get the id "" (they are
			// disabled and never run or receive notifications): not counted as a clash
			seenDisabled[f.Fqname] = string(f.State) == "disabled"
			ls := launchedIn(f.Fqname)
			switch string(f.State) {
			case "disabled":
				if len(ls) > 0 {
					bad = append(bad, fmt.Sprintf("disabled fork %s executed jobs %v", f.Fqname, ls))
				}
			case "complete":
				want := f.NChunks
				if f.Splits {
					want += 2
				}
				if len(ls) != want {
					bad = append(bad, fmt.Sprintf("complete fork %s (splits=%v, %d chunks) executed %d jobs %v, expected %d", f.Fqname, f.Splits, f.NChunks, len(ls), ls, want))
				}
			default:
				bad = append(bad, fmt.Sprintf("pipestance complete but fork %s is %s", f.Fqname, f.State))
			}
		}
		// fork parts must be a bijection onto the index/key sets
		parts := map[string]bool{}
		for _, f := range n.Forks {
			var sb strings.Builder
			for _, p := range f.Parts {
				fmt.Fprintf(&sb, "%s:%s:%d:%s|", p.CallId, p.Kind, p.Index, p.Key)
			}
			if parts[sb.String()] && len(n.Forks) > 1 {
				bad = append(bad, fmt.Sprintf("node %s has two forks with the same index tuple %s", n.Fqname, sb.String()))
			}
			parts[sb.String()] = true
		}
	}
	return bad
}

func runC03(c *Ctx) {
	r := c.Res
	r.Histogram = map[string]int{}
	r.Rule = "same program supply and schedules as C02 (no injected failures, no crashes); each history is replayed in the Lean Sched model and monitored directly: no job key submitted twice; at completion every complete stage fork has executed exactly split?+chunks+join? jobs, every disabled fork none, fork names and index tuples are pairwise distinct; non-trivial = program has a mapped call or a disabled modifier or a splitting stage; distinct = (program, history) hash; plus the C01 program families (nested run-time-disabled pipelines, run-time split sources with null / empty / single elements, per-fork sibling flags) with the set of stage instances that ran compared against the instances denoted by the dataflow semantics den"
	n := 120
	if c.Thorough {
		n = 2500
	}
	progs := rtPrograms(c, n, GenOpts{})
	// families of sched_families.go: map calls over adversarial key sets (long keys differing only in the
	// middle, `_`-suffix / suffix pairs, escaping bytes; static and run-time maps, splitting stages, nested
	// mapped pipelines) and pass-through outputs of conditionally called pipelines
	nf := 16
	if c.Thorough {
		nf = 200
	}
	famRng := rand.New(rand.NewSource(c.Seed ^ 0x5c03))
	fams := append(schedKeysetFamily(famRng, nf), schedPassthroughFamily(famRng, nf/2)...)
	fams = append(fams, schedCoMappedFamily(famRng, 8)...)
	sfams := schedFamilyPrograms(c, fams)
	r.Histogram["sched_family_programs"] = len(sfams)
	progs = append(progs, sfams...)
	cases := runCases(c, progs, 2, TASpec{})
	for _, cs := range cases {
		res := cs.res
		r.hist("final_" + finalClass(res.Final))
		if strings.HasPrefix(cs.prog.Name, "fam:") {
			r.hist("family_final_" + finalClass(res.Final))
		}
		if res.Final == "compile-error" || res.Final == "process-exit" || len(res.Events) == 0 {
			continue
		}
		src := cs.prog.Src
		nontriv := strings.Contains(src, "map call") || strings.Contains(src, "disabled =") || strings.Contains(src, ") split (")
		r.count(src+"|"+strings.Join(excerpt(res.Events, 400), ";"), nontriv)
		if len(r.Samples) < 4 && nontriv {
			r.sample(map[string]interface{}{"program": cs.prog.Name, "final": res.Final, "launches": res.Launches})
		}
		for _, n := range res.Nodes {
			if len(n.Forks) > 1 {
				r.hist("nodes_with_many_forks")
			}
			for _, f := range n.Forks {
				if string(f.State) == "disabled" {
					r.hist("disabled_forks")
				}
				if f.NChunks == 0 && f.Splits {
					r.hist("split_forks_with_zero_chunks")
				}
			}
		}
		if res.Final != "complete" && strings.Contains(res.ErrMsg, "file name too long: the journal file names") {
			// a map key so long that the journal file names of the job would exceed NAME_MAX: since fix
			// 6774329 the job is refused at launch with this message (before it, it was never heard
			// from).  A refusal by design of an input outside the supported domain (C11 states the
			// bound: mapForkDir_fits / journal_name_fits), not a skipped job of a failure-free run.
			r.hist("refused_by_design:journal-name-too-long")
			continue
		}
		if res.Final != "complete" {
			// a run without failures in which the pipestance does not complete has skipped the rest of its jobs
			r.violate(Violation{Kind: "property", Key: "C03:not-completed:" + classifyRuntimeError(res.Final, res.ErrMsg),
				What:  "a run in which no job fails did not complete (" + finalClass(res.Final) + "): the remaining stage jobs are never executed; " + firstLine(res.ErrMsg),
				Input: map[string]interface{}{"program": src, "spec": cs.spec.Name, "seed": cs.spec.Seed, "error": res.ErrMsg, "history": excerpt(res.Events, 200)}})
		}
		if bad := monitorOnce(cs); len(bad) > 0 {
			key := "C03:once:" + strings.Fields(bad[0])[0]
			r.violate(Violation{Kind: "property", Key: key,
				What:  "exactly-once execution violated: " + bad[0],
				Input: map[string]interface{}{"program": src, "spec": cs.spec.Name, "seed": cs.spec.Seed, "all": bad, "history": excerpt(res.Events, 200)}})
		}
		if ok, detail, done := replayInModel(c, res); done && !ok {
			r.violate(Violation{Kind: "correspondence", Key: "C03:sched-replay-reject:" + classifyReject(detail),
				What:   "the Lean Sched model rejects a real history: " + detail,
				Input:  map[string]interface{}{"program": src, "spec": cs.spec.Name, "seed": cs.spec.Seed, "trace": res.Trace},
				Broken: "correspondence Sched.replay"})
		} else if done {
			// the model's `Finished` (conclusion of failure_free_run_completes_exactly_once) against the
			// real notion of completion: a real failure-free run that ended complete must have taken the
			// model to a state in which every node is finished
			end := schedEndNote(detail)
			cl := end
			if i := strings.Index(cl, ":"); i >= 0 {
				cl = cl[:i]
			}
			r.hist("model_end_" + cl)
			// hypothesis of maximal_run_complete (`quiescent`: no event of the scheduler/job alphabet is
			// enabled) at the end of the real run: a Finished end state must be quiescent
			r.hist("end_quiescent_" + schedHypNote(detail, "quiescent"))
			if end == "finished" && schedHypNote(detail, "quiescent") == "no" {
				r.violate(Violation{Kind: "correspondence", Key: "C03:finished-not-quiescent",
					What:   "the model's end state of a completed real run is Finished but some scheduler/job event is still enabled: " + detail,
					Input:  map[string]interface{}{"program": src, "spec": cs.spec.Name, "seed": cs.spec.Seed, "trace": res.Trace},
					Broken: "the end of a completed real run is a maximal run of the model (hypothesis of Props.C03.maximal_run_complete)"})
			}
			// the decidable hypotheses of failure_free_run_completes_exactly_once, evaluated by the driver on
			// this very history: the graph is topologically numbered (⇒ Acyclic), every event is failure-free
			for _, hyp := range []string{"topo", "ff"} {
				v := schedHypNote(detail, hyp)
				r.hist("hyp_" + hyp + "_" + v)
				if v == "no" && res.Final == "complete" {
					// (a run that did not complete — a known runtime defect reported above — is not a
					// failure-free history: mrp itself wrote an error)
					r.violate(Violation{Kind: "correspondence", Key: "C03:hypothesis-fails-on-real-run:" + hyp,
						What:   "a hypothesis of failure_free_run_completes_exactly_once (" + hyp + ") does not hold on the history of a real failure-free run: " + detail,
						Input:  map[string]interface{}{"program": src, "spec": cs.spec.Name, "seed": cs.spec.Seed, "trace": res.Trace},
						Broken: "hypotheses of Props.C03.failure_free_run_completes_exactly_once hold on real failure-free runs"})
				}
			}
			if res.Final == "complete" && end != "finished" {
				r.violate(Violation{Kind: "correspondence", Key: "C03:model-not-finished:" + cl,
					What:   "the real pipestance completed but the model's end state is not finished: " + detail,
					Input:  map[string]interface{}{"program": src, "spec": cs.spec.Name, "seed": cs.spec.Seed, "trace": res.Trace},
					Broken: "Finished (Props.C03.failure_free_run_completes_exactly_once) corresponds to Pipestance complete"})
			}
		}
	}
	// independent oracle for "exactly one fork per index / key, disabled ones run
	// nothing": the program families of C01 (harness/c01_family.go), the stage
	// instances that ran compared with the instances the dataflow semantics denotes
	for _, v := range c01InstanceViolations(c, "C03") {
		r.violate(v)
	}
}
