package main

// C04 / C14: the CONSTRUCTION of the VDR bookkeeping.  Right after the real
// pipestance has been built (NewPipestance / NewStagestance: makePrenodes,
// attachToFileParents, makeReturnBindings, buildForks, setupRetains) its call
// graph (resolved inputs of every node, resolved return bindings, retain
// lists, in construction order) is handed to the Lean model
// (lean/Martian/VdrBuild.lean: typedRefs, fileRefs, opsOf, build), and the
// model's tables are compared with the real fileArgs / filePostNodes of every
// fork (view hook).  Also: the model's typed reference walk against the real
// ResolvedBinding.FindRefs for every binding, and cloneFork on real forks
// (the clone equals the original; emptying the clone leaves the original
// untouched).

import (
	"encoding/json"
	"fmt"
	"os"
	"path"
	"path/filepath"
	"sort"
	"strings"

	"github.com/martian-lang/martian/martian/core"
	"github.com/martian-lang/martian/martian/syntax"
)

type vdrBuildEnc struct {
	v     *vdrRun
	types *syntax.TypeLookup
	stats map[string]int
}

func (e *vdrBuildEnc) nodeName(fqid string) string {
	if n := e.v.r.ps.VerifFqnameOfFqid(fqid); n != "" {
		return n
	}
	return fqid
}

func (e *vdrBuildEnc) ty(t syntax.Type) string {
	switch t := t.(type) {
	case *syntax.ArrayType:
		s := e.ty(t.Elem)
		for i := 0; i < int(t.Dim); i++ {
			s = "A " + s
		}
		return s
	case *syntax.TypedMapType:
		return "M " + e.ty(t.Elem)
	case *syntax.StructType:
		var sb strings.Builder
		sb.WriteString("S")
		for _, m := range t.Members {
			mt := e.types.Get(m.Tname)
			if mt == nil {
				sb.WriteString(" m " + hx(m.Id) + " P0")
				continue
			}
			sb.WriteString(" m " + hx(m.Id) + " " + e.ty(mt))
		}
		sb.WriteString(" e")
		return sb.String()
	case *syntax.BuiltinType:
		if t.Id == syntax.KindMap {
			return "U"
		}
		if t.IsFile() != syntax.KindIsNotFile {
			return "P1"
		}
		return "P0"
	case *syntax.UserType:
		return "P1"
	}
	if t != nil && t.TypeId().Tname == "null" {
		return "Z"
	}
	if t != nil && t.IsFile() != syntax.KindIsNotFile {
		return "P1"
	}
	return "P0"
}

func (e *vdrBuildEnc) exp(x syntax.Exp) string {
	switch x := x.(type) {
	case *syntax.RefExp:
		e.stats["ref"]++
		if strings.Contains(x.OutputId, ".") {
			e.stats["ref-projected"]++
		}
		return "r " + hx(e.nodeName(x.Id)) + " " + hx(x.OutputId)
	case *syntax.ArrayExp:
		var sb strings.Builder
		sb.WriteString("a")
		for _, el := range x.Value {
			if el == nil {
				sb.WriteString(" k - c")
			} else {
				sb.WriteString(" k - " + e.exp(el))
			}
		}
		sb.WriteString(" e")
		if x.HasRef() {
			e.stats["array-literal-with-ref"]++
		}
		return sb.String()
	case *syntax.MapExp:
		keys := make([]string, 0, len(x.Value))
		for k := range x.Value {
			keys = append(keys, k)
		}
		sort.Strings(keys)
		var sb strings.Builder
		sb.WriteString("o")
		for _, k := range keys {
			if el := x.Value[k]; el == nil {
				sb.WriteString(" k " + hx(k) + " c")
			} else {
				sb.WriteString(" k " + hx(k) + " " + e.exp(el))
			}
		}
		sb.WriteString(" e")
		if x.HasRef() {
			e.stats["map-literal-with-ref"]++
		}
		return sb.String()
	case *syntax.SplitExp:
		e.stats["split"]++
		if x.Value == nil {
			return "c"
		}
		if x.CallMode() == syntax.ModeMapCall {
			return "s1 " + e.exp(x.Value)
		}
		return "s0 " + e.exp(x.Value)
	case *syntax.MergeExp:
		e.stats["merge"]++
		if x.Value == nil {
			return "c"
		}
		return "g " + e.exp(x.Value)
	case *syntax.DisabledExp:
		e.stats["disabled"]++
		return "d " + e.exp(x.Value) + " " + e.exp(x.Disabled)
	}
	return "c"
}

func (e *vdrBuildEnc) binding(b *syntax.ResolvedBinding) string {
	return "b " + e.exp(b.Exp) + " " + e.ty(b.Type)
}

func (e *vdrBuildEnc) retains(rs []*syntax.RefExp) string {
	var sb strings.Builder
	for _, r := range rs {
		sb.WriteString("t " + hx(e.nodeName(r.Id)) + " " + hx(r.OutputId) + " ")
		e.stats["retain"]++
	}
	sb.WriteString("e")
	return sb.String()
}

// trefCheck: the model's typed walk of one binding against the real FindRefs.
func (e *vdrBuildEnc) trefCheck(where string, b *syntax.ResolvedBinding) {
	if b == nil || b.Exp == nil || b.Type == nil || !b.Exp.HasRef() {
		return
	}
	refs, err := b.FindRefs(e.types)
	if err != nil {
		e.v.hist("build-findrefs-error")
		return
	}
	seen := map[string]bool{}
	var items []string
	for _, r := range refs {
		f := "0"
		if r.Type.IsFile() != syntax.KindIsNotFile {
			f = "1"
		}
		it := hx(e.nodeName(r.Exp.Id)) + ":" + hx(r.Exp.OutputId) + ":" + f
		if !seen[it] {
			seen[it] = true
			items = append(items, it)
		}
	}
	sort.Strings(items)
	want := "."
	if len(items) > 0 {
		want = strings.Join(items, ",")
	}
	e.v.res.Checks = append(e.v.res.Checks, VdrModelCheck{Name: "typedRefs",
		Req:    []string{"C04.trefs", e.exp(b.Exp), e.ty(b.Type)},
		Expect: want,
		What: "the typed reference walk of the model (typedRefs) and ResolvedBinding.FindRefs disagree on " + where +
			": " + b.Exp.GoString() + " at type " + func() string { id := b.Type.TypeId(); return id.String() }()})
}

func (e *vdrBuildEnc) bindings(where string, m syntax.ResolvedBindingMap) string {
	keys := make([]string, 0, len(m))
	for k := range m {
		keys = append(keys, k)
	}
	sort.Strings(keys)
	var sb strings.Builder
	for _, k := range keys {
		b := m[k]
		if b == nil || b.Exp == nil || b.Type == nil {
			continue
		}
		e.trefCheck(where+"."+k, b)
		sb.WriteString(e.binding(b) + " ")
		if b.Exp.HasRef() {
			nb := vdrNodeBinding{Exp: e.exp(b.Exp)}
			seen := map[string]bool{}
			for _, r := range b.Exp.FindRefs() {
				key := e.nodeName(r.Id) + "\x00" + r.OutputId
				if !seen[key] {
					seen[key] = true
					nb.Refs = append(nb.Refs, [2]string{e.nodeName(r.Id), r.OutputId})
				}
			}
			node := e.nodeName(where)
			if e.v.bindEnc[node] == nil {
				e.v.bindEnc[node] = map[string]vdrNodeBinding{}
			}
			e.v.bindEnc[node][k] = nb
		}
	}
	sb.WriteString("e")
	return sb.String()
}

// tree encodes the siblings `nodes` (and, recursively, their children) in the
// order NewPipestance builds them.
func (e *vdrBuildEnc) tree(nodes []syntax.CallGraphNode, top map[string]bool) string {
	var sb strings.Builder
	for _, n := range nodes {
		id := hx(e.nodeName(n.GetFqid()))
		switch n.Kind() {
		case syntax.KindStage:
			sb.WriteString("T " + id + " " + e.bindings(n.GetFqid(), n.ResolvedInputs()) + " " + e.retains(n.Retained()) + " ")
		default:
			t := "0"
			if top[n.GetFqid()] {
				t = "1"
			}
			ret := "e"
			if p, ok := n.Callable().(*syntax.Pipeline); ok && p.Ret != nil && p.Ret.Bindings != nil &&
				len(p.Ret.Bindings.List) > 0 {
				if ro := n.ResolvedOutputs(); ro != nil && ro.Exp != nil && ro.Type != nil {
					e.trefCheck(n.GetFqid()+".<return>", ro)
					ret = e.binding(ro) + " e"
				}
			}
			sb.WriteString("Q " + id + " " + t + " " + e.bindings(n.GetFqid(), n.ResolvedInputs()) + " " +
				e.tree(n.GetChildren(), top) + " " + ret + " " + e.retains(n.Retained()) + " ")
		}
	}
	sb.WriteString("N")
	return sb.String()
}

func vdrTablesOf(f *core.VerifVdrFork) string {
	fa := map[string][]string{}
	for a, hs := range f.FileArgs {
		seen := map[string]bool{}
		for _, h := range hs {
			if !seen[h] {
				seen[h] = true
				fa[a] = append(fa[a], h)
			}
		}
		if len(hs) == 0 {
			fa[a] = nil
		}
	}
	return vdrHexAssoc(fa, true) + "|" + vdrHexAssoc(f.FilePostNodes, false)
}

// buildChecks runs right after the pipestance has been constructed.
func (v *vdrRun) buildChecks() {
	defer func() {
		if e := recover(); e != nil {
			v.hist("build-check-panic")
			v.violate("C04", "correspondence", "C04:model:build-encode",
				fmt.Sprintf("encoding the call graph for the construction model panicked: %v", e), nil)
		}
	}()
	nodes, types := v.r.ps.VerifBuildInfo()
	if len(nodes) == 0 || types == nil {
		return
	}
	v.bindEnc = map[string]map[string]vdrNodeBinding{}
	enc := &vdrBuildEnc{v: v, types: types, stats: map[string]int{}}
	top := map[string]bool{}
	for _, n := range nodes {
		if n.ParentIsTop {
			top[n.Call.GetFqid()] = true
		}
	}
	tree := enc.tree([]syntax.CallGraphNode{nodes[0].Call}, top)
	// the real tables, per node; the forks of a node start alike
	views := v.r.ps.VerifVdrView()
	perNode := map[string]string{}
	for i := range views {
		f := &views[i]
		t := vdrTablesOf(f)
		if old, ok := perNode[f.Node]; ok && old != t {
			v.violate("C04", "correspondence", "C04:model:build-forks-differ",
				fmt.Sprintf("the forks of %s start with different fileArgs/filePostNodes: %s vs %s", f.Node, old, t), nil)
		}
		perNode[f.Node] = t
	}
	names := make([]string, 0, len(perNode))
	for n := range perNode {
		names = append(names, n)
	}
	sort.Slice(names, func(i, j int) bool { return hx(names[i]) < hx(names[j]) })
	parts := make([]string, 0, len(names))
	nHolders := 0
	for _, n := range names {
		parts = append(parts, hx(n)+"|"+perNode[n])
		if perNode[n] != ".|." {
			nHolders++
		}
	}
	expect := "wf=true scoped=true " + strings.Join(parts, " ")
	v.res.Checks = append(v.res.Checks, VdrModelCheck{Name: "build",
		Req: []string{"C04.build", tree}, Expect: expect,
		What: "the fileArgs/filePostNodes tables the real construction (attachToFileParents, setupRetains, buildForks) gave the forks differ from the tables the model builds from the resolved bindings (or the construction order is not well-formed)"})
	v.hist("build-check")
	if nHolders > 0 {
		v.hist("build-check-with-file-holders")
	}
	for k, n := range enc.stats {
		v.res.Hist["build-exp-"+k] += n
	}
	// no two forks of a node share a bookkeeping map (each fork prunes its own)
	for _, sh := range v.r.ps.VerifForksShareTables() {
		v.violate("C04", "correspondence", "C04:model:forks-share-tables",
			"forks share a bookkeeping map (the model gives every fork its own copy of the constructed tables): "+sh, nil)
	}
	v.hist("forks-share-tables-probed")
	// cloneFork on the real forks
	for _, n := range names {
		if perNode[n] == ".|." {
			continue
		}
		before, clone, after, ok := v.r.ps.VerifCloneProbe(n, 0)
		if !ok {
			continue
		}
		v.hist("clone-probe")
		b, c, a := vdrTablesOf(&before), vdrTablesOf(&clone), vdrTablesOf(&after)
		if b != c {
			v.violate("C04", "correspondence", "C04:model:clone",
				fmt.Sprintf("cloneFork of a fork of %s does not copy the bookkeeping: original %s clone %s", n, b, c), nil)
		}
		if a != b {
			v.violate("C04", "correspondence", "C04:model:clone-shares",
				fmt.Sprintf("emptying the bookkeeping of a clone of a fork of %s changed the original: before %s after %s", n, b, a), nil)
		}
	}
}

// ---- values: the model's getMaybeFileNames (Val.names) against the real one

func vdrEncVal(x interface{}) string {
	switch t := x.(type) {
	case nil:
		return "n"
	case string:
		return "s " + hx(t)
	case []interface{}:
		var sb strings.Builder
		sb.WriteString("a")
		for _, y := range t {
			sb.WriteString(" k - " + vdrEncVal(y))
		}
		sb.WriteString(" e")
		return sb.String()
	case map[string]interface{}:
		keys := make([]string, 0, len(t))
		for k := range t {
			keys = append(keys, k)
		}
		sort.Strings(keys)
		var sb strings.Builder
		sb.WriteString("o")
		for _, k := range keys {
			sb.WriteString(" k " + hx(k) + " " + vdrEncVal(t[k]))
		}
		sb.WriteString(" e")
		return sb.String()
	}
	return "x"
}

// valueChecks: for the outs of the stage forks at the pre-final snapshot, every
// output value's file names as the real getMaybeFileNames finds them against
// the model's Val.names.
func (v *vdrRun) valueChecks(s *vdrSnapshot) {
	n := 0
	for i := range s.Forks {
		f := &s.Forks[i]
		if f.Kind != "stage" || n >= 10 {
			continue
		}
		outs, ok := s.Outs[v.rel(f.Path)]
		if !ok {
			continue
		}
		var m map[string]json.RawMessage
		if json.Unmarshal(outs, &m) != nil {
			continue
		}
		keys := make([]string, 0, len(m))
		for k := range m {
			keys = append(keys, k)
		}
		sort.Strings(keys)
		for _, k := range keys {
			if len(m[k]) > 1<<16 {
				continue
			}
			var val interface{}
			if json.Unmarshal(m[k], &val) != nil {
				continue
			}
			names := core.VerifGetMaybeFileNames(m[k])
			sort.Strings(names)
			v.res.Checks = append(v.res.Checks, VdrModelCheck{Name: "valueNames",
				Req: []string{"C04.names", vdrEncVal(val)}, Expect: vdrHexPaths(uniqStrings(names)),
				What: "getMaybeFileNames on output " + k + " of " + f.Fqname + " (" + string(compactJSON(m[k])) + ") and the model's Val.names disagree"})
			n++
			if len(names) > 0 {
				v.hist("value-names-nonempty")
			}
		}
	}
}

// checkNewForks: the moment of dynamic fork expansion.  A fork first seen
// after the construction (made by cloneFork when a map call's source became
// known) must start with the tables the node's forks were built with: the
// fork it was cloned from has not been through any bookkeeping event yet
// (what expanded_fork_safe / clone_keeps_holders are applied to).
func (v *vdrRun) checkNewForks() {
	if v.r == nil || v.r.ps == nil || v.r.Inc > 0 {
		return
	}
	views := v.r.ps.VerifVdrView()
	if v.knownForks == nil {
		v.knownForks = map[string]bool{}
		for i := range views {
			v.knownForks[fmt.Sprint(views[i].Node, "#", views[i].Index)] = true
		}
		return
	}
	if len(views) == len(v.knownForks) {
		return
	}
	for i := range views {
		f := &views[i]
		// (a fork is identified by its position: its name changes when its fork id is resolved)
		key := fmt.Sprint(f.Node, "#", f.Index)
		if v.knownForks[key] {
			continue
		}
		v.knownForks[key] = true
		init, ok := v.initView[f.Node]
		if !ok {
			continue
		}
		v.hist("dynamic-fork-first-seen")
		for _, sh := range v.r.ps.VerifForksShareTables() {
			v.violate("C04", "correspondence", "C04:model:forks-share-tables",
				"after dynamic fork expansion forks share a bookkeeping map: "+sh, nil)
		}
		if got, want := vdrTablesOf(f), vdrTablesOf(&init); got != want {
			v.violate("C04", "correspondence", "C04:model:clone-moment",
				fmt.Sprintf("fork %s, made by dynamic fork expansion, does not start with the bookkeeping its node was built with: %s, built %s", f.Fqname, got, want),
				map[string]interface{}{"event": len(v.r.Events), "state": f.State, "siblings": func() map[string]string {
					o := map[string]string{}
					for j := range views {
						if views[j].Node == f.Node {
							o[views[j].Fqname] = string(views[j].State) + " " + vdrTablesOf(&views[j])
						}
					}
					return o
				}()})
		}
	}
}

// ---- what the runtime delivers against the model's evaluation semantics

// vdrNodeBinding: a resolved input binding of a node, encoded for the model,
// with the (node fqname, output id) pairs it refers to.
type vdrNodeBinding struct {
	Exp  string
	Refs [][2]string
}

// recordedOuts: the values the forks of a node recorded for an output id
// (projected through the declared types), read from their _outs.
func (v *vdrRun) recordedOuts(node, outId string) []interface{} {
	prefix := "ID." + v.r.Opts.Psid + "."
	if !strings.HasPrefix(node, prefix) {
		return nil
	}
	dir := path.Join(v.psdir, strings.ReplaceAll(strings.TrimPrefix(node, prefix), ".", "/"))
	forks, _ := filepath.Glob(path.Join(dir, "fork*", "_outs"))
	sort.Strings(forks)
	var out []interface{}
	for _, f := range forks {
		b, err := os.ReadFile(f)
		if err != nil {
			continue
		}
		var val interface{}
		if json.Unmarshal(b, &val) != nil {
			continue
		}
		if outId != "" {
			val = v.specTypedPath(node, val, outId)
		}
		out = append(out, val)
	}
	return out
}

// deliveryCheck (at every launch): every file name in an argument the runtime
// delivers must be among the names `reach` computes from the recorded outs of
// the outputs the binding refers to — the run-time resolution delivers
// nothing the over-approximating semantics `Delivers` cannot.
func (v *vdrRun) deliveryCheck(job *TAJob) {
	if v.nReach >= 14 || v.bindEnc == nil || len(job.Args) == 0 {
		return
	}
	node := job.Fqname
	if i := strings.Index(node, ".fork"); i > 0 {
		node = node[:i]
	}
	binds := v.bindEnc[node]
	if len(binds) == 0 {
		return
	}
	var args map[string]json.RawMessage
	if json.Unmarshal(job.Args, &args) != nil {
		return
	}
	params := make([]string, 0, len(binds))
	for k := range binds {
		params = append(params, k)
	}
	sort.Strings(params)
	for _, k := range params {
		raw, ok := args[k]
		if !ok || len(raw) > 1<<16 || !strings.Contains(string(raw), "/") {
			continue
		}
		var val interface{}
		if json.Unmarshal(raw, &val) != nil {
			continue
		}
		nb := binds[k]
		var env strings.Builder
		for _, r := range nb.Refs {
			for _, x := range v.recordedOuts(r[0], r[1]) {
				env.WriteString("v " + hx(r[0]) + " " + hx(r[1]) + " " + vdrEncVal(x) + " ")
			}
		}
		env.WriteString("e")
		v.res.Checks = append(v.res.Checks, VdrModelCheck{Name: "delivers",
			Req: []string{"C04.reach", nb.Exp, env.String(), vdrEncVal(val)}, Expect: "ok",
			What: "argument " + k + " of " + job.Key + " (" + string(compactJSON(raw)) + ") names a file that the evaluation semantics of its binding (Delivers/reach) cannot derive from the recorded outs of the referenced outputs"})
		v.nReach++
		v.hist("delivery-check")
	}
}
