package main

// C19: the real-code side.  Runs the same flow as `mro edit`
// (cmd/mro/edit/main.go): full compile -> refactoring.Refactor on the compiled
// AST -> UncheckedParse of the same bytes -> Edit.Apply -> Ast.Format(), then
// re-compiles the result and dumps the resolved call graph.

import (
	"encoding/json"
	"fmt"
	"path/filepath"
	"regexp"
	"sort"
	"strings"

	"github.com/martian-lang/martian/martian/syntax"
	"github.com/martian-lang/martian/martian/syntax/refactoring"
)

// c19Edit is one refactoring request.
type c19Edit struct {
	Op       string   `json:"op"` // renameCallable renameInput renameOutput removeInput removeOutput removeUnused
	Callable string   `json:"callable,omitempty"`
	Param    string   `json:"param,omitempty"`
	NewName  string   `json:"new,omitempty"`
	Calls    bool     `json:"remove_calls,omitempty"` // removeUnused: RemoveCalls
	Top      []string `json:"top_calls,omitempty"`    // removeUnused: TopCalls
	// Op "multi": several operations in ONE Refactor call (`mro edit` with several
	// options).  Refactor applies them by category - renames of callables, of
	// inputs, of outputs, removals of inputs, of outputs, then the remove-unused
	// loop - so Steps is kept in that order; later steps use the names that the
	// earlier ones produced.
	Steps []c19Edit `json:"steps,omitempty"`
}

// c19Cat is the position of an operation in the order Refactor applies them.
func c19Cat(op string) int {
	switch op {
	case "renameCallable":
		return 0
	case "renameInput":
		return 1
	case "renameOutput":
		return 2
	case "removeInput":
		return 3
	case "removeOutput":
		return 4
	}
	return 5
}

func (e c19Edit) String() string {
	switch e.Op {
	case "multi":
		parts := make([]string, len(e.Steps))
		for i, st := range e.Steps {
			parts[i] = st.String()
		}
		return strings.Join(parts, " ; ")
	case "renameCallable":
		return fmt.Sprintf("rename %s=%s", e.Callable, e.NewName)
	case "renameInput", "renameOutput":
		return fmt.Sprintf("%s %s.%s=%s", e.Op, e.Callable, e.Param, e.NewName)
	case "removeInput", "removeOutput":
		return fmt.Sprintf("%s %s.%s", e.Op, e.Callable, e.Param)
	}
	return fmt.Sprintf("removeUnused calls=%v top=%v", e.Calls, e.Top)
}

func (e c19Edit) config() refactoring.RefactorConfig {
	var conf refactoring.RefactorConfig
	if e.Op == "multi" {
		for _, st := range e.Steps {
			c := st.config()
			conf.Rename = append(conf.Rename, c.Rename...)
			conf.RenameInParam = append(conf.RenameInParam, c.RenameInParam...)
			conf.RenameOutParam = append(conf.RenameOutParam, c.RenameOutParam...)
			conf.RemoveInParams = append(conf.RemoveInParams, c.RemoveInParams...)
			conf.RemoveOutParams = append(conf.RemoveOutParams, c.RemoveOutParams...)
			conf.RemoveCalls = conf.RemoveCalls || c.RemoveCalls
			if c.TopCalls != nil {
				if conf.TopCalls == nil {
					conf.TopCalls = refactoring.StringSet{}
				}
				for t := range c.TopCalls {
					conf.TopCalls.Add(t)
				}
			}
		}
		return conf
	}
	cp := refactoring.CallableParam{Callable: e.Callable, Param: e.Param}
	switch e.Op {
	case "renameCallable":
		conf.Rename = []refactoring.Rename{{Callable: e.Callable, NewName: e.NewName}}
	case "renameInput":
		conf.RenameInParam = []refactoring.RenameParam{{CallableParam: cp, NewName: e.NewName}}
	case "renameOutput":
		conf.RenameOutParam = []refactoring.RenameParam{{CallableParam: cp, NewName: e.NewName}}
	case "removeInput":
		conf.RemoveInParams = []refactoring.CallableParam{cp}
	case "removeOutput":
		conf.RemoveOutParams = []refactoring.CallableParam{cp}
	case "removeUnused":
		conf.RemoveCalls = e.Calls
		if len(e.Top) > 0 {
			conf.TopCalls = refactoring.StringSet{}
			for _, t := range e.Top {
				conf.TopCalls.Add(t)
			}
		}
	}
	return conf
}

type c19Compiled struct {
	Ast   *syntax.Ast
	Graph syntax.CallGraphNode
}

// c19Compile parses+compiles src (no includes) and resolves the call graph of
// the top-level call, if any.
func c19Compile(src, path string) (res *c19Compiled, err error) {
	defer func() {
		if p := recover(); p != nil {
			err = fmt.Errorf("PANIC: %v", p)
		}
	}()
	var parser syntax.Parser
	_, _, ast, err := parser.ParseSourceBytes([]byte(src), path, []string{filepath.Dir(path)}, false)
	if err != nil {
		return nil, err
	}
	res = &c19Compiled{Ast: ast}
	if ast.Call != nil {
		g, err := ast.MakeCallGraph("", ast.Call)
		if err != nil {
			return res, fmt.Errorf("call graph: %w", err)
		}
		res.Graph = g
	}
	return res, nil
}

// c19Apply runs one edit the way `mro edit` does.  Returns the formatted new
// source, the uncompiled edited AST, and the number of edit sites.
func c19Apply(src, path string, e c19Edit) (out string, edited *syntax.Ast, count int, inconsistent string, err error) {
	defer func() {
		if p := recover(); p != nil {
			err = fmt.Errorf("PANIC: %v", p)
		}
	}()
	var parser syntax.Parser
	_, _, ast, err := parser.ParseSourceBytes([]byte(src), path, []string{filepath.Dir(path)}, false)
	if err != nil {
		return "", nil, 0, "", fmt.Errorf("precompile: %w", err)
	}
	edit, err := refactoring.Refactor([]*syntax.Ast{ast}, e.config())
	if err != nil {
		return "", nil, 0, "", fmt.Errorf("refactor: %w", err)
	}
	// Refactor applies rename edits to the compiled AST as it goes, because later
	// steps of the same call read its lookup tables: they must still describe it.
	if strings.HasPrefix(e.Op, "rename") {
		inconsistent = c19TablesConsistent(ast)
	}
	plain, err := parser.UncheckedParse([]byte(src), path)
	if err != nil {
		return "", nil, 0, inconsistent, fmt.Errorf("reparse: %w", err)
	}
	if edit != nil {
		count, err = edit.Apply(plain)
		if err != nil {
			return "", plain, count, inconsistent, fmt.Errorf("apply: %w", err)
		}
	}
	return plain.Format(), plain, count, inconsistent, nil
}

// c19TablesConsistent checks the lookup tables of a compiled AST against its
// lists: every callable / call / parameter / binding is found under its own
// current name.  Returns "" or the first discrepancy.
func c19TablesConsistent(ast *syntax.Ast) string {
	for _, c := range ast.Callables.List {
		if ast.Callables.Table[c.GetId()] != c {
			return fmt.Sprintf("Ast.Callables.Table[%q] is not the callable of that name", c.GetId())
		}
		if ins := c.GetInParams(); ins != nil && ins.Table != nil {
			for _, p := range ins.List {
				if ins.Table[p.Id] != p {
					return fmt.Sprintf("%s: InParams.Table[%q] is not that parameter", c.GetId(), p.Id)
				}
			}
		}
		if outs := c.GetOutParams(); outs != nil && outs.Table != nil {
			for _, p := range outs.List {
				if outs.Table[p.Id] != p {
					return fmt.Sprintf("%s: OutParams.Table[%q] is not that parameter", c.GetId(), p.Id)
				}
			}
		}
	}
	binds := func(where string, b *syntax.BindStms) string {
		if b == nil || b.Table == nil {
			return ""
		}
		for _, s := range b.List {
			if s.Id == "*" {
				continue
			}
			if b.Table[s.Id] != s {
				return fmt.Sprintf("%s: Bindings.Table[%q] is not the binding of that name", where, s.Id)
			}
		}
		return ""
	}
	for _, p := range ast.Pipelines {
		for _, c := range p.Calls {
			if p.Callables != nil && p.Callables.Table != nil {
				if t := p.Callables.Table[c.Id]; t == nil {
					return fmt.Sprintf("pipeline %s: Callables.Table has no entry for call id %q", p.Id, c.Id)
				} else if t.GetId() != c.DecId {
					return fmt.Sprintf("pipeline %s: Callables.Table[%q] is %s, the call invokes %s", p.Id, c.Id, t.GetId(), c.DecId)
				}
			}
			if m := binds("pipeline "+p.Id+" call "+c.Id, c.Bindings); m != "" {
				return m
			}
		}
		if p.Ret != nil {
			if m := binds("pipeline "+p.Id+" return", p.Ret.Bindings); m != "" {
				return m
			}
		}
	}
	if ast.Call != nil {
		if m := binds("top-level call", ast.Call.Bindings); m != "" {
			return m
		}
	}
	return ""
}

// ---- call graph dump -------------------------------------------------------

type c19Node struct {
	Fqid     string
	CallId   string
	Callable string
	Stage    bool
	JSON     map[string]interface{} // this node's JSON without children
	Children []*c19Node
}

func c19Dump(g syntax.CallGraphNode) (n *c19Node, err error) {
	defer func() {
		if p := recover(); p != nil {
			err = fmt.Errorf("PANIC in json.Marshal(call graph): %v", p)
		}
	}()
	b, err := json.Marshal(g)
	if err != nil {
		return nil, err
	}
	var j map[string]interface{}
	if err := json.Unmarshal(b, &j); err != nil {
		return nil, err
	}
	return c19DumpNode(g, j), nil
}

func c19DumpNode(g syntax.CallGraphNode, j map[string]interface{}) *c19Node {
	n := &c19Node{Fqid: g.GetFqid(), CallId: g.Call().Id, Callable: g.Callable().GetId(),
		Stage: g.Kind() == syntax.KindStage, JSON: map[string]interface{}{}}
	for k, v := range j {
		if k != "children" {
			n.JSON[k] = v
		}
	}
	kids, _ := j["children"].([]interface{})
	for i, c := range g.GetChildren() {
		var cj map[string]interface{}
		if i < len(kids) {
			cj, _ = kids[i].(map[string]interface{})
		}
		n.Children = append(n.Children, c19DumpNode(c, cj))
	}
	return n
}

func (n *c19Node) walk(f func(*c19Node)) {
	f(n)
	for _, c := range n.Children {
		c.walk(f)
	}
}

// c19Renaming describes how identifiers of the graph before an edit are
// expected to appear after it.
type c19Renaming struct {
	fq       map[string]string // fqid before -> fqid after (positional)
	callable map[string]string // fqid before -> callable name before
	oldC     string            // renamed callable (or owner of the renamed param)
	newC     string
	inOld    string // renamed input of oldC
	inNew    string
	outOld   string // renamed output of oldC
	outNew   string
	fqids    []string // before-fqids, longest first
}

var c19Ident = regexp.MustCompile(`[A-Za-z_][A-Za-z0-9_]*`)

func (rn *c19Renaming) typeName(s string) string {
	if rn.newC == "" {
		return s
	}
	return c19Ident.ReplaceAllStringFunc(s, func(id string) string {
		if id == rn.oldC {
			return rn.newC
		}
		return id
	})
}

// ref maps a reference string "fqid.out.path" (or a bare fqid).
func (rn *c19Renaming) ref(s string) (string, bool) {
	for _, fq := range rn.fqids {
		if s == fq {
			return rn.fq[fq], true
		}
		if strings.HasPrefix(s, fq+".") {
			rest := s[len(fq)+1:]
			if rn.outOld != "" && rn.callable[fq] == rn.oldC {
				head, tail := rest, ""
				if i := strings.IndexByte(rest, '.'); i >= 0 {
					head, tail = rest[:i], rest[i:]
				}
				if head == rn.outOld {
					rest = rn.outNew + tail
				}
			}
			return rn.fq[fq] + "." + rest, true
		}
	}
	return s, false
}

// eq compares a JSON value of the before-graph with the corresponding value
// of the after-graph modulo the renaming; returns "" or the first difference.
func (rn *c19Renaming) eq(a, b interface{}, node *c19Node, path []string, where string) string {
	switch x := a.(type) {
	case string:
		y, ok := b.(string)
		if !ok {
			return fmt.Sprintf("%s: %s vs %s", where, c19JS(a), c19JS(b))
		}
		if x == y {
			if _, isRef := rn.ref(x); !isRef {
				return ""
			}
		}
		if len(path) > 0 && path[len(path)-1] == "type" {
			if rn.typeName(x) == y {
				return ""
			}
			return fmt.Sprintf("%s: type %q vs %q", where, x, y)
		}
		if r, ok := rn.ref(x); ok {
			if r == y {
				return ""
			}
			return fmt.Sprintf("%s: reference %q became %q, expected %q", where, x, y, r)
		}
		if rn.newC != "" && x == rn.oldC && y == rn.newC {
			return "" // a call id that took the new callable name
		}
		// an unresolved reference to a pipeline input inside a split source description ("in.path")
		if rn.inOld != "" && len(path) > 0 && path[len(path)-1] == "ref" {
			if x == rn.inOld && y == rn.inNew {
				return ""
			}
			if strings.HasPrefix(x, rn.inOld+".") && y == rn.inNew+x[len(rn.inOld):] {
				return ""
			}
		}
		// references spelled with a call id instead of a fully qualified id ("CALL.out.path")
		if i := strings.IndexByte(x, '.'); i > 0 {
			cid, rest := x[:i], x[i+1:]
			if rn.newC != "" && cid == rn.oldC && y == rn.newC+"."+rest {
				return ""
			}
			if rn.outOld != "" {
				head, tail := rest, ""
				if j := strings.IndexByte(rest, '.'); j >= 0 {
					head, tail = rest[:j], rest[j:]
				}
				if head == rn.outOld && y == cid+"."+rn.outNew+tail {
					return ""
				}
			}
		}
		return fmt.Sprintf("%s: %q vs %q", where, x, y)
	case []interface{}:
		y, ok := b.([]interface{})
		if !ok || len(x) != len(y) {
			return fmt.Sprintf("%s: %s vs %s", where, c19JS(a), c19JS(b))
		}
		for i := range x {
			if d := rn.eq(x[i], y[i], node, append(path, "#"), fmt.Sprintf("%s[%d]", where, i)); d != "" {
				return d
			}
		}
		return ""
	case map[string]interface{}:
		y, ok := b.(map[string]interface{})
		// `fork` maps are keyed by bare call id: two nested map calls with the same id
		// share one key there, and renaming one of them splits it (not an effect of the edit)
		forkMap := len(path) > 0 && path[len(path)-1] == "fork"
		if !ok || (len(x) != len(y) && !forkMap) {
			return fmt.Sprintf("%s: %s vs %s", where, c19JS(a), c19JS(b))
		}
		keys := make([]string, 0, len(x))
		for k := range x {
			keys = append(keys, k)
		}
		sort.Strings(keys)
		used := map[string]bool{}
		for _, k := range keys {
			var cands []string
			if node.Callable == rn.oldC {
				if rn.inOld != "" && k == rn.inOld && len(path) == 1 && path[0] == "inputs" {
					cands = append(cands, rn.inNew)
				}
				if rn.outOld != "" && k == rn.outOld && !node.Stage && len(path) >= 2 && path[0] == "outputs" {
					if len(path) == 2 {
						cands = append(cands, rn.outNew) // the struct of the pipeline's outputs itself
					} else {
						cands = append(cands, k, rn.outNew) // the same struct under a disabled/merge wrapper, or an unrelated field
					}
				}
			}
			if len(cands) == 0 {
				cands = append(cands, k)
				if rn.newC != "" && k == rn.oldC {
					cands = append(cands, rn.newC)
				}
				if r, ok := rn.ref(k); ok && r != k {
					cands = append(cands, r)
				}
			}
			found := false
			for _, ck := range cands {
				if yv, ok := y[ck]; ok && !used[ck] {
					used[ck] = true
					found = true
					if forkMap {
						break // values are not compared: entries of nested calls with equal ids overwrite each other
					}
					if d := rn.eq(x[k], yv, node, append(path, k), where+"."+k); d != "" {
						return d
					}
					break
				}
			}
			if !found && !forkMap {
				return fmt.Sprintf("%s: key %q (expected as %v) missing after the edit; keys after: %v", where, k, cands, c19Keys(y))
			}
		}
		return ""
	}
	if c19JS(a) != c19JS(b) {
		return fmt.Sprintf("%s: %s vs %s", where, c19JS(a), c19JS(b))
	}
	return ""
}

func c19Keys(m map[string]interface{}) []string {
	ks := make([]string, 0, len(m))
	for k := range m {
		ks = append(ks, k)
	}
	sort.Strings(ks)
	return ks
}

// c19PairGraphs walks both graphs in parallel and builds the positional
// fqid map; returns "" or a description of a shape mismatch.
func c19PairGraphs(a, b *c19Node, rn *c19Renaming) string {
	rn.fq[a.Fqid] = b.Fqid
	rn.callable[a.Fqid] = a.Callable
	if a.Stage != b.Stage {
		return fmt.Sprintf("node %s: kind differs", a.Fqid)
	}
	if len(a.Children) != len(b.Children) {
		return fmt.Sprintf("node %s: %d children before, %d after", a.Fqid, len(a.Children), len(b.Children))
	}
	for i := range a.Children {
		if m := c19PairGraphs(a.Children[i], b.Children[i], rn); m != "" {
			return m
		}
	}
	return ""
}

func c19JSONDiff(a, b interface{}, path string) string {
	switch x := a.(type) {
	case map[string]interface{}:
		y, ok := b.(map[string]interface{})
		if !ok {
			return fmt.Sprintf("%s: %s vs %s", path, c19JS(a), c19JS(b))
		}
		keys := map[string]bool{}
		for k := range x {
			keys[k] = true
		}
		for k := range y {
			keys[k] = true
		}
		ks := make([]string, 0, len(keys))
		for k := range keys {
			ks = append(ks, k)
		}
		sort.Strings(ks)
		for _, k := range ks {
			xv, okx := x[k]
			yv, oky := y[k]
			if !okx || !oky {
				return fmt.Sprintf("%s.%s: present before=%v after=%v", path, k, okx, oky)
			}
			if d := c19JSONDiff(xv, yv, path+"."+k); d != "" {
				return d
			}
		}
		return ""
	case []interface{}:
		y, ok := b.([]interface{})
		if !ok || len(x) != len(y) {
			return fmt.Sprintf("%s: %s vs %s", path, c19JS(a), c19JS(b))
		}
		for i := range x {
			if d := c19JSONDiff(x[i], y[i], fmt.Sprintf("%s[%d]", path, i)); d != "" {
				return d
			}
		}
		return ""
	}
	if c19JS(a) != c19JS(b) {
		return fmt.Sprintf("%s: %s vs %s", path, c19JS(a), c19JS(b))
	}
	return ""
}

func c19JS(v interface{}) string {
	b, _ := json.Marshal(v)
	if len(b) > 300 {
		return string(b[:300]) + "…"
	}
	return string(b)
}

// c19CompareRenamed: graph after == graph before with identifiers renamed.
// expectId (optional) gives the expected call id after the edit for a node,
// used for the renameCallable rule (unaliased calls take the new name unless
// that collides).
func c19CompareRenamed(before, after *c19Node, e c19Edit) string {
	rn := &c19Renaming{fq: map[string]string{}, callable: map[string]string{}}
	switch e.Op {
	case "renameCallable":
		rn.oldC, rn.newC = e.Callable, e.NewName
	case "renameInput":
		rn.oldC, rn.inOld, rn.inNew = e.Callable, e.Param, e.NewName
	case "renameOutput":
		rn.oldC, rn.outOld, rn.outNew = e.Callable, e.Param, e.NewName
	}
	if m := c19PairGraphs(before, after, rn); m != "" {
		return "shape: " + m
	}
	for fq := range rn.fq {
		rn.fqids = append(rn.fqids, fq)
	}
	sort.Slice(rn.fqids, func(i, j int) bool {
		if len(rn.fqids[i]) != len(rn.fqids[j]) {
			return len(rn.fqids[i]) > len(rn.fqids[j])
		}
		return rn.fqids[i] < rn.fqids[j]
	})
	var diff string
	var rec func(a, b *c19Node)
	rec = func(a, b *c19Node) {
		if diff != "" {
			return
		}
		wantC := a.Callable
		if rn.newC != "" && wantC == rn.oldC {
			wantC = rn.newC
		}
		if b.Callable != wantC {
			diff = fmt.Sprintf("node %s: callable %s, expected %s", b.Fqid, b.Callable, wantC)
			return
		}
		// call ids: unchanged, except that a call of the renamed callable may take the new name
		if b.CallId != a.CallId && !(e.Op == "renameCallable" && a.CallId == e.Callable && b.CallId == e.NewName) {
			diff = fmt.Sprintf("node %s: call id %s became %s", a.Fqid, a.CallId, b.CallId)
			return
		}
		if d := rn.eq(a.JSON, b.JSON, a, nil, b.Fqid); d != "" {
			diff = d
			return
		}
		for i := range a.Children {
			rec(a.Children[i], b.Children[i])
		}
	}
	rec(before, after)
	return diff
}

// c19CompareRemoved: every node after exists before (same fqid, callable);
// its JSON equals the before JSON except that `removedIn` input keys /
// `removedOut` output keys of the named callables may be missing; nothing
// else may change.  allowNodeLoss: nodes may disappear (removeUnused calls).
type c19Removal struct {
	inOf        map[string]map[string]bool // callable -> removable input names ("*" = any, for pipelines' cascaded inputs)
	outOf       map[string]map[string]bool
	nodeLoss    bool
	anyPipeIn   bool            // inputs of pipeline nodes may disappear (cascade of no-longer-bound inputs)
	anyPipeOut  bool            // outputs of non-top pipeline nodes may disappear (removeUnusedOutputs)
	tops        map[string]bool // pipelines listed as top calls never lose outputs
	ignoreForks bool            // do not compare fork roots / pipeline output expressions (removeInput)
	forked      bool            // the graph has map calls: removing a stage input changes which stages fork, and with
	// it the split/merge wrapping of downstream expressions; only key sets of inputs are compared then
}

func c19CompareRemoved(before, after *c19Node, rm *c19Removal) string {
	if rm.ignoreForks {
		before.walk(func(n *c19Node) {
			if n.JSON["fork_roots"] != nil {
				rm.forked = true
			}
		})
	}
	bmap := map[string]*c19Node{}
	before.walk(func(n *c19Node) { bmap[n.Fqid] = n })
	amap := map[string]*c19Node{}
	after.walk(func(n *c19Node) { amap[n.Fqid] = n })
	if !rm.nodeLoss && len(amap) != len(bmap) {
		return fmt.Sprintf("node count %d -> %d", len(bmap), len(amap))
	}
	var fqs []string
	for fq := range amap {
		fqs = append(fqs, fq)
	}
	sort.Strings(fqs)
	for _, fq := range fqs {
		a := amap[fq]
		b := bmap[fq]
		if b == nil {
			return "new node " + fq
		}
		if a.Callable != b.Callable || a.Stage != b.Stage {
			return "node " + fq + " changed callable"
		}
		// children order must be preserved (subsequence)
		// inputs
		bi, _ := b.JSON["inputs"].(map[string]interface{})
		ai, _ := a.JSON["inputs"].(map[string]interface{})
		for k, bv := range bi {
			av, ok := ai[k]
			if !ok {
				if rm.inOf[b.Callable][k] || (rm.anyPipeIn && !b.Stage) {
					continue
				}
				return fmt.Sprintf("%s: input %s disappeared", fq, k)
			}
			if rm.ignoreForks {
				if rm.forked {
					continue // only the key sets are compared (see c19Removal.forked)
				}
				bv, av = c19StripForks(bv), c19StripForks(av)
			}
			if d := c19JSONDiff(bv, av, fq+".inputs."+k); d != "" {
				return d
			}
		}
		for k := range ai {
			if _, ok := bi[k]; !ok {
				return fmt.Sprintf("%s: new input %s", fq, k)
			}
		}
		// outputs
		bo, _ := b.JSON["outputs"].(map[string]interface{})
		ao, _ := a.JSON["outputs"].(map[string]interface{})
		if b.Stage {
			// a stage's outputs are a reference to itself (absent when it has no outputs left)
			if len(rm.outOf[b.Callable]) == 0 && !rm.ignoreForks {
				if d := c19JSONDiff(bo, ao, fq+".outputs"); d != "" {
					return d
				}
			}
		} else {
			be, _ := bo["expression"].(map[string]interface{})
			ae, _ := ao["expression"].(map[string]interface{})
			// a disabled pipeline's outputs are wrapped: {__disabled__: cond, value: {…}}
			if be["__disabled__"] != nil && ao["expression"] == nil && (rm.anyPipeOut || len(rm.outOf[b.Callable]) > 0) {
				be, ae = nil, nil // every output of a disabled pipeline was removed
			}
			for be["__disabled__"] != nil && ae["__disabled__"] != nil {
				if d := c19JSONDiff(be["__disabled__"], ae["__disabled__"], fq+".outputs.__disabled__"); d != "" {
					return d
				}
				bv, _ := be["value"].(map[string]interface{})
				av, _ := ae["value"].(map[string]interface{})
				be, ae = bv, av
			}
			if (bo["expression"] == nil) != (ao["expression"] == nil) && len(be) != 0 && !(rm.anyPipeOut || len(rm.outOf[b.Callable]) > 0) {
				return fmt.Sprintf("%s: outputs presence changed", fq)
			}
			for k, bv := range be {
				av, ok := ae[k]
				if !ok {
					if rm.outOf[b.Callable][k] || (rm.anyPipeOut && !rm.tops[b.Callable] && fq != before.Fqid) || (rm.ignoreForks && rm.forked) {
						continue
					}
					return fmt.Sprintf("%s: output %s disappeared", fq, k)
				}
				if rm.ignoreForks {
					continue
				}
				if d := c19JSONDiff(bv, av, fq+".outputs."+k); d != "" {
					return d
				}
			}
			for k := range ae {
				if _, ok := be[k]; !ok && !(rm.ignoreForks && rm.forked) {
					return fmt.Sprintf("%s: new output %s", fq, k)
				}
			}
		}
		for _, k := range []string{"disabled", "fork_roots", "retained", "comments"} {
			if k == "fork_roots" && (rm.ignoreForks || !b.Stage) {
				// a pipeline node's fork roots are derived from its outputs; a stage's
				// from its split-dependent inputs
				continue
			}
			if k == "disabled" && len(rm.outOf[b.Callable]) > 0 {
				continue // derived from the node's outputs, which are being removed
			}
			bv, av := b.JSON[k], a.JSON[k]
			if rm.ignoreForks {
				bv, av = c19StripForks(bv), c19StripForks(av)
			}
			if d := c19JSONDiff(bv, av, fq+"."+k); d != "" {
				return d
			}
		}
	}
	// every reference that survives must point at a surviving node
	var dangling string
	after.walk(func(n *c19Node) {
		c19Strings(n.JSON, func(s string) {
			if dangling != "" {
				return
			}
			for bf := range bmap {
				if (s == bf || strings.HasPrefix(s, bf+".")) && amap[bf] == nil {
					// bf might be a prefix of a longer surviving fqid
					ok := false
					for af := range amap {
						if s == af || strings.HasPrefix(s, af+".") {
							ok = true
						}
					}
					if !ok {
						dangling = fmt.Sprintf("%s refers to removed node via %q", n.Fqid, s)
					}
				}
			}
		})
	})
	return dangling
}

func c19Strings(v interface{}, f func(string)) {
	switch v := v.(type) {
	case string:
		f(v)
	case []interface{}:
		for _, x := range v {
			c19Strings(x, f)
		}
	case map[string]interface{}:
		for _, x := range v {
			c19Strings(x, f)
		}
	}
}

// c19StripForks drops the fork annotations of references (which fork of a
// mapped stage a reference selects); they legitimately change when a stage
// stops depending on a split input.
func c19StripForks(v interface{}) interface{} {
	switch v := v.(type) {
	case []interface{}:
		o := make([]interface{}, len(v))
		for i, x := range v {
			o[i] = c19StripForks(x)
		}
		return o
	case map[string]interface{}:
		o := make(map[string]interface{}, len(v))
		for k, x := range v {
			if k == "fork" || k == "fork_node" || k == "fork_index" {
				continue
			}
			o[k] = c19StripForks(x)
		}
		return o
	}
	return v
}

// c19GraphOfPipeline resolves the call graph of pipeline `name` called as a
// top-level call with abstract arguments (what FindUnusedStageOutputs does for
// each -top-calls entry).
func c19GraphOfPipeline(ast *syntax.Ast, name string) (n *c19Node, err error) {
	defer func() {
		if p := recover(); p != nil {
			err = fmt.Errorf("PANIC: %v", p)
		}
	}()
	pipe, ok := ast.Callables.Table[name].(*syntax.Pipeline)
	if !ok || pipe == nil {
		return nil, fmt.Errorf("no pipeline %s", name)
	}
	g, err := ast.MakePipelineCallGraph("", syntax.GenerateAbstractCall(pipe, &ast.TypeTable))
	if err != nil {
		return nil, err
	}
	return c19Dump(g)
}
