package main

// C16, invocation bytes.  Arguments travel as json.RawMessage and are written by
// concatenation.  Ties lean/Martian/JsonBytes.lean `encodeRawMap` / `encodeRawArr` to
//   core.LazyArgumentMap.MarshalJSON / EncodeJSON, core.MarshalerMap.MarshalJSON / EncodeJSON,
//   marshallerArray (hook), byte for byte,
// on maps/arrays of raw messages (odd white space, duplicate keys inside values, escapes and
// invalid UTF-8 in keys, nil values, nested maps and arrays), and monitors on the real code that
// nothing is lost by the splicing: decoding the written bytes gives back exactly the keys and,
// byte for byte, the raw values (invocation_map_bytes); what Metadata.Write puts on disk
// (json.MarshalIndent of the map) is read by the byte-level grammar model as the same tree.

import (
	"bytes"
	"encoding/json"
	"fmt"
	"sort"
	"strings"

	"github.com/martian-lang/martian/martian/core"
)

var c16bKeys = []string{"a", "b", "x", "reads", "a<b", "k&", "é", "\U0001F600", "a\"b", "a\\b", "\n", "", "\x7f", "\xff", "a\xc3", " ", "Z", "aa", "a b"}

func (x *c16Runner) rawValue(g *c17bGen, depth int) json.RawMessage {
	var sb strings.Builder
	g.value(&sb, depth)
	return json.RawMessage(sb.String())
}

// c16bNode: a random raw-message container as the resolver builds them
func (x *c16Runner) bytesNode(g *c17bGen, depth int) (json.Marshaler, string) {
	n, k, _ := x.bytesNode3(g, depth)
	return n, k
}

func (x *c16Runner) bytesNode3(g *c17bGen, depth int) (json.Marshaler, string, []json.Marshaler) {
	rng := x.c.Rng
	n := rng.Intn(4)
	switch rng.Intn(3) {
	case 0:
		m := core.LazyArgumentMap{}
		for i := 0; i < n; i++ {
			k := c16bKeys[rng.Intn(len(c16bKeys))]
			if rng.Intn(8) == 0 {
				m[k] = nil
			} else {
				m[k] = x.rawValue(g, rng.Intn(3))
			}
		}
		return m, "lazy_map", nil
	case 1:
		m := core.MarshalerMap{}
		for i := 0; i < n; i++ {
			k := c16bKeys[rng.Intn(len(c16bKeys))]
			switch {
			case rng.Intn(8) == 0:
				m[k] = nil
			case depth > 0 && rng.Intn(3) == 0:
				m[k], _ = x.bytesNode(g, depth-1)
			default:
				m[k] = x.rawValue(g, rng.Intn(3))
			}
		}
		return m, "marshaler_map", nil
	default:
		elems := make([]json.Marshaler, n)
		for i := range elems {
			switch {
			case rng.Intn(8) == 0:
				elems[i] = nil
			case depth > 0 && rng.Intn(3) == 0:
				elems[i], _ = x.bytesNode(g, depth-1)
			default:
				elems[i] = x.rawValue(g, rng.Intn(3))
			}
		}
		return core.VerifMarshalerArray(elems), "marshaller_array", elems
	}
}

func c16bChildBytes(v json.Marshaler) []byte {
	if v == nil {
		return []byte("null")
	}
	switch v := v.(type) {
	case json.RawMessage:
		if v == nil {
			return []byte("null")
		}
		return v
	}
	b, err := v.MarshalJSON()
	if err != nil {
		return []byte("<error " + err.Error() + ">")
	}
	return b
}

func (x *c16Runner) bytesCheck(node json.Marshaler, kind string, given []json.Marshaler) {
	r := x.r
	real, err := node.MarshalJSON()
	in := map[string]interface{}{"kind": kind, "go_value": fmt.Sprintf("%#v", node)}
	if err != nil {
		r.note("C16 bytes: MarshalJSON of a generated %s failed: %v", kind, err)
		return
	}
	r.count("bytes:"+string(real), len(real) > 2)
	r.hist("bytes_" + kind)
	// EncodeJSON writes the same bytes
	if w, ok := node.(interface {
		EncodeJSON(buf *bytes.Buffer) error
	}); ok {
		var buf bytes.Buffer
		if err := w.EncodeJSON(&buf); err != nil || !bytes.Equal(buf.Bytes(), real) {
			x.r.violate(Violation{Kind: "property", Key: "C16:bytes:encode-vs-marshal", What: "EncodeJSON and MarshalJSON of a raw-message container differ",
				Input: in, Impl: buf.String(), Expect: string(real)})
		}
	}
	var req []string
	type kv struct{ k, v string }
	var members []kv
	var elems []string
	switch n := node.(type) {
	case core.LazyArgumentMap:
		for k, v := range n {
			members = append(members, kv{k, string(c16bChildBytes(v))})
		}
	case core.MarshalerMap:
		for k, v := range n {
			members = append(members, kv{k, string(c16bChildBytes(v))})
		}
	default:
		for _, e := range given {
			elems = append(elems, string(c16bChildBytes(e)))
		}
	}
	if kind == "marshaller_array" {
		req = []string{"C16.encarr", hxList(elems)}
	} else {
		sort.Slice(members, func(i, j int) bool { return members[i].k < members[j].k })
		// handed over in REVERSE sorted order: the model sorts
		parts := make([]string, 0, len(members))
		for i := len(members) - 1; i >= 0; i-- {
			parts = append(parts, hx(members[i].k)+":"+hx(members[i].v))
		}
		arg := "."
		if len(parts) > 0 {
			arg = strings.Join(parts, ",")
		}
		req = []string{"C16.encmap", "1", arg}
	}
	x.ask(req, func(rep string) {
		if unhx(rep) != string(real) {
			x.r.violate(Violation{Kind: "correspondence", Key: "C16:bytes:" + kind, What: "the raw-message writer's bytes differ from the model (encodeRawMap / encodeRawArr)",
				Input: in, Impl: string(real), Model: unhx(rep), Broken: "correspondence C16.encmap/encarr (Martian.JsonBytes ~ core writers)"})
		}
	})
	// nothing lost by the splicing (real code alone)
	if kind != "marshaller_array" {
		var back map[string]json.RawMessage
		if err := json.Unmarshal(real, &back); err != nil {
			// a raw value that is no JSON cannot occur: the generator only emits valid texts
			x.r.violate(Violation{Kind: "property", Key: "C16:bytes:written-map-not-json", What: "the bytes written for a map of valid raw messages are not valid JSON: " + err.Error(),
				Input: in, Impl: string(real), Broken: "invocation_map_parses"})
			return
		}
		want := map[string]string{}
		for _, m := range members {
			// json.Marshal coerces invalid UTF-8 in a key to U+FFFD: distinct Go keys can collide
			kb, _ := json.Marshal(m.k)
			var kd string
			_ = json.Unmarshal(kb, &kd)
			want[kd] = m.v // sorted order: the later (larger) key wins, as in a decode
		}
		ok := len(back) == len(want)
		for k, v := range want {
			if string(back[k]) != v {
				ok = false
			}
		}
		if !ok {
			x.r.violate(Violation{Kind: "property", Key: "C16:bytes:map-splice-loses", What: "decoding the written map does not give back the keys and, byte for byte, the raw values",
				Input: in, Impl: string(real), Broken: "invocation_map_bytes"})
		}
		// what Metadata.Write puts on disk
		if ind, err := json.MarshalIndent(node, "", "    "); err == nil {
			realHex, indHex := hx(string(real)), hx(string(ind))
			var t1 string
			x.ask([]string{"C17.parseb", realHex}, func(rep string) { t1 = rep })
			x.ask([]string{"C17.parseb", indHex}, func(rep string) {
				if rep != t1 || rep == "none" {
					x.r.violate(Violation{Kind: "property", Key: "C16:bytes:indent-changes-tree", What: "json.MarshalIndent of the map (Metadata.Write) is not read as the tree of the written bytes",
						Input: in, Impl: rep, Expect: t1, Broken: "Martian.JsonBytes.parseTop on Metadata.Write output"})
				}
			})
		}
	}
}

func (x *c16Runner) bytesAll(n int) {
	g := &c17bGen{c: x.c}
	for i := 0; i < n; i++ {
		node, kind, given := x.bytesNode3(g, 2)
		x.bytesCheck(node, kind, given)
		// every nested container is checked as well
		switch m := node.(type) {
		case core.MarshalerMap:
			for _, v := range m {
				switch v.(type) {
				case core.LazyArgumentMap:
					x.bytesCheck(v, "lazy_map", nil)
				case core.MarshalerMap:
					x.bytesCheck(v, "marshaler_map", nil)
				}
			}
		}
		if i%128 == 127 {
			x.flush()
		}
	}
	x.flush()
}
