package main

// C08, parser driver: the debug trace of the REAL generated parser (mmParse of grammar.go, run by the
// hook syntax.VerifParseTrace with mmDebug = 4: every push, every token read, every reduction, the
// error report and the error recovery) against the trace of the Lean model of the table-driven LR loop
// (driver op C08.parse, Martian.LexerLR.run, which lexes the source with the tokenizer model), plus
// monitors directly on the real trace.
//
// Event grammar (one word per event, in the order the parser prints them):
//   P<state>              a state is pushed (label mmstack; the first event is P0)
//   L<token>/<char>       mmlex1 read a token: internal token number / what Lex returned (0 at the end)
//   R<prod>@<state>       reduction by production <prod> in state <state> (before its action runs)
//   E<state>/<token>      new syntax error in <state> on lookahead <token>
//   X<state>              error recovery pops <state>
//   D<token>              error recovery discards the lookahead <token>
//   =<result>             mmParse returned <result>
// followed, when there was an E event, by ` @<line>:<col>` = the scanner's location after the parse.

import (
	"fmt"
	"strconv"
	"strings"
	"time"

	"github.com/martian-lang/martian/martian/syntax"
)

type c08PTrace struct {
	result    int
	events    []string
	line, col int
	token     string
	gotError  bool
	panicked  string
	hung      string
}

// c08ParserHung: the real parser did not return on an earlier input; the goroutine still holds the
// hook's lock (and os.Stdout), so it is not called again.
var c08ParserHung bool

// c08RealTrace runs the real parser on src under a deadline.
func c08RealTrace(src string) c08PTrace {
	if c08ParserHung {
		return c08PTrace{hung: "not called again: the parser did not return on an earlier input"}
	}
	if why := c08NoProgress(src); why != "" {
		// the scanner loop would not return (reported by the token-stream phase)
		return c08PTrace{hung: "scanner: " + why}
	}
	ch := make(chan c08PTrace, 1)
	go func() {
		var o c08PTrace
		defer func() {
			if p := recover(); p != nil {
				o.panicked = fmt.Sprint(p)
			}
			ch <- o
		}()
		o.result, o.events, o.line, o.col, o.token, o.gotError = syntax.VerifParseTrace([]byte(src), 4)
	}()
	limit := 3*time.Second + time.Duration(len(src))*100*time.Microsecond
	t := time.NewTimer(limit)
	defer t.Stop()
	select {
	case o := <-ch:
		if n := len(o.events); o.panicked == "" && n > 0 && strings.HasPrefix(o.events[n-1], "PANIC ") {
			o.panicked = strings.TrimPrefix(o.events[n-1], "PANIC ")
			o.events = o.events[:n-1]
		}
		return o
	case <-t.C:
		c08ParserHung = true
		return c08PTrace{hung: fmt.Sprintf("mmParse did not return within %v on a %d-byte input", limit, len(src))}
	}
}

// render: the trace in the format of the driver's C08.parse reply.
func (t *c08PTrace) render() string {
	s := strings.Join(t.events, " ")
	if t.gotError {
		s += fmt.Sprintf(" @%d:%d", t.line, t.col)
	}
	return s
}

// last returns the last event ("" if none).
func (t *c08PTrace) last() string {
	if len(t.events) == 0 {
		return ""
	}
	return t.events[len(t.events)-1]
}

// failArg: the second argument of C08.parse: "-", or the index (among the R events) of the reduction
// whose action aborted the parse, with that reduction's production (-1 if there is none).
func (t *c08PTrace) failArg() (arg string, prod int) {
	if t.last() != "=1" || t.gotError {
		return "-", -1
	}
	nr, lastR := 0, ""
	for _, e := range t.events {
		if strings.HasPrefix(e, "R") {
			nr++
			lastR = e
		}
	}
	if nr == 0 {
		return "-", -1
	}
	p, err := strconv.Atoi(strings.SplitN(lastR[1:], "@", 2)[0])
	if err != nil {
		return "-", -1
	}
	return strconv.Itoa(nr - 1), p
}

func (t *c08PTrace) class() string {
	switch {
	case t.gotError:
		return "syntax-error"
	case t.last() == "=0":
		return "ok"
	default:
		return "action-error"
	}
}

// c08TraceMonitor checks the real trace on its own; returns (key suffix, description) per finding.
func c08TraceMonitor(t *c08PTrace, nstates, nprods int, failProds map[int]bool) [][2]string {
	var out [][2]string
	bad := func(key, f string, a ...interface{}) { out = append(out, [2]string{key, fmt.Sprintf(f, a...)}) }
	num := func(s string) (int, bool) {
		v, err := strconv.Atoi(s)
		return v, err == nil
	}
	sawE := false
	lastProd := -1
	lastWasR := false
	for i, e := range t.events {
		if e == "" {
			bad("malformed-event", "event %d is empty", i)
			continue
		}
		final := i == len(t.events)-1
		if (e[0] == '=') != final {
			if final {
				bad("no-result", "the trace does not end with a result event but with %s", e)
			} else {
				bad("result-not-last", "result event %s at index %d is not the last event", e, i)
			}
		}
		lastWasRNow := false
		switch e[0] {
		case 'P':
			if s, ok := num(e[1:]); !ok || s < 0 || s >= nstates {
				bad("state-out-of-range", "event %d: %s pushes a state outside [0, %d)", i, e, nstates)
			}
		case 'R':
			f := strings.SplitN(e[1:], "@", 2)
			p, ok1 := num(f[0])
			s, ok2 := 0, false
			if len(f) == 2 {
				s, ok2 = num(f[1])
			}
			if !ok1 || p <= 0 || p >= nprods {
				bad("production-out-of-range", "event %d: %s reduces by a production outside [1, %d)", i, e, nprods)
			}
			if !ok2 || s < 0 || s >= nstates {
				bad("state-out-of-range", "event %d: %s reduces in a state outside [0, %d)", i, e, nstates)
			}
			lastProd = p
			lastWasRNow = true
		case 'E':
			sawE = true
			f := strings.SplitN(e[1:], "/", 2)
			if s, ok := num(f[0]); !ok || s < 0 || s >= nstates || len(f) != 2 {
				bad("state-out-of-range", "event %d: %s reports an error in a state outside [0, %d)", i, e, nstates)
			}
		case 'L', 'X', 'D':
		case '=':
			switch e {
			case "=0":
				if sawE {
					bad("accept-after-error", "the parser reported a syntax error and returned 0")
				}
			case "=1":
				if !sawE && !(lastWasR && failProds[lastProd]) {
					bad("abort-without-cause", "the parser returned 1 without reporting a syntax error, and the last event before the result is not the reduction of a production whose action can abort (last reduction: %d)", lastProd)
				}
			default:
				bad("result-not-0-or-1", "mmParse returned %s", e[1:])
			}
		default:
			bad("malformed-event", "event %d: %s is none of the parser's debug lines", i, e)
		}
		lastWasR = lastWasRNow
	}
	if len(t.events) == 0 {
		bad("no-result", "the trace is empty")
	}
	if sawE != t.gotError {
		bad("malformed-event", "error flag and E events disagree")
	}
	if sawE && (t.line < 1 || t.col < 1) {
		bad("error-without-position", "syntax error reported at line %d, column %d", t.line, t.col)
	}
	return out
}

// c08TraceDiff: the first differing event of two rendered traces, with its index and up to 3 events
// of context before it.
func c08TraceDiff(impl, model string) (string, string) {
	a, b := strings.Fields(impl), strings.Fields(model)
	k := 0
	for k < len(a) && k < len(b) && a[k] == b[k] {
		k++
	}
	lo := k - 3
	if lo < 0 {
		lo = 0
	}
	ctx := strings.Join(a[lo:k], " ")
	at := func(x []string) string {
		if k < len(x) {
			return x[k]
		}
		return "(no further event)"
	}
	f := func(x []string) string {
		return fmt.Sprintf("event %d: %s (after: %s; %d events in all)", k, at(x), ctx, len(x))
	}
	return f(a), f(b)
}

// ---------- sources ----------

type c08PSrc struct {
	src  string
	kind string
}

// c08TokSpans: [start, end) of every token the scanner loop hands to the parser (nextToken walk).
func c08TokSpans(b []byte) [][2]int {
	var out [][2]int
	for p := 0; p < len(b); {
		id, v := syntax.VerifNextToken(b[p:])
		if len(v) == 0 || len(v) > len(b)-p {
			break
		}
		if id != syntax.VerifTokSKIP && id != syntax.VerifTokCOMMENT {
			out = append(out, [2]int{p, p + len(v)})
		}
		p += len(v)
		if id == syntax.VerifTokINVALID {
			break
		}
	}
	return out
}

func c08PInsert(c *Ctx) string {
	switch c.Rng.Intn(4) {
	case 0:
		return c08Keywords[c.Rng.Intn(len(c08Keywords))]
	case 1:
		return []string{"1", "-2", "1.5", "1e39", "\"s\"", "\" \"", "X", "x", "null", "true"}[c.Rng.Intn(10)]
	default:
		return []string{"(", ")", "{", "}", "[", "]", "<", ">", ",", ".", "=", ";", ":", "*", "$", "@include"}[c.Rng.Intn(16)]
	}
}

// c08PMutate: one byte-level or token-level mutation of a source.
func c08PMutate(c *Ctx, src string) (string, string) {
	b := []byte(src)
	if len(b) == 0 {
		return c08PInsert(c), "mutant:insert"
	}
	spans := c08TokSpans(b)
	if len(spans) == 0 || c.Rng.Intn(5) == 0 {
		at := c.Rng.Intn(len(b))
		switch c.Rng.Intn(3) {
		case 0:
			return string(b[:at]) + string(b[at+1:]), "mutant:byte-delete"
		case 1:
			return string(b[:at]) + string([]byte{byte(c.Rng.Intn(256))}) + string(b[at:]), "mutant:byte-insert"
		default:
			return string(b[:at]) + string([]byte{byte(32 + c.Rng.Intn(96))}) + string(b[at+1:]), "mutant:byte-replace"
		}
	}
	i := c.Rng.Intn(len(spans))
	s := spans[i]
	switch c.Rng.Intn(6) {
	case 0:
		return string(b[:s[0]]) + string(b[s[1]:]), "mutant:token-delete"
	case 1:
		return string(b[:s[1]]) + " " + string(b[s[0]:]), "mutant:token-duplicate"
	case 2:
		if i+1 < len(spans) {
			n := spans[i+1]
			return string(b[:s[0]]) + string(b[n[0]:n[1]]) + string(b[s[1]:n[0]]) + string(b[s[0]:s[1]]) + string(b[n[1]:]), "mutant:token-swap"
		}
		return string(b[:s[0]]), "mutant:truncate"
	case 3:
		return string(b[:s[0]]) + c08PInsert(c) + " " + string(b[s[0]:]), "mutant:token-insert"
	case 4:
		return string(b[:s[0]]) + c08PInsert(c) + string(b[s[1]:]), "mutant:token-replace"
	default:
		if c.Rng.Intn(2) == 0 {
			return string(b[:s[0]]), "mutant:truncate"
		}
		return string(b[:s[1]]), "mutant:truncate"
	}
}

// c08PClean: the generators plant no fault (set per generated source: half of them).
var c08PClean bool

// c08PFault: plant a fault here? (one time in oneIn, never in a clean source; always draws)
func c08PFault(c *Ctx, oneIn int) bool {
	return c.Rng.Intn(oneIn) == 0 && !c08PClean
}

func c08POne(c *Ctx, xs []string) string { return xs[c.Rng.Intn(len(xs))] }

// c08PPick: one of good, or (one time in badOneIn) one of bad.
func c08PPick(c *Ctx, badOneIn int, good, bad []string) string {
	if c08PFault(c, badOneIn) && len(bad) > 0 {
		return bad[c.Rng.Intn(len(bad))]
	}
	return good[c.Rng.Intn(len(good))]
}

func c08PSep(c *Ctx) string {
	return []string{" ", " ", "", "\n", "\n    ", " # c\n", "\t"}[c.Rng.Intn(7)]
}

func c08PComma(c *Ctx) string {
	if c08PFault(c, 60) {
		return ""
	}
	return ","
}

// c08PGenExp: a value expression (mostly valid).
func c08PGenExp(c *Ctx, depth int) string {
	k := c.Rng.Intn(12)
	if depth <= 0 && k >= 8 {
		k = c.Rng.Intn(8)
	}
	switch k {
	case 0:
		if c08PFault(c, 4) {
			return c08GenNum(c)
		}
		return c08POne(c, []string{"0", "7", "-3", "2.5", "-1.5e3", "1e5", "1E-2", "9223372036854775807", "1.7976931348623157e308", "1e39"})
	case 1:
		if c08PFault(c, 4) {
			return c08GenStr(c)
		}
		return c08POne(c, []string{"\"a\"", "\"\"", "\" \"", "\"a b\"", "\"x\\ty\"", "\"\\\"q\\\"\"", "\"é\""})
	case 2:
		return []string{"true", "false", "null"}[c.Rng.Intn(3)]
	case 3:
		return strconv.Itoa(c.Rng.Intn(2000) - 1000)
	case 4:
		return c08PPick(c, 8, []string{"self.x", "self.p.a", "self", "S", "S.y", "S.q.a.b", "T.y", "self.ys"}, []string{"S.", "self.x.", ".x", "self.", "S..y", "T.default", "self.default"})
	case 5:
		return []string{"1.5", "-2e3", "1e39", "0.0", "\"a\"", "\"\"", "\" \"", "[]", "{}", "[[]]"}[c.Rng.Intn(10)]
	case 6:
		if c08PFault(c, 3) {
			return c08GenIdent(c)
		}
		return c08POne(c, []string{"S", "T.y", "self.x"})
	case 7:
		if c.Rng.Intn(3) == 0 {
			return "split " + c08PGenExp(c, depth-1)
		}
		return strconv.Itoa(c.Rng.Intn(100))
	case 8, 9:
		n := c.Rng.Intn(4)
		var sb strings.Builder
		sb.WriteString("[")
		for i := 0; i < n; i++ {
			sb.WriteString(c08PSep(c) + c08PGenExp(c, depth-1))
			if i < n-1 || c.Rng.Intn(2) == 0 {
				sb.WriteString(c08PComma(c))
			}
		}
		return sb.String() + c08PSep(c) + "]"
	case 10:
		n := c.Rng.Intn(4)
		var sb strings.Builder
		sb.WriteString("{")
		for i := 0; i < n; i++ {
			sb.WriteString(c08PSep(c) + c08PPick(c, 10, []string{"\"k\"", "\"a b\"", "\"\""}, []string{"k", "1", "null"}) + ":" + c08PSep(c) + c08PGenExp(c, depth-1))
			if i < n-1 || c.Rng.Intn(2) == 0 {
				sb.WriteString(c08PComma(c))
			}
		}
		return sb.String() + c08PSep(c) + "}"
	default:
		n := 1 + c.Rng.Intn(3)
		var sb strings.Builder
		sb.WriteString("{")
		for i := 0; i < n; i++ {
			sb.WriteString(c08PSep(c) + c08PPick(c, 10, []string{"a", "b", "x_1", "B2"}, []string{"in", "default", "1", "\"a\""}) + ":" + c08PSep(c) + c08PGenExp(c, depth-1))
			if i < n-1 || c.Rng.Intn(2) == 0 {
				sb.WriteString(c08PComma(c))
			}
		}
		return sb.String() + c08PSep(c) + "}"
	}
}

func c08PType(c *Ctx) string {
	t := c08PPick(c, 25, []string{"int", "string", "float", "path", "bool", "map", "map<int>", "map<string[]>", "map<PAIR>", "PAIR", "txt", "json.gz", "file"},
		[]string{"map<map>", "map<int", "map<>", "int>", "1", "in", "a.b.", "map<map<int>>"})
	switch c.Rng.Intn(8) {
	case 0:
		t += "[]"
	case 1:
		t += "[][]"
	case 2:
		t += strings.Repeat("[]", 1+c.Rng.Intn(5))
	case 3:
		if c08PFault(c, 12) {
			t += []string{"[", "]", "[[]]", "[1]"}[c.Rng.Intn(4)]
		}
	}
	return t
}

func c08PName(c *Ctx) string {
	return c08PPick(c, 40, []string{"x", "y", "ys", "p", "q", "sum", "log", "chunk", "part", "in_x", "a1", "_b"}, []string{"default", "in", "1", "self", "a.b", "\"x\""})
}

// c08PParam: one parameter / struct field line; dir is "in ", "out" or "" (struct field).
func c08PParam(c *Ctx, dir, ind string, i int) string {
	var sb strings.Builder
	sb.WriteString(ind)
	if dir != "" {
		sb.WriteString(dir + " ")
	}
	sb.WriteString(c08PType(c))
	if dir != "out" || c.Rng.Intn(6) != 0 {
		sb.WriteString(" " + c08PName(c))
	}
	if c.Rng.Intn(3) == 0 {
		sb.WriteString(" \"help " + strconv.Itoa(i) + "\"")
		if (dir != "in " && c.Rng.Intn(2) == 0) || c08PFault(c, 30) {
			sb.WriteString(" \"out.name\"")
		}
	}
	return sb.String() + c08PComma(c) + "\n"
}

// c08PParams: in parameters, then out parameters (rarely out of order); kind "struct" = 1-3 fields.
func c08PParams(c *Ctx, kind, ind string) string {
	var ls []string
	if kind == "struct" {
		n := 1 + c.Rng.Intn(3)
		if c08PFault(c, 25) {
			n = 0
		}
		for i := 0; i < n; i++ {
			ls = append(ls, c08PParam(c, "", ind, i))
		}
		return strings.Join(ls, "")
	}
	for i, n := 0, c.Rng.Intn(3); i < n; i++ {
		ls = append(ls, c08PParam(c, "in ", ind, i))
	}
	for i, n := 0, c.Rng.Intn(3); i < n; i++ {
		ls = append(ls, c08PParam(c, "out", ind, i))
	}
	if len(ls) > 1 && c08PFault(c, 25) {
		ls[0], ls[len(ls)-1] = ls[len(ls)-1], ls[0]
	}
	return strings.Join(ls, "")
}

func c08PResources(c *Ctx) string {
	var sb strings.Builder
	sb.WriteString(" using (\n")
	for i, n := 0, c.Rng.Intn(4); i < n; i++ {
		num := c08PPick(c, 15, []string{"1", "2", "0", "-1", "1.5", "4.0", "1e2", "1e39", "-1e39", "3.5e38", "1e-50", "9223372036854775807"}, []string{"x", "\"1\"", "true", "1e", "--1"})
		switch c.Rng.Intn(6) {
		case 0:
			sb.WriteString("    mem_gb = " + num)
		case 1:
			sb.WriteString("    vmem_gb = " + num)
		case 2:
			sb.WriteString("    threads = " + num)
		case 3:
			sb.WriteString("    special = " + c08PPick(c, 10, []string{"\"highmem\"", "\"\""}, []string{"x", "1"}))
		case 4:
			sb.WriteString("    volatile = " + c08PPick(c, 10, []string{"strict", "false"}, []string{"true", "x", "1"}))
		default:
			sb.WriteString("    memgb = " + num)
		}
		sb.WriteString(c08PComma(c) + "\n")
	}
	sb.WriteString(")")
	return sb.String()
}

// c08PBinds: bind statements; a wildcard bind comes last (rarely not); in a map call there is
// (nearly always) a split bind.
func c08PBinds(c *Ctx, ind string, mapCall bool) string {
	var ls []string
	for i, n := 0, c.Rng.Intn(4); i < n; i++ {
		e := c08PGenExp(c, 2)
		if mapCall && c.Rng.Intn(3) == 0 {
			e = "split " + e
		}
		ls = append(ls, ind+c08PName(c)+" = "+e+c08PComma(c)+"\n")
	}
	if mapCall && !c08PFault(c, 10) {
		ls = append(ls, ind+c08PName(c)+" = split "+c08PPick(c, 6, []string{"self.xs", "[1, 2]", "S.ys", "{\"a\": 1}"}, []string{"1", "split self.x", ""})+c08PComma(c)+"\n")
		if len(ls) > 1 && c.Rng.Intn(2) == 0 {
			k := c.Rng.Intn(len(ls))
			ls[k], ls[len(ls)-1] = ls[len(ls)-1], ls[k]
		}
	}
	if c.Rng.Intn(6) == 0 {
		w := ind + "* = " + c08PPick(c, 10, []string{"self", "S", "S.q"}, []string{"1", "[self]", "*"}) + c08PComma(c) + "\n"
		ls = append(ls, w)
		if len(ls) > 1 && c08PFault(c, 12) {
			ls[0], ls[len(ls)-1] = ls[len(ls)-1], ls[0]
		}
	}
	return strings.Join(ls, "")
}

func c08PCall(c *Ctx, ind string) string {
	var sb strings.Builder
	sb.WriteString(ind)
	mapCall := c.Rng.Intn(5) == 0
	if mapCall {
		sb.WriteString("map ")
	}
	sb.WriteString("call ")
	for _, m := range []string{"local", "preflight", "volatile"} {
		if c.Rng.Intn(8) == 0 {
			sb.WriteString(m + " ")
		}
	}
	nm := []string{"S", "T", "P", "ADD", "_X"}[c.Rng.Intn(5)]
	sb.WriteString(nm)
	if c.Rng.Intn(8) == 0 {
		sb.WriteString(" as " + nm + "2")
	}
	sb.WriteString("(\n" + c08PBinds(c, ind+"    ", mapCall) + ind + ")")
	if c.Rng.Intn(4) == 0 {
		sb.WriteString(" using (\n")
		for i, n := 0, c.Rng.Intn(3); i < n; i++ {
			sb.WriteString(ind + "    " + c08PPick(c, 10, []string{"local = true", "preflight = false", "volatile = true", "disabled = self.x", "disabled = S.y"}, []string{"local = 1", "volatile = strict", "disabled = 1", "threads = 1", "local"}) + c08PComma(c) + "\n")
		}
		sb.WriteString(ind + ")")
	}
	return sb.String() + "\n"
}

// c08PGenProgram: a small program (mostly valid).
func c08PGenProgram(c *Ctx) string {
	var sb strings.Builder
	for c.Rng.Intn(5) == 0 {
		sb.WriteString("@include " + c08PPick(c, 10, []string{"\"a.mro\"", "\"\"", "\"d/b.mro\""}, []string{"x", "1", ""}) + "\n")
	}
	if c.Rng.Intn(4) == 0 {
		sb.WriteString("# a comment\n\n")
	}
	for i, n := 0, 1+c.Rng.Intn(3); i < n; i++ {
		switch c.Rng.Intn(7) {
		case 0:
			sb.WriteString("filetype " + c08PPick(c, 10, []string{"txt", "json.gz", "a.b.c"}, []string{"1", "int", "a.", ""}) + ";\n")
		case 1:
			sb.WriteString("struct PAIR(\n" + c08PParams(c, "struct", "    ") + ")\n")
		case 2, 3, 4:
			sb.WriteString("stage " + []string{"S", "T", "ADD", "_X", "s1"}[c.Rng.Intn(5)] + "(\n")
			sb.WriteString(c08PParams(c, "params", "    "))
			src := c08PPick(c, 12, []string{"\"stages/s\"", "\"stages/s -v --flag\"", "\"s\"", "\" s \""}, []string{"\" \"", "\"\"", "\"\\t\"", "\"\\n \"", "s", "1"})
			sb.WriteString("    src " + c08PPick(c, 20, []string{"py", "exec", "comp"}, []string{"go", "\"py\"", ""}) + " " + src + c08PComma(c) + "\n)")
			if c.Rng.Intn(4) == 0 {
				sb.WriteString(" split ")
				if c.Rng.Intn(2) == 0 {
					sb.WriteString("using ")
				}
				sb.WriteString("(\n" + c08PParams(c, "params", "    ") + ")")
			}
			if c.Rng.Intn(3) == 0 {
				sb.WriteString(c08PResources(c))
			}
			if c.Rng.Intn(5) == 0 {
				sb.WriteString(" retain (\n    " + c08PName(c) + c08PComma(c) + "\n)")
			}
			sb.WriteString("\n\n")
		default:
			sb.WriteString("pipeline P(\n" + c08PParams(c, "params", "    ") + ")\n{\n")
			for j, m := 0, c.Rng.Intn(3); j < m; j++ {
				sb.WriteString(c08PCall(c, "    "))
			}
			if !c08PFault(c, 8) {
				sb.WriteString("    return (\n" + c08PBinds(c, "        ", false) + "    )\n")
			}
			if c.Rng.Intn(5) == 0 {
				sb.WriteString("    retain (\n        S.y" + c08PComma(c) + "\n    )\n")
			}
			sb.WriteString("}\n\n")
		}
	}
	if c.Rng.Intn(3) == 0 {
		sb.WriteString(c08PCall(c, ""))
	}
	return sb.String()
}

// c08PFixed: sources that must occur in every run: the three aborting actions, the ends of input, an
// INVALID token in several places, the empty source.
func c08PFixed() []c08PSrc {
	out := []c08PSrc{}
	for _, s := range []string{
		"", " ", "# only a comment", "1", "1 2", "$", "1 $", "[1,", "[1, $]", "stage", "stage S(", "{a: 1", "\"unterminated",
		"stage S(in int x, src py \" \",)", "stage S(in int x, src py \"\",)\nstage T(src py \"t\",)",
		"stage S(in int x, src py \"s\",) using (mem_gb = 1e39,)", "stage S(src py \"s\",) using (threads = -1e39, mem_gb = 1,)",
		"stage S(src py \"s\",) using (vmem_gb = 3.5e38,)", "stage S(src py \"s\",) using (mem_gb = 9223372036854775807,)",
		"stage S(in int[][] x, out map<int[]>[] y, src py \"s\",)", "call S(x = 1,)", "@include \"a.mro\"\n", "@include \"a.mro\"\ncall S()",
		"filetype a;filetype b.c;", "pipeline P(){return()}", "pipeline P(){call S() return()}", "pipeline P(in int x,){call S(x=self.x,) using(local=true,) return(* = S,) retain(S.y,)}",
		"self.x", "{\"a\": [1, 2.5, null], b: {}}", "split [1]", "stage S(src py \"s\",) stage", "stage S(src py \"s\",) 1", "call S() call T()",
	} {
		out = append(out, c08PSrc{s, "fixed"})
	}
	// production 38 (arr_list) aborts at the 32768th dimension
	out = append(out, c08PSrc{"stage S(in int" + strings.Repeat("[]", 1<<15) + " x, src py \"s\",)", "fixed:arr-list-overflow"})
	return out
}

func c08GenParseSources(c *Ctx) []c08PSrc {
	scale := 1
	out := c08PFixed()
	if c.Thorough {
		scale = 20
		// the largest dimension count that is accepted (65 kB; quick tier: the overflowing one only)
		out = append(out, c08PSrc{"stage S(in int" + strings.Repeat("[]", 1<<15-1) + " x, src py \"s\",)", "fixed:arr-list-max"})
	}
	prog, exps := c08LoadSeeds(c)
	var seeds []string
	for _, sd := range prog {
		seeds = append(seeds, string(sd.src))
		out = append(out, c08PSrc{string(sd.src), "file"})
	}
	for _, sd := range exps {
		seeds = append(seeds, string(sd.src))
		out = append(out, c08PSrc{string(sd.src), "exp-seed"})
	}
	// 1-2 mutations of the seeds (the small ones more often: a mutant of a big file mostly repeats
	// the trace of the file)
	for i := 0; i < 330*scale && len(seeds) > 0; i++ {
		s := seeds[c.Rng.Intn(len(seeds))]
		if len(s) > 3000 && c.Rng.Intn(3) != 0 {
			s = seeds[c.Rng.Intn(len(seeds))]
		}
		m, kind := c08PMutate(c, s)
		if c.Rng.Intn(3) == 0 {
			m, _ = c08PMutate(c, m)
			kind = "mutant:two"
		}
		out = append(out, c08PSrc{m, kind})
	}
	for i := 0; i < 260*scale; i++ {
		c08PClean = c.Rng.Intn(2) == 0
		out = append(out, c08PSrc{c08PSep(c) + c08PGenExp(c, 3) + c08PSep(c), "gen-exp"})
	}
	for i := 0; i < 300*scale; i++ {
		c08PClean = c.Rng.Intn(2) == 0
		p := c08PGenProgram(c)
		kind := "gen-program"
		if c.Rng.Intn(4) == 0 {
			p, _ = c08PMutate(c, p)
			kind = "gen-program-mutant"
		}
		out = append(out, c08PSrc{p, kind})
	}
	c08PClean = false
	// near-miss garbage: token soup
	for i := 0; i < 220*scale; i++ {
		var sb strings.Builder
		for j, n := 0, 1+c.Rng.Intn(10); j < n; j++ {
			switch c.Rng.Intn(6) {
			case 0:
				sb.WriteString(c08StreamPieces[c.Rng.Intn(len(c08StreamPieces))])
			case 1:
				sb.WriteString(c08PGenExp(c, 1))
			default:
				sb.WriteString(c08PInsert(c))
			}
			sb.WriteString(c08PSep(c))
		}
		out = append(out, c08PSrc{sb.String(), "garbage"})
	}
	return out
}

// ---------- the phase ----------

func c08ParserTrace(c *Ctx) {
	r := c.Res
	t0 := time.Now()
	last, private, flag, nstates, nprods := syntax.VerifParserConsts()
	failProds := map[int]bool{}
	fp := c.Drv.Ask("C08.failprods")
	for _, f := range strings.Fields(fp) {
		if v, err := strconv.Atoi(f); err == nil {
			failProds[v] = true
		}
	}
	if fp == "bad-op" {
		r.note("parser trace: the driver has no op C08.failprods")
	}
	// the regenerated constants against the compiled parser (driver op C08.lrconsts, when there)
	if lc := c.Drv.Ask("C08.lrconsts"); lc != "bad-op" {
		want := fmt.Sprintf("%d %d %d %d %d", last, private, flag, nstates, nprods)
		r.count("lrconsts", true)
		if lc != want {
			r.violate(Violation{Kind: "correspondence", Key: "C08:parser-consts-mismatch",
				What:  "mmLast, mmPrivate, mmFlag, the number of states (len mmPact) and of productions (len mmR1) of the compiled parser differ from the regenerated facts",
				Input: "mmLast mmPrivate mmFlag nstates nprods", Impl: want, Model: lc, Broken: "facts Gen.mmLast / mmPrivate / mmFlag / mmPact / mmR1"})
		}
	}
	modelMissing := c.Drv.Ask("C08.parse", hx("1"), "-") == "bad-op"

	srcs := c08GenParseSources(c)
	rendered := make([]string, len(srcs)) // the real traces, rendered (the events are not kept)
	var reqs [][]string
	var reqIdx []int
	nev, nbytes := 0, 0
	reported := map[string]bool{}
	for i, s := range srcs {
		tr := c08RealTrace(s.src)
		t := &tr
		r.count("ptrace:"+s.src, len(t.events) > 3)
		r.hist("ptrace-src:" + s.kind)
		nbytes += len(s.src)
		nev += len(t.events)
		if t.hung != "" {
			if strings.HasPrefix(t.hung, "scanner: ") {
				r.hist("parse-trace:scanner-would-hang")
				continue
			}
			if !reported["hang"] {
				reported["hang"] = true
				r.violate(Violation{Kind: "property", Key: "C08:hang:parser-driver",
					What:  "the generated parser did not return: " + t.hung,
					Input: strconv.Quote(s.src), Impl: t.hung, Expect: "mmParse returns 0 or 1", Broken: "Props.C08.lr_driver_total"})
			}
			continue
		}
		if t.panicked != "" {
			key := "panic:" + c08Norm(t.panicked)
			if !reported[key] {
				reported[key] = true
				small := c08ShrinkBytes(s.src, func(x string) bool { return c08RealTrace(x).panicked != "" }, 200)
				st := c08RealTrace(small)
				if st.panicked == "" {
					small, st = s.src, *t
				}
				r.violate(Violation{Kind: "property", Key: "C08:panic:parser-driver",
					What:  "the generated parser (or a semantic action it ran) panicked: " + st.panicked,
					Input: strconv.Quote(small), Impl: "panic: " + st.panicked + " after " + strings.Join(st.events[c08MaxInt(0, len(st.events)-4):], " "),
					Expect: "mmParse returns 0 or 1", Broken: "Props.C08.lr_driver_total"})
			}
			r.hist("parse-trace:panic")
			continue
		}
		r.hist("parse-trace:" + t.class())
		r.hist("parse-trace-by-source:" + strings.SplitN(s.kind, ":", 2)[0] + ":" + t.class())
		if _, p := t.failArg(); p >= 0 {
			r.hist("parse-trace:action-error:production-" + strconv.Itoa(p))
		}
		// monitors on the real trace
		for _, f := range c08TraceMonitor(t, nstates, nprods, failProds) {
			key := "C08:parser-driver-" + f[0]
			if reported[key] {
				continue
			}
			reported[key] = true
			small := c08ShrinkBytes(s.src, func(x string) bool {
				tx := c08RealTrace(x)
				if tx.hung != "" || tx.panicked != "" {
					return false
				}
				for _, g := range c08TraceMonitor(&tx, nstates, nprods, failProds) {
					if g[0] == f[0] {
						return true
					}
				}
				return false
			}, 200)
			st := c08RealTrace(small)
			what := f[1]
			for _, g := range c08TraceMonitor(&st, nstates, nprods, failProds) {
				if g[0] == f[0] {
					what = g[1]
				}
			}
			tail := st.events
			if len(tail) > 12 {
				tail = tail[len(tail)-12:]
			}
			r.violate(Violation{Kind: "property", Key: key,
				What:  "the debug trace of the real parser driver breaks an invariant of the LR loop: " + what,
				Input: strconv.Quote(small), Impl: "… " + strings.Join(tail, " "),
				Expect: "states < " + strconv.Itoa(nstates) + ", productions < " + strconv.Itoa(nprods) + "; the result is 0, or 1 after a located syntax error or an aborting action (productions " + fp + ")",
				Broken: "Props.C08.lr_driver_total"})
		}
		if i%211 == 5 {
			ev := t.render()
			if len(ev) > 600 {
				ev = ev[:600] + " …"
			}
			r.sample(map[string]string{"source": strconv.Quote(s.src), "go_parser_trace": ev})
		}
		if modelMissing {
			r.hist("parse-trace:model-missing")
			continue
		}
		arg, _ := t.failArg()
		rendered[i] = t.render()
		reqs = append(reqs, []string{"C08.parse", hx(s.src), arg})
		reqIdx = append(reqIdx, i)
	}
	tReal := time.Since(t0)
	ncmp, nmis := 0, 0
	if len(reqs) > 0 {
		reps := c.Drv.AskBatch(reqs)
		for j, rep := range reps {
			i := reqIdx[j]
			if rep == "bad-op" {
				r.hist("parse-trace:model-missing")
				continue
			}
			ncmp++
			g := rendered[i]
			if g == rep {
				r.hist("parse-trace:model-agrees")
				continue
			}
			r.hist("parse-trace:model-differs")
			if nmis++; nmis > 5 {
				continue // enough shrunk reports; the histogram has the total
			}
			small := c08ShrinkBytes(srcs[i].src, func(x string) bool {
				tx := c08RealTrace(x)
				if tx.hung != "" || tx.panicked != "" {
					return false
				}
				a, _ := tx.failArg()
				m := c.Drv.Ask("C08.parse", hx(x), a)
				return m != "bad-op" && m != tx.render()
			}, 200)
			if reported["mismatch:"+small] {
				continue
			}
			reported["mismatch:"+small] = true
			st := c08RealTrace(small)
			a, _ := st.failArg()
			ms := c.Drv.Ask("C08.parse", hx(small), a)
			gs := st.render()
			if st.hung != "" || st.panicked != "" || ms == gs || ms == "bad-op" {
				small, gs, ms, a = srcs[i].src, g, rep, reqs[j][2]
			}
			impl, model := c08TraceDiff(gs, ms)
			r.violate(Violation{Kind: "correspondence", Key: "C08:parser-trace-mismatch",
				What:  "the trace of the real goyacc driver (pushes, tokens read, reductions, error report and recovery, result, error position) differs from the Lean model of the LR loop (failing action: " + a + ")",
				Input: strconv.Quote(small), Impl: impl, Model: model,
				Broken: "correspondence C08.parse (Martian.LexerLR.run; Props.C08.lr_driver_total)"})
		}
	}
	r.note("parser traces: %d sources (%d bytes, %d trace events of the real driver; %d states, %d productions, aborting productions [%s]); real parser %.1fs; %d traces compared with the Lean LR model%s; %.1fs in all",
		len(srcs), nbytes, nev, nstates, nprods, fp, tReal.Seconds(), ncmp,
		map[bool]string{true: " (the driver has no op C08.parse yet: nothing compared)", false: ""}[modelMissing], time.Since(t0).Seconds())
}

func c08MaxInt(a, b int) int {
	if a > b {
		return a
	}
	return b
}
