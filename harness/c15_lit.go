package main

// C15: literal-shrinking / literal-growing edit classes.
//
// A collection literal bound to a parameter (array, typed map, nested in each
// other, or below `split`) loses or gains entries — down to / up from the EMPTY
// literal — anywhere in the transitive closure of the top-level call.  Every
// such edit changes an argument value (ground truth: semantic), in both
// directions (EquivalentCall is evaluated original~edited and edited~original).
//
// The pairs are built here, not from the common catalogue: the generator's
// programs bind most collection parameters to references and have no nested
// collection types, so the harness first re-types one input parameter of a
// reachable stage to a (possibly nested) collection type and binds it, in
// every call of that stage, to a generated literal tree; that program is the
// ORIGINAL of the pair, the edited program differs from it in one node of one
// literal.

import (
	"fmt"
	"math"
	"math/rand"
	"strconv"
	"strings"
)

type c15Lit struct {
	kind  byte // 'a' array, 'm' typed map, 's' scalar
	elems []*c15Lit
	keys  []string
	text  string
}

func (n *c15Lit) String() string {
	switch n.kind {
	case 'a':
		xs := make([]string, len(n.elems))
		for i, e := range n.elems {
			xs[i] = e.String()
		}
		return "[" + strings.Join(xs, ", ") + "]"
	case 'm':
		xs := make([]string, len(n.elems))
		for i, e := range n.elems {
			xs[i] = fmt.Sprintf("%q: %s", n.keys[i], e.String())
		}
		return "{" + strings.Join(xs, ", ") + "}"
	}
	return n.text
}

func (n *c15Lit) clone() *c15Lit {
	m := &c15Lit{kind: n.kind, text: n.text, keys: append([]string(nil), n.keys...)}
	for _, e := range n.elems {
		m.elems = append(m.elems, e.clone())
	}
	return m
}

// collections returns all collection nodes (pre-order) with their element types.
func (n *c15Lit) collections(t string, out *[]c15LitAt) {
	if n.kind == 's' {
		return
	}
	et := c15ElemType(t)
	*out = append(*out, c15LitAt{n, et})
	for _, e := range n.elems {
		e.collections(et, out)
	}
}

type c15LitAt struct {
	node     *c15Lit
	elemType string
}

func c15ElemType(t string) string {
	if strings.HasSuffix(t, "[]") {
		return strings.TrimSuffix(t, "[]")
	}
	if strings.HasPrefix(t, "map<") && strings.HasSuffix(t, ">") {
		return strings.TrimSuffix(strings.TrimPrefix(t, "map<"), ">")
	}
	return ""
}

var c15LitKeyN = 0

// c15GenLit builds a literal tree of type t; collections get min..3 entries.
func c15GenLit(rng *rand.Rand, t string, min int) *c15Lit {
	switch {
	case strings.HasSuffix(t, "[]"):
		n := &c15Lit{kind: 'a'}
		k := min + rng.Intn(4-min)
		for i := 0; i < k; i++ {
			n.elems = append(n.elems, c15GenLit(rng, c15ElemType(t), rng.Intn(2)))
		}
		return n
	case strings.HasPrefix(t, "map<"):
		n := &c15Lit{kind: 'm'}
		k := min + rng.Intn(4-min)
		for i := 0; i < k; i++ {
			c15LitKeyN++
			n.keys = append(n.keys, fmt.Sprintf("k%d", c15LitKeyN))
			n.elems = append(n.elems, c15GenLit(rng, c15ElemType(t), rng.Intn(2)))
		}
		return n
	case t == "string":
		return &c15Lit{kind: 's', text: fmt.Sprintf("%q", fmt.Sprintf("s%d", rng.Intn(90)))}
	case t == "float":
		return &c15Lit{kind: 's', text: []string{"0.5", "1.25", "-3.75", "17.5"}[rng.Intn(4)]}
	case t == "bool":
		return &c15Lit{kind: 's', text: []string{"true", "false"}[rng.Intn(2)]}
	}
	return &c15Lit{kind: 's', text: fmt.Sprint(rng.Intn(900))}
}

// the collection types a parameter is re-typed to (one and two levels)
var c15LitTypes = []string{"int[]", "string[]", "map<int>", "map<string>", "int[][]", "map<int[]>", "map<int>[]", "string[][]", "map<float[]>"}

// c15LiteralPairs builds the original/edited program pairs of the literal classes for program p.
func c15LiteralPairs(c *Ctx, p *gProg, newDir func() string) []*c15Pair {
	r := c.Res
	rng := c.Rng
	var out []*c15Pair
	classes := []string{"literal-emptied", "literal-entry-removed", "literal-filled", "literal-entry-added", "literal-nested-emptied"}
	for _, class := range classes {
		for try := 0; try < 6; try++ {
			base, call, bind, t, tree, ok := c15LiteralBase(rng, p)
			if !ok {
				r.hist("edit-not-applicable:" + class)
				break
			}
			var nodes []c15LitAt
			tree.collections(t, &nodes)
			edited := tree.clone()
			var enodes []c15LitAt
			edited.collections(t, &enodes)
			desc := ""
			swap := false
			switch class {
			case "literal-emptied", "literal-filled":
				// the whole value: non-empty <-> empty
				if len(tree.elems) == 0 {
					continue
				}
				edited.elems, edited.keys = nil, nil
				swap = class == "literal-filled"
			case "literal-nested-emptied":
				// a collection strictly inside the value becomes empty
				var idx []int
				for i := 1; i < len(enodes); i++ {
					if len(enodes[i].node.elems) > 0 {
						idx = append(idx, i)
					}
				}
				if len(idx) == 0 {
					continue
				}
				n := enodes[idx[rng.Intn(len(idx))]].node
				n.elems, n.keys = nil, nil
				swap = rng.Intn(2) == 0
			default:
				// one entry of some collection with at least two entries
				var idx []int
				for i := range enodes {
					if len(enodes[i].node.elems) >= 2 {
						idx = append(idx, i)
					}
				}
				if len(idx) == 0 {
					continue
				}
				n := enodes[idx[rng.Intn(len(idx))]].node
				j := rng.Intn(len(n.elems))
				n.elems = append(append([]*c15Lit(nil), n.elems[:j]...), n.elems[j+1:]...)
				if n.kind == 'm' {
					n.keys = append(append([]string(nil), n.keys[:j]...), n.keys[j+1:]...)
				}
				swap = class == "literal-entry-added"
			}
			from, to := tree.String(), edited.String()
			if swap {
				from, to = to, from
			}
			if from == to {
				continue
			}
			pa, pb := base.clone(), base.clone()
			if !c15SetBind(pa, call, bind, from) || !c15SetBind(pb, call, bind, to) {
				continue
			}
			ca, err := c15Compile(newDir(), pa)
			if err != nil {
				r.hist("edited-program-rejected:" + class + "(original)")
				continue
			}
			cb, err := c15Compile(newDir(), pb)
			if err != nil {
				r.hist("edited-program-rejected:" + class)
				continue
			}
			desc = fmt.Sprintf("argument %s (%s) of call #%d: %s -> %s", bind, t, call, from, to)
			out = append(out, &c15Pair{class, "", true, desc, false, ca, cb, pa, pb})
			break
		}
	}
	// a literal below `split` of a map call that the program already has
	if pr := c15SplitLiteralPair(c, p, newDir); pr != nil {
		out = append(out, pr)
	}
	return out
}

// c15SetBind sets binding `bind` of the k-th reachable call of q.
func c15SetBind(q *gProg, k int, bind, exp string) bool {
	cs := c15ReachableCalls(q)
	if k >= len(cs) {
		return false
	}
	for i := range cs[k].Binds {
		if cs[k].Binds[i].Id == bind {
			cs[k].Binds[i].Exp = exp
			return true
		}
	}
	return false
}

// c15LiteralBase re-types one input of a reachable stage to a collection type and binds it to a
// literal in every call of that stage.  Returns the program, the index of one of those calls among
// the reachable calls, the parameter, its type and the literal tree bound there.
func c15LiteralBase(rng *rand.Rand, p *gProg) (base *gProg, call int, bind, t string, tree *c15Lit, ok bool) {
	return c15LiteralBaseOf(rng, p, c15LitTypes, func(rng *rand.Rand, t string) *c15Lit { return c15GenLit(rng, t, 1) })
}

// c15LiteralBaseOf: the parameter is re-typed to one of `types` and bound to gen(type).
func c15LiteralBaseOf(rng *rand.Rand, p *gProg, types []string, gen func(*rand.Rand, string) *c15Lit) (base *gProg, call int, bind, t string, tree *c15Lit, ok bool) {
	base = p.clone()
	stages := c15Stages(base, true)
	if len(stages) == 0 {
		return nil, 0, "", "", nil, false
	}
	rng.Shuffle(len(stages), func(i, j int) { stages[i], stages[j] = stages[j], stages[i] })
	for _, st := range stages {
		if len(st.Ins) == 0 {
			continue
		}
		pi := rng.Intn(len(st.Ins))
		name := st.Ins[pi].Name
		cs := c15ReachableCalls(base)
		usable, any := true, false
		for _, cl := range cs {
			if cl.Callee != st.Name {
				continue
			}
			found := false
			for _, b := range cl.Binds {
				if b.Id == name {
					found = true
					if strings.HasPrefix(b.Exp, "split ") {
						usable = false
					}
				}
			}
			if !found {
				usable = false // supplied by a wildcard
			}
			any = true
		}
		if !usable || !any {
			continue
		}
		t = types[rng.Intn(len(types))]
		st.Ins[pi].Type = t
		call = -1
		for k, cl := range cs {
			if cl.Callee != st.Name {
				continue
			}
			lit := gen(rng, t)
			for i := range cl.Binds {
				if cl.Binds[i].Id == name {
					cl.Binds[i].Exp = lit.String()
				}
			}
			if call < 0 || rng.Intn(2) == 0 {
				call, tree = k, lit
			}
		}
		return base, call, name, t, tree, true
	}
	return nil, 0, "", "", nil, false
}

// c15SplitTop splits the text of an array literal `[a, b, …]` of scalars at its top-level commas.
func c15SplitTop(s string) ([]string, bool) {
	s = strings.TrimSpace(s)
	if len(s) < 2 || s[0] != '[' || s[len(s)-1] != ']' {
		return nil, false
	}
	body := s[1 : len(s)-1]
	var parts []string
	depth, inStr, start := 0, false, 0
	for i := 0; i < len(body); i++ {
		ch := body[i]
		switch {
		case inStr:
			if ch == '\\' {
				i++
			} else if ch == '"' {
				inStr = false
			}
		case ch == '"':
			inStr = true
		case ch == '[' || ch == '{':
			depth++
		case ch == ']' || ch == '}':
			depth--
		case ch == ',' && depth == 0:
			parts = append(parts, strings.TrimSpace(body[start:i]))
			start = i + 1
		}
	}
	if strings.TrimSpace(body[start:]) != "" {
		parts = append(parts, strings.TrimSpace(body[start:]))
	}
	return parts, true
}

// c15SplitLiteralPair: `x = split [..]` of a reachable map call loses its last entry (or gains a
// copy of its first one): the number of forks changes.
func c15SplitLiteralPair(c *Ctx, p *gProg, newDir func() string) *c15Pair {
	cs := c15ReachableCalls(p)
	for _, k := range c.Rng.Perm(len(cs)) {
		cl := cs[k]
		nsplit := 0
		for _, b := range cl.Binds {
			if strings.HasPrefix(b.Exp, "split ") {
				nsplit++
			}
		}
		if nsplit != 1 {
			continue
		}
		for _, b := range cl.Binds {
			if !strings.HasPrefix(b.Exp, "split [") {
				continue
			}
			parts, ok := c15SplitTop(strings.TrimPrefix(b.Exp, "split "))
			if !ok || len(parts) == 0 {
				continue
			}
			var to string
			if len(parts) >= 2 && c.Rng.Intn(2) == 0 {
				to = "split [" + strings.Join(parts[:len(parts)-1], ", ") + "]"
			} else {
				to = "split [" + strings.Join(append(append([]string(nil), parts...), parts[0]), ", ") + "]"
			}
			q := p.clone()
			if !c15SetBind(q, k, b.Id, to) {
				continue
			}
			ca, err := c15Compile(newDir(), p)
			if err != nil {
				return nil
			}
			cb, err := c15Compile(newDir(), q)
			if err != nil {
				c.Res.hist("edited-program-rejected:literal-below-split")
				continue
			}
			return &c15Pair{"literal-below-split", "", true,
				fmt.Sprintf("argument %s of map call #%d: %s -> %s", b.Id, k, b.Exp, to), false, ca, cb, p, q}
		}
	}
	c.Res.hist("edit-not-applicable:literal-below-split")
	return nil
}

// ---- numeric literals at the boundaries of the number representation -------------------------
//
// An integer argument of large magnitude (>= 2^53, 1e15, 1e18, 64-bit seeds; both signs) or a float
// is changed to a NEARBY value: integers by +-1 .. +-5000, floats by 16 units in the last place (well
// outside the documented 1e-15 tolerance, F18).  Directly bound, or inside an array / typed map.
// Ground truth: semantic - the stage receives a different number.

var c15NumTypes = []string{"int", "int", "int[]", "map<int>", "int[][]", "float", "float[]"}

var c15BigInts = []int64{9007199254740991, 9007199254740992, 9007199254740993, 1000000000000000, 999999999999999,
	1000000000000000000, 6364136223846793005, 4611686018427387904, 123456789012345678, 72057594037927936, 1 << 40, 7}

func c15GenNum(rng *rand.Rand, t string) *c15Lit {
	switch {
	case strings.HasSuffix(t, "[]"):
		n := &c15Lit{kind: 'a'}
		for i, k := 0, 1+rng.Intn(3); i < k; i++ {
			n.elems = append(n.elems, c15GenNum(rng, c15ElemType(t)))
		}
		return n
	case strings.HasPrefix(t, "map<"):
		n := &c15Lit{kind: 'm'}
		for i, k := 0, 1+rng.Intn(3); i < k; i++ {
			c15LitKeyN++
			n.keys = append(n.keys, fmt.Sprintf("k%d", c15LitKeyN))
			n.elems = append(n.elems, c15GenNum(rng, c15ElemType(t)))
		}
		return n
	case t == "float":
		v := []float64{0.1, 1.5e-7, 6.02e23, 1234.5678, 3.0000000000000004, 1e15 + 0.5}[rng.Intn(6)]
		if rng.Intn(2) == 0 {
			v = -v
		}
		return &c15Lit{kind: 's', text: strconv.FormatFloat(v, 'g', -1, 64)}
	}
	v := c15BigInts[rng.Intn(len(c15BigInts))]
	if rng.Intn(3) == 0 {
		v = -v
	}
	return &c15Lit{kind: 's', text: fmt.Sprint(v)}
}

func (n *c15Lit) scalars(out *[]*c15Lit) {
	if n.kind == 's' {
		*out = append(*out, n)
		return
	}
	for _, e := range n.elems {
		e.scalars(out)
	}
}

// c15Nearby returns a nearby, different number literal.
func c15Nearby(rng *rand.Rand, text string) (string, bool) {
	if v, err := strconv.ParseInt(text, 10, 64); err == nil {
		d := int64([]int{1, 1, 2, 3, 17, 1000, 5000}[rng.Intn(7)])
		if rng.Intn(2) == 0 {
			d = -d
		}
		return fmt.Sprint(v + d), true
	}
	if v, err := strconv.ParseFloat(text, 64); err == nil {
		w := math.Float64frombits(math.Float64bits(v) + 16)
		if rng.Intn(2) == 0 {
			w = math.Float64frombits(math.Float64bits(v) - 16)
		}
		nt := strconv.FormatFloat(w, 'g', -1, 64)
		if !strings.ContainsAny(nt, ".e") {
			nt += ".0"
		}
		return nt, nt != text
	}
	return "", false
}

func c15NumberPairs(c *Ctx, p *gProg, newDir func() string) []*c15Pair {
	r := c.Res
	var out []*c15Pair
	for _, class := range []string{"number-nearby", "number-nearby"} {
		for try := 0; try < 6; try++ {
			base, call, bind, t, tree, ok := c15LiteralBaseOf(c.Rng, p, c15NumTypes, c15GenNum)
			if !ok {
				r.hist("edit-not-applicable:" + class)
				break
			}
			edited := tree.clone()
			var sc []*c15Lit
			edited.scalars(&sc)
			if len(sc) == 0 {
				continue
			}
			n := sc[c.Rng.Intn(len(sc))]
			nt, ok := c15Nearby(c.Rng, n.text)
			if !ok {
				continue
			}
			old := n.text
			n.text = nt
			pa, pb := base.clone(), base.clone()
			if !c15SetBind(pa, call, bind, tree.String()) || !c15SetBind(pb, call, bind, edited.String()) {
				continue
			}
			ca, err := c15Compile(newDir(), pa)
			if err != nil {
				r.hist("edited-program-rejected:" + class + "(original)")
				continue
			}
			cb, err := c15Compile(newDir(), pb)
			if err != nil {
				r.hist("edited-program-rejected:" + class)
				continue
			}
			kind := "int"
			if strings.ContainsAny(old, ".e") {
				kind = "float"
			}
			r.hist("number-nearby:" + kind)
			out = append(out, &c15Pair{class, "", true, fmt.Sprintf("argument %s (%s) of call #%d: %s -> %s", bind, t, call, old, nt), false, ca, cb, pa, pb})
			break
		}
	}
	return out
}
