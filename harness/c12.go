package main

// C12 — resource limits are never exceeded and never stall the pipestance.
//
// Part 1 (this file): the real ResourceSemaphore driven by PRNG op sequences,
// one goroutine per blocking Acquire, deterministic quiescence detection
// through the exported accessors, state compared with the Lean model
// (`Martian.Semaphore.step`) after every op; direct property monitors on the
// real code; a truly concurrent stress run.
// c12_mj.go: MaxJobsSemaphore.  c12_local.go: GetSystemReqs and real local jobs
// through LocalJobManager.Enqueue.

import (
	"fmt"
	"math/rand"
	"os"
	"runtime"
	"strconv"
	"strings"
	"sync"
	"sync/atomic"
	"time"

	"github.com/martian-lang/martian/martian/core"
	"github.com/martian-lang/martian/martian/util"
)

func init() { register("C12", runC12) }

// ---- op sequences ----

type semOp struct {
	Kind string // a r ua us uf
	Id   int
	N    int64
	M    int64 // second argument of uf
}

func (o semOp) String() string {
	switch o.Kind {
	case "a":
		return fmt.Sprintf("a%d:%d", o.Id, o.N)
	case "uf":
		return fmt.Sprintf("uf%d:%d", o.N, o.M)
	default:
		return o.Kind + strconv.FormatInt(o.N, 10)
	}
}

func semOpsString(ops []semOp) string {
	if len(ops) == 0 {
		return "."
	}
	p := make([]string, len(ops))
	for i, o := range ops {
		p[i] = o.String()
	}
	return strings.Join(p, ",")
}

type semExec struct {
	Eff      []semOp  // the calls actually made (client releases resolved against the real holders)
	Obs      []string // per call: cur:res:qlen:events (the model's format)
	Monitors []string // property monitor failures ("name@step: text")
	Stalled  bool
}

type c12Pend struct {
	id int
	n  int64
}

type c12Res struct {
	id  int
	err error
}

// bounded waits; multiplied by the load scale at start-up (runC12)
var c12Wait = 10 * time.Second

// execSem runs the op sequence on a fresh real semaphore.  `client` says the
// sequence follows the client protocol: an `r` op names the id of an earlier
// Acquire and releases what that caller holds (skipped when it holds nothing),
// requests are non-negative and UpdateSize <= max; this enables the bound /
// bookkeeping monitors.  Everything is a function of (size, ops): no timing
// dependence — after launching an Acquire we wait until it has returned or
// QueueLength grew; after Release/Update we wait for exactly as many returns
// as QueueLength dropped.
func execSem(size int64, ops []semOp, client bool) semExec {
	run := newSemRunner(size, client, len(ops))
	for _, op := range ops {
		if !run.do(op) {
			break
		}
	}
	return run.finish()
}

// semRunner: one real semaphore being driven op by op (execSem = a fixed
// sequence; c12_walk.go chooses the next op from the real state).
type semRunner struct {
	size     int64
	client   bool
	sem      *core.ResourceSemaphore
	results  chan c12Res
	pending  []c12Pend
	held     map[int]int64
	heldSum  int64
	panicked bool
	prevRes  int64
	// the availability the last Update* call reported (the size it asked the
	// semaphore to apply, from the documented meaning of the three entry points;
	// = the limit before the first update)
	observed int64
	step     int
	ex       semExec
}

func newSemRunner(size int64, client bool, maxOps int) *semRunner {
	return &semRunner{size: size, client: client, observed: size,
		sem:     core.NewResourceSemaphore(size, core.DefaultResourceFormatter("u")),
		results: make(chan c12Res, maxOps+4), held: map[int]int64{}}
}

func (run *semRunner) fail(name, f string, a ...interface{}) {
	run.ex.Monitors = append(run.ex.Monitors, fmt.Sprintf("%s@%d: %s", name, run.step, fmt.Sprintf(f, a...)))
}

// do makes one call; false = the run is over (stalled).
func (run *semRunner) do(op semOp) bool {
	sem, ex, size, client := run.sem, &run.ex, run.size, run.client
	fail := run.fail
	if ex.Stalled {
		return false
	}
	{
		if client && op.Kind == "r" {
			n, ok := run.held[op.Id]
			if !ok {
				return true // releasing something not held: no call
			}
			op.N = n
			delete(run.held, op.Id)
			run.heldSum -= n
		}
		run.step = len(ex.Eff)
		ex.Eff = append(ex.Eff, op)
		var evs []string   // non-grant events of this call
		var granted []int  // ids whose queued Acquire returned during this call
		var fastGrant bool // the Acquire of this call returned nil immediately
		q0 := sem.QueueLength()
		res0 := sem.Reserved()
		switch op.Kind {
		case "a":
			go func(id int, n int64) {
				err := sem.Acquire(n)
				run.results <- c12Res{id, err}
			}(op.Id, op.N)
			deadline := time.Now().Add(c12Wait)
		wait:
			for {
				select {
				case r := <-run.results:
					if r.id != op.Id {
						fail("spurious-return", "Acquire of id %d returned during Acquire of id %d", r.id, op.Id)
					}
					if r.err != nil {
						evs = append(evs, fmt.Sprintf("x%d=%d", r.id, op.N))
					} else {
						fastGrant = true
						run.held[r.id] = op.N
						run.heldSum += op.N
					}
					break wait
				default:
					if sem.QueueLength() == q0+1 {
						run.pending = append(run.pending, c12Pend{op.Id, op.N})
						break wait
					} else if time.Now().After(deadline) {
						fail("acquire-lost", "Acquire(%d) neither returned nor was queued", op.N)
						ex.Stalled = true
						break wait
					}
					runtime.Gosched()
				}
			}
		case "r":
			func() {
				defer func() {
					if e := recover(); e != nil {
						evs = append(evs, "p")
						run.panicked = true
					}
				}()
				sem.Release(op.N)
			}()
		case "ua":
			evs = append(evs, "v"+strconv.FormatInt(sem.UpdateActual(op.N), 10))
			run.observed = c12Min(op.N+res0, size)
		case "us":
			sem.UpdateSize(op.N)
			run.observed = op.N
		case "uf":
			evs = append(evs, "v"+strconv.FormatInt(sem.UpdateFreeUsed(op.N, op.M), 10))
			// "based on the current free amount and the amount of usage by
			// reserved jobs"; usage above the reservations lowers the cap
			run.observed = c12Min(op.N+op.M, size)
			if adjust := op.M - res0; adjust > 0 {
				// (the code's rule, discontinuous at free+used = limit-adjust)
				if op.N+op.M > size-adjust {
					run.observed = size - adjust
				} else {
					run.observed = op.N + op.M - adjust
				}
			}
		}
		var gev []string
		if op.Kind == "a" {
			if fastGrant {
				gev = append(gev, fmt.Sprintf("g%d=%d", op.Id, op.N))
			}
		} else {
			expect := q0 - sem.QueueLength()
			if expect < 0 {
				fail("queue-grew", "queue grew by %d during %s", -expect, op)
				expect = 0
			}
			deadline := time.NewTimer(c12Wait)
			for k := 0; k < expect; k++ {
				select {
				case r := <-run.results:
					if r.err != nil {
						fail("queued-error", "queued Acquire of id %d returned an error: %v", r.id, r.err)
					}
					granted = append(granted, r.id)
				case <-deadline.C:
					fail("dequeued-not-woken", "%d request(s) left the queue but their Acquire did not return", expect-k)
					ex.Stalled = true
					k = expect
				}
			}
			deadline.Stop()
			// FIFO monitor: the granted set must be the oldest len(granted) waiters
			k := len(granted)
			if k > len(run.pending) {
				k = len(run.pending)
			}
			oldest := map[int]bool{}
			for _, p := range run.pending[:k] {
				oldest[p.id] = true
			}
			for _, g := range granted {
				if !oldest[g] {
					ids := []int{}
					for _, p := range run.pending {
						ids = append(ids, p.id)
					}
					fail("fifo", "granted ids %v are not the oldest waiters (queue, oldest first: %v)", granted, ids)
					break
				}
			}
			// render grants in queue order
			gset := map[int]bool{}
			for _, g := range granted {
				gset[g] = true
			}
			var rest []c12Pend
			for _, p := range run.pending {
				if gset[p.id] {
					gev = append(gev, fmt.Sprintf("g%d=%d", p.id, p.n))
					run.held[p.id] = p.n
					run.heldSum += p.n
					delete(gset, p.id)
				} else {
					rest = append(rest, p)
				}
			}
			run.pending = rest
		}
		// stray returns?
		select {
		case r := <-run.results:
			fail("spurious-return", "Acquire of id %d returned although nothing released it", r.id)
			gev = append(gev, fmt.Sprintf("g%d=?", r.id))
		default:
		}
		cur, res, ql := sem.CurrentSize(), sem.Reserved(), sem.QueueLength()
		ex.Obs = append(ex.Obs, fmt.Sprintf("%d:%d:%d:%s", cur, res, ql, strings.Join(append(gev, evs...), ",")))

		// ---- property monitors on the real code ----
		pending := run.pending
		if ql != len(pending) {
			fail("queue-length", "QueueLength()=%d but %d requests are blocked", ql, len(pending))
		}
		if !run.panicked && len(pending) > 0 && sem.Available() >= pending[0].n {
			fail("lost-wakeup", "oldest waiter (id %d, amount %d) fits Available()=%d but was not granted",
				pending[0].id, pending[0].n, sem.Available())
		} else if !run.panicked && len(pending) > 0 && run.observed-res >= pending[0].n {
			// ... nor may it be left waiting because the semaphore did not take
			// notice of the availability it was last told about
			fail("lost-wakeup", "oldest waiter (id %d, amount %d) fits the availability last reported to the semaphore (size %d - Reserved() %d = %d) but was not granted; CurrentSize()=%d",
				pending[0].id, pending[0].n, run.observed, res, run.observed-res, cur)
		}
		if len(gev) > 0 && res > cur {
			fail("grant-does-not-fit", "granted with Reserved()=%d > CurrentSize()=%d", res, cur)
		}
		// an over-commitment (reserved > current size, left by an availability drop) never grows
		if !(op.Kind == "r" && op.N < 0) && res > run.prevRes && res > cur {
			fail("overcommit-grew", "Reserved() rose from %d to %d above CurrentSize()=%d", run.prevRes, res, cur)
		}
		run.prevRes = res
		if client {
			if res != run.heldSum {
				fail("bookkeeping", "Reserved()=%d but holders hold %d", res, run.heldSum)
			}
			if res > size {
				fail("over-limit", "Reserved()=%d exceeds the limit %d", res, size)
			}
			if cur > size {
				fail("over-limit", "CurrentSize()=%d exceeds the limit %d", cur, size)
			}
		}
	}
	return !ex.Stalled
}

// finish lets every blocked goroutine go and returns the record.
func (run *semRunner) finish() semExec {
	sem := run.sem
	if len(run.pending) > 0 && !run.ex.Stalled {
		func() {
			defer func() { recover() }()
			sem.UpdateSize(1 << 60)
			if sem.QueueLength() > 0 {
				sem.Release(sem.Reserved())
			}
		}()
		t := time.NewTimer(2 * time.Second)
	drain:
		for range run.pending {
			select {
			case <-run.results:
			case <-t.C:
				break drain // (a fired timer never fires again: do not wait for the others)
			}
		}
		t.Stop()
	}
	return run.ex
}

func c12Min(a, b int64) int64 {
	if a < b {
		return a
	}
	return b
}

// genSemOps: client-protocol sequences (client=true) or raw API sequences.
func genSemOps(rng *rand.Rand, size int64, n int, client bool) []semOp {
	var ops []semOp
	type h struct {
		id int
		n  int64
	}
	// a shadow of who may hold what (over-approximation: requested and not yet released)
	var asked []h
	nextId := 1
	amount := func() int64 {
		switch rng.Intn(10) {
		case 0:
			return 0
		case 1:
			return size
		case 2:
			return size + 1 + rng.Int63n(5)
		case 3, 4:
			return 1 + rng.Int63n(3)
		default:
			return rng.Int63n(size + 1)
		}
	}
	for len(ops) < n {
		switch k := rng.Intn(100); {
		case k < 45:
			a := amount()
			if !client && rng.Intn(6) == 0 {
				a = -rng.Int63n(size + 2)
			}
			ops = append(ops, semOp{Kind: "a", Id: nextId, N: a})
			asked = append(asked, h{nextId, a})
			nextId++
		case k < 75:
			if client {
				// releases are resolved at execution time against the real holders: see
				// resolveClientReleases; here a placeholder naming the shadow entry
				if len(asked) == 0 {
					continue
				}
				i := rng.Intn(len(asked))
				ops = append(ops, semOp{Kind: "r", Id: asked[i].id, N: asked[i].n})
				asked = append(asked[:i], asked[i+1:]...)
			} else {
				var a int64
				if len(asked) > 0 && rng.Intn(4) != 0 {
					i := rng.Intn(len(asked))
					a = asked[i].n
					asked = append(asked[:i], asked[i+1:]...)
				} else {
					a = rng.Int63n(size+3) - 1
				}
				ops = append(ops, semOp{Kind: "r", N: a})
			}
		case k < 85:
			ops = append(ops, semOp{Kind: "ua", N: rng.Int63n(size+8) - 3})
		case k < 90:
			v := rng.Int63n(size + 1)
			if rng.Intn(2) == 0 {
				v = size
			}
			if !client && rng.Intn(3) == 0 {
				v = size + rng.Int63n(6)
			}
			ops = append(ops, semOp{Kind: "us", N: v})
		default:
			ops = append(ops, semOp{Kind: "uf", N: rng.Int63n(size+6) - 2, M: rng.Int63n(size + 4)})
		}
	}
	return ops
}

type semCase struct {
	Size   int64
	Ops    []semOp
	Client bool
}

func firstDiff(a, b []string) int {
	for i := 0; i < len(a) || i < len(b); i++ {
		if i >= len(a) || i >= len(b) || a[i] != b[i] {
			return i
		}
	}
	return -1
}

// c12CheckSem executes one case on the real code, asks the model about the
// calls actually made and compares; returns the kind of failure ("" = fine),
// a description, the execution and the model's per-call states.
func c12CheckSem(c *Ctx, sc semCase) (string, string, semExec, []string) {
	ex := execSem(sc.Size, sc.Ops, sc.Client)
	model := c.Drv.Ask("C12.sem", strconv.FormatInt(sc.Size, 10), semOpsString(ex.Eff))
	return c12Judge(ex, model)
}

func c12Judge(ex semExec, model string) (string, string, semExec, []string) {
	var mo []string
	if model != "" {
		mo = strings.Split(model, ";")
	}
	if len(ex.Monitors) > 0 {
		return "property", ex.Monitors[0], ex, mo
	}
	if d := firstDiff(ex.Obs, mo); d >= 0 {
		o, m := "<none>", "<none>"
		if d < len(ex.Obs) {
			o = ex.Obs[d]
		}
		if d < len(mo) {
			m = mo[d]
		}
		return "correspondence", fmt.Sprintf("call %d (%s): real %s, model %s", d, opAt(ex.Eff, d), o, m), ex, mo
	}
	return "", "", ex, mo
}

func opAt(ops []semOp, i int) string {
	if i < len(ops) {
		return ops[i].String()
	}
	return "?"
}

func monitorName(s string) string {
	if i := strings.IndexByte(s, '@'); i > 0 {
		return s[:i]
	}
	return s
}

// shrinkSem removes ops while the same kind of failure (same monitor name /
// a correspondence mismatch) persists.
func shrinkSem(c *Ctx, sc semCase, kind, what string) semCase {
	same := func(t semCase) bool {
		k, w, _, _ := c12CheckSem(c, t)
		if k != kind {
			return false
		}
		if kind == "property" {
			return monitorName(w) == monitorName(what)
		}
		return true
	}
	cur := sc
	for changed := true; changed; {
		changed = false
		for i := 0; i < len(cur.Ops); i++ {
			t := semCase{cur.Size, append(append([]semOp{}, cur.Ops[:i]...), cur.Ops[i+1:]...), cur.Client}
			if same(t) {
				cur = t
				changed = true
				i--
			}
		}
	}
	return cur
}

func reportSem(c *Ctx, sc semCase, kind, what string, reported map[string]int) {
	r := c.Res
	name := "model-mismatch"
	if kind == "property" {
		name = monitorName(what)
	}
	key := "C12:sem:" + name
	if reported[key] >= 3 {
		return
	}
	reported[key]++
	// re-execute once, alone, before believing it
	k2, w2, _, _ := c12CheckSem(c, sc)
	if k2 == "" {
		r.note("a %s disagreement (%s) did not reproduce when the sequence was re-executed alone; not reported: size=%d ops=%s",
			kind, what, sc.Size, semOpsString(sc.Ops))
		return
	}
	kind, what = k2, w2
	min := shrinkSem(c, sc, kind, what)
	k3, w3, ex, mo := c12CheckSem(c, min)
	if k3 == "" {
		min, w3 = sc, what
		_, _, ex, mo = c12CheckSem(c, min)
	}
	v := Violation{Kind: kind, Key: key, What: "ResourceSemaphore: " + w3,
		Input: map[string]interface{}{"size": min.Size, "ops": semOpsString(ex.Eff), "client_protocol": min.Client,
			"encoding": "a<id>:<n> Acquire(n) in its own goroutine, r<n> Release(n), ua<n> UpdateActual, us<n> UpdateSize, uf<free>:<used> UpdateFreeUsed; after each op: CurrentSize:Reserved:QueueLength:events"},
		Impl: ex.Obs, Model: mo}
	if kind == "correspondence" {
		v.Broken = "correspondence C12.sem (Martian.Semaphore.step vs ResourceSemaphore)"
	} else {
		v.Expect = "monitor " + monitorName(w3) + " holds after every call"
	}
	r.violate(v)
}

// ---- truly concurrent stress: safety and completion under real interleavings ----

func c12Stress(c *Ctx, rounds int) {
	r := c.Res
	for round := 0; round < rounds; round++ {
		size := int64(4 + c.Rng.Intn(40))
		if round%3 == 2 {
			size, _ = c12WalkSize(c.Rng) // large limits too (1..10^6)
		}
		workers := 4 + c.Rng.Intn(12)
		iters := 30 + c.Rng.Intn(50)
		sem := core.NewResourceSemaphore(size, core.DefaultResourceFormatter("u"))
		var inuse, maxSeen int64
		var over int64
		var wg sync.WaitGroup
		seeds := make([]int64, workers+1)
		for i := range seeds {
			seeds[i] = c.Rng.Int63()
		}
		var errs int64
		for w := 0; w < workers; w++ {
			wg.Add(1)
			go func(seed int64) {
				defer wg.Done()
				rng := rand.New(rand.NewSource(seed))
				for i := 0; i < iters; i++ {
					n := rng.Int63n(size + 1)
					if err := sem.Acquire(n); err != nil {
						atomic.AddInt64(&errs, 1)
						continue
					}
					v := atomic.AddInt64(&inuse, n)
					if v > size {
						atomic.AddInt64(&over, 1)
					}
					for {
						m := atomic.LoadInt64(&maxSeen)
						if v <= m || atomic.CompareAndSwapInt64(&maxSeen, m, v) {
							break
						}
					}
					if rng.Intn(3) == 0 {
						runtime.Gosched()
					}
					atomic.AddInt64(&inuse, -n)
					sem.Release(n)
				}
			}(seeds[w])
		}
		stop := make(chan struct{})
		updDone := make(chan struct{})
		go func(seed int64) {
			defer close(updDone)
			rng := rand.New(rand.NewSource(seed))
			for {
				select {
				case <-stop:
					return
				default:
				}
				switch rng.Intn(4) {
				case 0:
					sem.UpdateActual(rng.Int63n(size + 4))
				case 1:
					sem.UpdateFreeUsed(rng.Int63n(size+2), rng.Int63n(size+2))
				case 2:
					sem.UpdateSize(rng.Int63n(size + 1))
				default:
					sem.UpdateSize(size) // availability restored
				}
				runtime.Gosched()
			}
		}(seeds[workers])
		done := make(chan struct{})
		go func() { wg.Wait(); close(done) }()
		stalled := false
		select {
		case <-done:
		case <-time.After(c12Scaled(15 * time.Second)):
			stalled = true
		}
		close(stop)
		<-updDone
		if stalled {
			// availability is at the maximum again and again, everybody asks for <= size
			sem.UpdateSize(size)
			select {
			case <-done:
				stalled = false
				r.note("stress round %d needed a final UpdateSize(max) to finish", round)
			case <-time.After(5 * time.Second):
			}
		}
		r.count(fmt.Sprintf("stress|%d|%d|%d|%d", size, workers, iters, seeds[0]), true)
		r.hist("stress_rounds")
		in := map[string]interface{}{"size": size, "workers": workers, "iterations": iters, "seed": c.Seed, "round": round}
		if stalled {
			r.violate(Violation{Kind: "property", Key: "C12:sem:stress-stall",
				What:  fmt.Sprintf("concurrent acquire/release/update run did not finish: QueueLength=%d Reserved=%d CurrentSize=%d", sem.QueueLength(), sem.Reserved(), sem.CurrentSize()),
				Input: in, Expect: "every worker (each request <= limit) finishes"})
			r.note("stress rounds stopped after the first stall")
			break
		}
		if over > 0 {
			r.violate(Violation{Kind: "property", Key: "C12:sem:stress-over-limit",
				What:  fmt.Sprintf("holders held %d > limit %d at some instant (%d times)", maxSeen, size, over),
				Input: in, Expect: "sum of held amounts <= limit"})
		}
		if errs > 0 {
			r.violate(Violation{Kind: "property", Key: "C12:sem:stress-rejected",
				What: fmt.Sprintf("%d Acquire calls with n <= limit returned an error", errs), Input: in})
		}
		if sem.Reserved() != 0 || sem.QueueLength() != 0 {
			r.violate(Violation{Kind: "property", Key: "C12:sem:stress-leftover",
				What:  fmt.Sprintf("after everybody released: Reserved=%d QueueLength=%d", sem.Reserved(), sem.QueueLength()),
				Input: in, Expect: "Reserved=0, QueueLength=0"})
		}
	}
}

// c12Account: histogram / sample / judgement of one executed sequence against
// the model's reply.
func c12Account(c *Ctx, sc semCase, ex semExec, rep string, idx, sampleEvery int, reported map[string]int) {
	r := c.Res
	queued, grants, panics, rejects := false, 0, 0, 0
	for _, o := range ex.Obs {
		f := strings.SplitN(o, ":", 4)
		if len(f) == 4 {
			if f[2] != "0" {
				queued = true
			}
			for _, e := range strings.Split(f[3], ",") {
				switch {
				case strings.HasPrefix(e, "g"):
					grants++
				case strings.HasPrefix(e, "x"):
					rejects++
				case e == "p":
					panics++
				}
			}
		}
	}
	r.count(fmt.Sprintf("sem|%d|%s", sc.Size, semOpsString(ex.Eff)), queued)
	if queued {
		r.hist("sem_sequences_with_queueing")
	}
	if panics > 0 {
		r.hist("sem_sequences_with_bad_release_panic")
	}
	if rejects > 0 {
		r.hist("sem_sequences_with_rejection")
	}
	r.Histogram["sem_ops"] += len(ex.Eff)
	r.Histogram["sem_grants"] += grants
	if idx%sampleEvery == 0 {
		r.sample(map[string]interface{}{"size": sc.Size, "ops": semOpsString(ex.Eff), "real_after_each_op": ex.Obs})
	}
	var mo []string
	if rep != "" {
		mo = strings.Split(rep, ";")
	}
	if rep == "bad-op" {
		r.violate(Violation{Kind: "correspondence", Key: "C12:sem:driver-bad-op", What: "driver rejected the op encoding",
			Input: semOpsString(ex.Eff), Broken: "correspondence C12.sem"})
		return
	}
	if len(ex.Monitors) > 0 {
		reportSem(c, sc, "property", ex.Monitors[0], reported)
	} else if d := firstDiff(ex.Obs, mo); d >= 0 {
		reportSem(c, sc, "correspondence", "mismatch", reported)
	}
}

func parseSemCorpus(line string) (semCase, bool) {
	// "<size>|<client 0/1>|<ops>"
	p := strings.SplitN(line, "|", 3)
	if len(p) != 3 {
		return semCase{}, false
	}
	size, err := strconv.ParseInt(p[0], 10, 64)
	if err != nil {
		return semCase{}, false
	}
	sc := semCase{Size: size, Client: p[1] == "1"}
	if p[2] == "." || p[2] == "" {
		return sc, true
	}
	for _, t := range strings.Split(p[2], ",") {
		var o semOp
		switch {
		case strings.HasPrefix(t, "ua"), strings.HasPrefix(t, "us"):
			o.Kind = t[:2]
			o.N, err = strconv.ParseInt(t[2:], 10, 64)
		case strings.HasPrefix(t, "uf"):
			o.Kind = "uf"
			q := strings.SplitN(t[2:], ":", 2)
			if len(q) != 2 {
				return sc, false
			}
			o.N, err = strconv.ParseInt(q[0], 10, 64)
			if err == nil {
				o.M, err = strconv.ParseInt(q[1], 10, 64)
			}
		case strings.HasPrefix(t, "a"):
			o.Kind = "a"
			q := strings.SplitN(t[1:], ":", 2)
			if len(q) != 2 {
				return sc, false
			}
			o.Id, err = strconv.Atoi(q[0])
			if err == nil {
				o.N, err = strconv.ParseInt(q[1], 10, 64)
			}
		case strings.HasPrefix(t, "r"):
			o.Kind = "r"
			o.N, err = strconv.ParseInt(t[1:], 10, 64)
		default:
			return sc, false
		}
		if err != nil {
			return sc, false
		}
		sc.Ops = append(sc.Ops, o)
	}
	return sc, true
}

// c12Part: development aid — C12_ONLY=sem,walk,stress,mj,cluster,queue,local,tierb
// restricts a run to the named parts (unset = everything, which is what ./check runs).
func c12Part(name string) bool {
	only := os.Getenv("C12_ONLY")
	if only == "" {
		return true
	}
	for _, p := range strings.Split(only, ",") {
		if p == name {
			return true
		}
	}
	return false
}

func runC12(c *Ctx) {
	r := c.Res
	util.ENABLE_LOGGING = false
	c12Wait = c12Scaled(10 * time.Second)
	c12QueueBaseInit(c) // before anything initialises util.RelPath
	defer func() {
		if !c12Part("tierb") {
			return
		}
		// Tier B: the real mrp + local job manager + stage processes; overlap of job
		// intervals weighted by the reservations recorded in _jobinfo
		if r.Histogram == nil {
			r.Histogram = map[string]int{}
		}
		if env, err := tbSetup(c); err != nil {
			r.note("tier B unavailable: %v", err)
		} else if c.Thorough {
			c12TierB(c, env, 16)
		} else {
			c12TierB(c, env, 4)
		}
	}()
	r.Rule = "ResourceSemaphore: op sequences (corpus + PRNG; client-protocol and raw-API streams; limits 1..40, 5..40 ops; amounts 0, small, =limit, >limit, negative in the raw stream; UpdateActual/UpdateSize/UpdateFreeUsed below, at and above the limit) + threshold-walk stream (limits 1..10^6 incl. powers of two and multiples of 64 +-2, amounts relative to the limit, next op chosen from the real state: availability updates through all entry points just below / exactly at / just above the point where the oldest waiter fits, steps of 1, 2, limit/1000, limit/64-+1, dip-and-recover, repeated observations), each executed on the real semaphore with one goroutine per Acquire and compared with Martian.Semaphore.step after every op (CurrentSize, Reserved, QueueLength, grants/rejections/panic/return value); non-trivial = at least one request had to queue; distinct = distinct (size, op sequence). Monitors on the real code after every op: grant fits, FIFO, no lost wake-up (against Available() and against the availability last reported to the semaphore), Reserved = sum held, Reserved <= limit. + concurrent stress rounds (every third with a large limit). MaxJobsSemaphore: op sequences vs MJ.step + |running| <= limit + no blocked waiter while there is room. GetSystemReqs: dyadic-rational requests vs Martian.Semaphore.normalize. LocalJobManager.Enqueue: real /bin/sh jobs, start/end log replayed against the limits with the model's Acquire amounts. Cluster mode: restart with --maxjobs; queue-query reconciliation scenarios (real queryQueue/checkQueue/failNotRunning/refreshState with a controlled query command and a shifted clock) vs Martian.SemaphoreQueue.step after every event + monitors lost-job-not-failed / healthy-job-failed; non-trivial = some job was marked. refreshResources: isolated worker processes run the real refreshResources on production-shaped job managers with real jobs; per refresh the four semaphores vs Martian.SemaphoreRefresh for the observations read before and after the call + monitor fitting-job-parked; non-trivial = a refresh with something reserved or waiting"

	reported := map[string]int{}
	var cases []semCase
	for _, l := range readCorpusLines(c.Corpus) {
		if strings.HasPrefix(l, "sem ") {
			if sc, ok := parseSemCorpus(strings.TrimPrefix(l, "sem ")); ok {
				cases = append(cases, sc)
				r.hist("sem_corpus")
			}
		}
	}
	n := 6000
	if c.Thorough {
		n = 80000
	}
	if !c12Part("sem") {
		n, cases = 0, nil
	}
	for i := 0; i < n; i++ {
		size := int64(1 + c.Rng.Intn(12))
		if c.Rng.Intn(4) == 0 {
			size = int64(1 + c.Rng.Intn(40))
		}
		ln := 5 + c.Rng.Intn(36)
		client := c.Rng.Intn(5) != 0
		ops := genSemOps(c.Rng, size, ln, client)
		if client {
			r.hist("sem_client_sequences")
		} else {
			r.hist("sem_raw_sequences")
		}
		cases = append(cases, semCase{size, ops, client})
	}
	// execute in chunks: real code first, then one batch to the driver
	const chunk = 500
	semBudget, semT0 := 15*time.Second, time.Now()
	if c.Thorough {
		semBudget = 180 * time.Second
	}
	for lo := 0; lo < len(cases); lo += chunk {
		if time.Since(semT0) > semBudget {
			r.note("ResourceSemaphore: time budget %v used up after %d of %d sequences", semBudget, lo, len(cases))
			break
		}
		hi := lo + chunk
		if hi > len(cases) {
			hi = len(cases)
		}
		reqs := make([][]string, 0, hi-lo)
		exs := make([]semExec, 0, hi-lo)
		for _, sc := range cases[lo:hi] {
			exs = append(exs, execSem(sc.Size, sc.Ops, sc.Client))
			reqs = append(reqs, []string{"C12.sem", strconv.FormatInt(sc.Size, 10), semOpsString(exs[len(exs)-1].Eff)})
		}
		reps := c.Drv.AskBatch(reqs)
		for i, sc := range cases[lo:hi] {
			c12Account(c, sc, exs[i], reps[i], lo+i, 617, reported)
		}
	}

	// limits 1..10^6, amounts relative to the limit, updates walked across the
	// point where the oldest waiter starts to fit (c12_walk.go)
	if !c12Part("walk") {
	} else if c.Thorough {
		runC12Walk(c, 30000, 45*time.Second, reported)
	} else {
		runC12Walk(c, 4000, 8*time.Second, reported)
	}

	// negative witnesses of Props/C12.lean replayed on the real API (notes, not violations:
	// neither is reachable through the job manager as a limit violation)
	{
		ex := execSem(10, []semOp{{Kind: "us", N: 20}, {Kind: "a", Id: 1, N: 15}}, false)
		if len(ex.Obs) == 2 && strings.HasPrefix(ex.Obs[1], "20:15:0:g1=15") {
			r.note("negative witness updSize_above_max_breaks_bound replays on the real API: NewResourceSemaphore(10); UpdateSize(20); Acquire(15) -> Reserved()=15 > maxSize 10 (API caveat: the only caller passes rlimCur <= rlimMax)")
		} else {
			r.note("negative witness updSize_above_max_breaks_bound no longer replays on the real API: %v", ex.Obs)
		}
		ex = execSem(10, []semOp{{Kind: "a", Id: 1, N: 8}, {Kind: "uf", N: 0, M: 0}}, false)
		if len(ex.Obs) == 2 && strings.HasPrefix(ex.Obs[1], "0:8:0:") {
			r.note("negative witness update_may_lower_cur_below_reserved replays on the real API (intended: reservations are kept, further grants wait)")
		} else {
			r.note("negative witness update_may_lower_cur_below_reserved no longer replays: %v", ex.Obs)
		}
	}

	rounds := 10
	if c.Thorough {
		rounds = 150
	}
	if c12Part("stress") {
		c12Stress(c, rounds)
	}
	if c12Part("mj") {
		runC12MaxJobs(c)
	}
	if c12Part("cluster") {
		runC12Cluster(c)
	}
	if c12Part("queue") {
		runC12Queue(c)
	}
	if c12Part("refresh") {
		runC12Refresh(c)
	}
	if c12Part("local") {
		runC12Local(c)
	}
	if c12Part("float") {
		runC12Float(c)
	}

}
