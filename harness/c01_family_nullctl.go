package main

// C01 program family null-control (audit pass 2, C01-M1): a `disabled` control without a value.
//   * the control is a stage output that is JSON null (ECHOFLAG echoes `want = null`), on a plain
//     call, on a call inside a mapped pipeline (null in some forks, true / false in others), and on
//     a nested pipeline: the code reads it as "not disabled" (`Fork.disabled`: `json.Unmarshal` of
//     `null` into a bool succeeds and leaves false) — den and the model do the same, so these runs
//     complete and are compared like every other run;
//   * the control is an output of a call that is itself disabled: the compiler rejects the program
//     ("disabled was bound to value … which would be disabled at runtime if … is true") — counted.

import (
	"fmt"
	"math/rand"
	"strings"
)

const c01NullCtlDecls = `stage ECHOFLAG(
    in  bool want,
    out bool flag,
    src comp "fake",
)

stage ECHOFLAGS(
    in  bool[] want,
    out bool[] flags,
    src comp   "fake",
)

struct FS(
    bool flag,
    int  n,
)

stage ECHOS(
    in  FS   want,
    out FS   s,
    src comp "fake",
)

stage ECHOSS(
    in  FS[] want,
    out FS[] ss,
    src comp "fake",
)

stage WORK(
    in  int  x,
    out int  y,
    src comp "fake",
)

stage SINK(
    in  int   a,
    in  int[] bs,
    out int   r,
    src comp  "fake",
)

`

func c01NullCtlProgram(rng *rand.Rand, variant int) string {
	var sb strings.Builder
	sb.WriteString(c01NullCtlDecls)
	flag := func() string { return []string{"null", "true", "false"}[rng.Intn(3)] }
	switch variant % 5 {
	case 0: // plain call, and a nested pipeline, controlled by a null output
		sb.WriteString("pipeline INNER(\n    in  int x,\n    out int y,\n)\n{\n    call WORK(\n        x = self.x,\n    )\n\n    return (\n        y = WORK.y,\n    )\n}\n\n")
		sb.WriteString("pipeline TOP(\n    out int r,\n)\n{\n    call ECHOFLAG as F(\n        want = null,\n    )\n\n    call ECHOFLAG as G(\n        want = " + flag() + ",\n    )\n\n")
		sb.WriteString("    call WORK(\n        x = 1,\n    ) using (\n        disabled = F.flag,\n    )\n\n    call INNER(\n        x = 2,\n    ) using (\n        disabled = " + []string{"F", "G"}[rng.Intn(2)] + ".flag,\n    )\n\n")
		sb.WriteString("    call SINK(\n        a  = WORK.y,\n        bs = [INNER.y, WORK.y],\n    )\n\n    return (\n        r = SINK.r,\n    )\n}\n\ncall TOP()\n")
	case 1: // per-fork control inside a mapped pipeline: null in some forks
		n := 2 + rng.Intn(3)
		var fl, xs []string
		for i := 0; i < n; i++ {
			fl = append(fl, flag())
			xs = append(xs, fmt.Sprint(rng.Intn(20)))
		}
		fl[rng.Intn(n)] = "null"
		sb.WriteString("pipeline INNER(\n    in  int  x,\n    in  bool off,\n    out int  y,\n)\n{\n    call ECHOFLAG as F(\n        want = self.off,\n    )\n\n    call WORK(\n        x = self.x,\n    ) using (\n        disabled = F.flag,\n    )\n\n    return (\n        y = WORK.y,\n    )\n}\n\n")
		sb.WriteString("pipeline TOP(\n    out int r,\n)\n{\n    map call INNER(\n        x   = split [" + strings.Join(xs, ", ") + "],\n        off = split [" + strings.Join(fl, ", ") + "],\n    )\n\n")
		sb.WriteString("    call SINK(\n        a  = 0,\n        bs = INNER.y,\n    )\n\n    return (\n        r = SINK.r,\n    )\n}\n\ncall TOP()\n")
	case 3: // the control is a MEMBER of a struct output that is null (audit pass 3, A3): den projects
		// null to null = "not disabled" and runs the call, the code fails the fork
		sb.WriteString("pipeline TOP(\n    out int r,\n)\n{\n    call ECHOS as S(\n        want = null,\n    )\n\n    call WORK(\n        x = 1,\n    ) using (\n        disabled = S.s.flag,\n    )\n\n    return (\n        r = WORK.y,\n    )\n}\n\ncall TOP()\n")
	case 4: // … a member of a NULL ELEMENT of an array of structs, per fork of a mapped pipeline
		sb.WriteString("pipeline INNER(\n    in  FS  s,\n    out int y,\n)\n{\n    call WORK(\n        x = 2,\n    ) using (\n        disabled = self.s.flag,\n    )\n\n    return (\n        y = WORK.y,\n    )\n}\n\n")
		sb.WriteString("pipeline TOP(\n    out int r,\n)\n{\n    call ECHOSS as S(\n        want = [{flag: false, n: 1}, null, {flag: true, n: 3}],\n    )\n\n    map call INNER(\n        s = split S.ss,\n    )\n\n    call SINK(\n        a  = 0,\n        bs = INNER.y,\n    )\n\n    return (\n        r = SINK.r,\n    )\n}\n\ncall TOP()\n")
	case 2: // control = output of a call that may itself be disabled: rejected by the compiler
		sb.WriteString("pipeline TOP(\n    out int r,\n)\n{\n    call ECHOFLAG as F(\n        want = " + flag() + ",\n    )\n\n    call ECHOFLAG as A(\n        want = false,\n    ) using (\n        disabled = F.flag,\n    )\n\n")
		sb.WriteString("    call WORK(\n        x = 1,\n    ) using (\n        disabled = A.flag,\n    )\n\n    return (\n        r = WORK.y,\n    )\n}\n\ncall TOP()\n")
	}
	return sb.String()
}

func c01NullCtlFamily(rng *rand.Rand, thorough bool) []c01Case {
	n := 10
	if thorough {
		n = 20
	}
	var cases []c01Case
	for i := 0; i < n; i++ {
		cases = append(cases, c01Case{name: fmt.Sprintf("family/null-control-%d", i), src: c01NullCtlProgram(rng, i)})
	}
	return cases
}
