package main

// C04 / C14 property monitors on the real code (run in the worker after a
// completed run).

import (
	"encoding/json"
	"fmt"
	"os"
	"path"
	"path/filepath"
	"sort"
	"strings"

	"github.com/martian-lang/martian/martian/core"
	"github.com/martian-lang/martian/martian/syntax"
)

type vdrReport struct {
	Paths  []string `json:"paths"`
	Errors []string `json:"errors"`
	Events []struct {
		Timestamp  string
		DeltaBytes int64
	} `json:"events"`
	Count uint64 `json:"count"`
	Size  uint64 `json:"size"`
}

func parseVdrReport(rel string, b []byte) (*vdrReport, bool) {
	if path.Base(rel) == "_vdrkill.partial" {
		var p struct {
			Report *vdrReport `json:"report"`
		}
		if json.Unmarshal(b, &p) != nil || p.Report == nil {
			return nil, false
		}
		return p.Report, true
	}
	var r vdrReport
	if json.Unmarshal(b, &r) != nil {
		return nil, false
	}
	return &r, true
}

// walkCalls visits every call of the program with its fully qualified node name.
func (v *vdrRun) walkCalls(f func(fq string, call *syntax.CallStm, callable syntax.Callable, parent *syntax.Pipeline, prefix string)) {
	ast := v.r.Ast
	var rec func(prefix string, p *syntax.Pipeline)
	rec = func(prefix string, p *syntax.Pipeline) {
		for _, c := range p.Calls {
			callable := ast.Callables.Table[c.DecId]
			fq := prefix + "." + c.Id
			f(fq, c, callable, p, prefix)
			if sub, ok := callable.(*syntax.Pipeline); ok {
				rec(fq, sub)
			}
		}
	}
	top := ast.Call
	fq := "ID." + v.r.Opts.Psid + "." + top.Id
	callable := ast.Callables.Table[top.DecId]
	f(fq, top, callable, nil, "ID."+v.r.Opts.Psid)
	if p, ok := callable.(*syntax.Pipeline); ok {
		rec(fq, p)
	}
}

// specJSONPath: the value of a dotted output id inside a fork's _outs
// (projection maps over arrays; through an object it takes the member).
func specJSONPath(val interface{}, p string) interface{} {
	if p == "" || val == nil {
		return val
	}
	head, rest := p, ""
	if i := strings.IndexByte(p, '.'); i >= 0 {
		head, rest = p[:i], p[i+1:]
	}
	switch t := val.(type) {
	case map[string]interface{}:
		return specJSONPath(t[head], rest)
	case []interface{}:
		out := make([]interface{}, len(t))
		for i, x := range t {
			out[i] = specJSONPath(x, p)
		}
		return out
	}
	return nil
}

func (v *vdrRun) monitors() {
	pk, fin := v.postKill, v.final
	psdir := v.psdir
	// ---- nothing outside the pipestance is touched (also checked after every step and after the final kill)
	v.checkOutside("C14:outside-touched-by-postprocess", "by post-processing")
	// ---- the two bookkeeping maps of the real code are consistent (the
	// hypothesis `BK` of reclaims_all_unreferenced): a node holds an argument
	// iff it is a post node listing it; no argument without holders
	for _, snap := range []*vdrSnapshot{v.preFinal, v.postKill} {
		for i := range snap.Forks {
			f := &snap.Forks[i]
			for a, hs := range f.FileArgs {
				if len(hs) == 0 {
					v.violate("C14", "correspondence", "C14:bookkeeping-consistency",
						fmt.Sprintf("fork %s keeps argument %s without any holder", f.Fqname, a), nil)
				}
				for _, h := range hs {
					if h != "" && !containsStr(f.FilePostNodes[h], a) {
						v.violate("C14", "correspondence", "C14:bookkeeping-consistency",
							fmt.Sprintf("fork %s: node %s holds argument %s but filePostNodes does not list it", f.Fqname, h, a),
							map[string]interface{}{"fileArgs": f.FileArgs, "postNodes": f.FilePostNodes})
					}
				}
			}
			for n, as := range f.FilePostNodes {
				for _, a := range as {
					if !containsStr(f.FileArgs[a], n) {
						v.violate("C14", "correspondence", "C14:bookkeeping-consistency",
							fmt.Sprintf("fork %s: post node %s lists argument %s but is not among its holders", f.Fqname, n, a),
							map[string]interface{}{"fileArgs": f.FileArgs, "postNodes": f.FilePostNodes})
					}
				}
			}
			v.hist("bookkeeping-consistency-checked")
		}
	}
	// ---- the layout the one-disk theorem assumes: the directories of different stage forks are not inside one another
	{
		var dirs []string
		for i := range pk.Forks {
			if pk.Forks[i].Kind == "stage" {
				dirs = append(dirs, pk.Forks[i].Path)
			}
		}
		for i := range dirs {
			for j := range dirs {
				if i != j && (dirs[i] == dirs[j] || strings.HasPrefix(dirs[i], dirs[j]+"/")) {
					v.violate("C04", "correspondence", "C04:model:layout",
						fmt.Sprintf("the directory of stage fork %s is (inside) the directory of stage fork %s", dirs[i], dirs[j]), nil)
				}
			}
		}
		v.hist("layout-checked")
	}
	// ---- forks by directory
	forkByDir := map[string]*core.VerifVdrFork{}
	for i := range pk.Forks {
		f := &pk.Forks[i]
		forkByDir[v.rel(f.Path)] = f
	}
	// ---- spec-level volatility and retains from the program
	volatile, exempt, retains, unresolvedRetain := v.specVolatility()
	// ---- the named set: top-level outputs (before post-processing) and retained outputs
	var named []string
	topDir := v.r.Ast.Call.Id + "/fork0"
	var namedAbs []string // every absolute path named, inside the pipestance or not
	if b, ok := pk.Outs[topDir]; ok {
		namedAbs = append(namedAbs, absStringsInJSON(b)...)
		for _, p := range pathsInJSON(b, psdir) {
			named = append(named, v.rel(p))
		}
	}
	nTop := len(named)
	for _, rt := range retains {
		for dir, f := range forkByDir {
			if f.Node != rt.node {
				continue
			}
			var val interface{}
			if json.Unmarshal(pk.Outs[dir], &val) != nil {
				continue
			}
			sub, _ := json.Marshal(specJSONPath(val, rt.out))
			namedAbs = append(namedAbs, absStringsInJSON(sub)...)
			for _, p := range pathsInJSON(sub, psdir) {
				named = append(named, v.rel(p))
			}
		}
	}
	// a named symbolic link names what it points to as well
	for i := 0; i < len(named); i++ {
		if e, ok := pk.Tree[named[i]]; ok && e.Kind == "l" && e.Dest != "" {
			t := e.Dest
			if !path.IsAbs(t) {
				t = path.Join(psdir, path.Dir(named[i]), t)
			}
			t = path.Clean(t)
			namedAbs = append(namedAbs, t)
			if strings.HasPrefix(t, psdir+"/") && len(named) < 10000 {
				named = append(named, v.rel(t))
				v.hist("named-through-symlink")
			}
		}
	}
	// … and a path named through a link names the resolved location
	for _, n := range append([]string(nil), namedAbs...) {
		if r, err := filepath.EvalSymlinks(n); err == nil && r != n {
			namedAbs = append(namedAbs, r)
			if vdrAliasFrom != "" && strings.HasPrefix(r, vdrAliasFrom+"/") {
				r = vdrAliasTo + r[len(vdrAliasFrom):]
			}
			if strings.HasPrefix(r, psdir+"/") && len(named) < 10000 {
				named = append(named, v.rel(r))
			}
		}
	}
	if len(named) > nTop {
		v.hist("run-with-retained-files")
	}
	if nTop > 0 {
		v.hist("run-with-top-level-files")
	}
	isNamed := func(w string) bool {
		for _, n := range named {
			if vdrOverlap(w, n) {
				return true
			}
		}
		// a symbolic link is also kept when what it points to is named
		if e, ok := pk.Tree[w]; ok && e.Kind == "l" {
			for _, alt := range e.Alts {
				for _, n := range namedAbs {
					if vdrOverlap(path.Clean(alt), path.Clean(n)) {
						v.hist("link-kept-because-target-is-named")
						return true
					}
				}
			}
		}
		return false
	}
	// ---- C04: named files exist with their original content (after the kill and after post-processing)
	var wkeys []string
	for w := range v.written {
		wkeys = append(wkeys, w)
	}
	sort.Strings(wkeys)
	nNamedFiles := 0
	for _, w := range wkeys {
		if v.tmpFiles[w] {
			continue
		}
		hit := false
		for _, n := range named {
			if w == n || strings.HasPrefix(w, n+"/") {
				hit = true
			}
		}
		if !hit {
			continue
		}
		if _, superseded := v.supersededByReset(w); superseded {
			continue
		}
		nNamedFiles++
		if _, ok := pk.Tree[w]; !ok {
			v.violate("C04", "property", "C04:final-output-removed",
				fmt.Sprintf("%s is named by a top-level output or a retain declaration but was removed", w), map[string]interface{}{"named": named})
			continue
		}
		if b, err := os.ReadFile(path.Join(psdir, w)); err != nil || string(b) != v.written[w] {
			v.violate("C04", "property", "C04:final-output-changed",
				fmt.Sprintf("%s is named by a top-level output or a retain declaration but is missing or changed when the run completes (%v)", w, err), nil)
		}
	}
	if nNamedFiles > 0 {
		v.hist("run-with-named-files-checked")
	}
	// final top-level outs (after post-processing) name existing files
	if b, ok := fin.Outs[topDir]; ok {
		for _, p := range pathsInJSON(b, psdir) {
			if _, err := os.Stat(p); err != nil {
				v.violate("C04", "property", "C04:final-output-missing",
					fmt.Sprintf("top-level output names %s which does not exist when the run completes", v.rel(p)), nil)
			}
		}
	}
	// ---- C14: temporary directories and chunk files are gone
	for rel, e := range pk.Tree {
		if e.Kind == "d" && path.Base(rel) == "tmp" {
			parent := path.Base(path.Dir(rel))
			if strings.HasPrefix(parent, "chnk") || strings.HasPrefix(parent, "split") || strings.HasPrefix(parent, "join") {
				v.violate("C14", "property", "C14:tmp-dir-survives",
					fmt.Sprintf("per-job temporary directory %s still exists after the run completed", rel), nil)
			}
		}
	}
	for dir, f := range forkByDir {
		if !f.Split {
			continue
		}
		for rel := range pk.Tree {
			if !strings.HasPrefix(rel, dir+"/chnk") {
				continue
			}
			if jd, region, ok := stageRegion(rel); ok && region == "files" && strings.HasPrefix(path.Base(jd), "chnk") {
				if isNamed(rel) {
					continue // a chunk file handed through by the join: kept by design when the stage is volatile
				}
				v.violate("C14", "property", "C14:chunk-file-survives",
					fmt.Sprintf("chunk-level file %s of splitting stage %s still exists after the run completed", rel, f.Node), nil)
			}
		}
	}
	// ---- C14: nothing written by a volatile stage survives unless named
	nVolWritten, nVolSurv := 0, 0
	for _, w := range wkeys {
		dir := forkDirOf(w)
		f := forkByDir[dir]
		if f == nil {
			continue
		}
		if !volatile[f.Node] {
			if exempt[f.Node] {
				v.hist("file-of-strict-exempt-stage")
			}
			continue
		}
		nVolWritten++
		if _, ok := pk.Tree[w]; !ok {
			continue
		}
		nVolSurv++
		if isNamed(w) {
			continue
		}
		if unresolvedRetain {
			v.hist("survivor-not-judged-unresolved-retain")
			continue
		}
		v.violate("C14", "property", "C14:volatile-file-survives",
			fmt.Sprintf("%s was written by volatile stage %s, is named by no top-level output or retain declaration, and still exists after the run completed", w, f.Node),
			map[string]interface{}{"named": named, "fileArgs": f.FileArgs, "postNodes": f.FilePostNodes, "hasKill": f.HasKill, "hasPartial": f.HasPartial})
	}
	if nVolWritten > 0 {
		v.hist("run-with-volatile-files")
	}
	if nVolSurv > 0 {
		v.hist("run-with-volatile-survivors-named")
	}
	// ---- C14: kill reports
	var rkeys []string
	for rel := range pk.Reports {
		rkeys = append(rkeys, rel)
	}
	sort.Strings(rkeys)
	type tot struct{ count, size uint64 }
	forkFinal := map[string]tot{}
	var sumForkFinal tot
	for _, rel := range rkeys {
		rep, ok := parseVdrReport(rel, pk.Reports[rel])
		if !ok {
			v.violate("C14", "property", "C14:report-unreadable", fmt.Sprintf("kill report %s cannot be parsed", rel), nil)
			continue
		}
		for _, p := range rep.Paths {
			if !strings.HasPrefix(p, psdir+"/") {
				v.violate("C14", "property", "C14:report-path-outside",
					fmt.Sprintf("kill report %s lists %s which is outside the pipestance directory", rel, p), nil)
				continue
			}
			if _, err := os.Lstat(p); err == nil {
				if _, still := pk.Tree[v.rel(p)]; still {
					v.violate("C14", "property", "C14:report-path-exists",
						fmt.Sprintf("kill report %s lists %s which still exists", rel, v.rel(p)), nil)
				}
			}
		}
		dir := path.Dir(rel)
		f := forkByDir[dir]
		if f == nil || f.Kind != "stage" {
			continue
		}
		if path.Base(rel) == "_vdrkill" {
			forkFinal[dir] = tot{rep.Count, rep.Size}
			sumForkFinal.count += rep.Count
			sumForkFinal.size += rep.Size
		} else if _, both := pk.Reports[dir+"/_vdrkill"]; both {
			v.violate("C14", "property", "C14:partial-report-left",
				fmt.Sprintf("%s has a final kill report and a partial one", dir), nil)
			continue
		}
		// what was actually removed below this fork's files/ and tmp/ directories
		var n, size, sizeWalked uint64
		reset := false
		var removed []string
		for e, ent := range v.ever {
			if !strings.HasPrefix(e, dir+"/") {
				continue
			}
			if _, ok := pk.Tree[e]; ok {
				continue
			}
			if _, err := os.Lstat(path.Join(psdir, e)); err == nil {
				continue
			}
			if v.resetGone[e] {
				reset = true
				continue
			}
			n++
			size += uint64(ent.Size)
			sizeWalked += uint64(sizeAsWalked(e, ent))
			removed = append(removed, e)
		}
		if reset {
			// what a restart removed (reset of unfinished or failed jobs) is not VDR's and is left out
			v.hist("report-judged-fork-was-reset")
		}
		v.hist("report-judged")
		if n > 0 {
			v.hist("report-judged-nonempty")
		}
		if rep.Count != n || rep.Size != size {
			sort.Strings(removed)
			v.violate("C14", "property", "C14:report-totals",
				fmt.Sprintf("kill report %s says count=%d size=%d but %d entries with %d bytes were actually removed below the fork's files/ and tmp/ directories",
					rel, rep.Count, rep.Size, n, size),
				map[string]interface{}{"removed": removed, "paths": rep.Paths})
		}
	}
	// stage forks that lost entries but have no report at all
	for dir, f := range forkByDir {
		if f.Kind != "stage" {
			continue
		}
		if _, a := pk.Reports[dir+"/_vdrkill"]; a {
			continue
		}
		if _, b := pk.Reports[dir+"/_vdrkill.partial"]; b {
			continue
		}
		for e := range v.ever {
			if strings.HasPrefix(e, dir+"/") && !v.resetGone[e] {
				if _, ok := pk.Tree[e]; !ok {
					if _, err := os.Lstat(path.Join(psdir, e)); err != nil {
						v.violate("C14", "property", "C14:removed-without-report",
							fmt.Sprintf("%s was removed but fork %s has no kill report", e, dir), nil)
						break
					}
				}
			}
		}
	}
	// the pipestance-level report is the sum of the forks' final reports
	if b, ok := pk.Reports["_vdrkill"]; ok {
		if rep, ok := parseVdrReport("_vdrkill", b); ok {
			if rep.Count != sumForkFinal.count || rep.Size != sumForkFinal.size {
				v.violate("C14", "property", "C14:pipestance-report-totals",
					fmt.Sprintf("pipestance kill report says count=%d size=%d but the stage forks' final reports add up to count=%d size=%d",
						rep.Count, rep.Size, sumForkFinal.count, sumForkFinal.size), nil)
			}
			var evsum int64
			for _, e := range rep.Events {
				evsum += e.DeltaBytes
			}
			v.res.Sample = map[string]string{"pipestance_report": fmt.Sprintf("count=%d size=%d paths=%d events=%d", rep.Count, rep.Size, len(rep.Paths), len(rep.Events))}
		}
	} else {
		v.violate("C14", "property", "C14:no-pipestance-report", "no _vdrkill at the pipestance level after completion", nil)
	}
	// canonical case for counting
	var cs []string
	for _, w := range wkeys {
		_, alive := pk.Tree[w]
		cs = append(cs, fmt.Sprintf("%s:%v", stripUniq(w), alive))
	}
	v.res.Canon = v.spec.VdrMode + "|" + strings.Join(cs, ",")
	v.res.Nontrivial = nVolWritten > 0 && len(v.gone) > 0
}

type vdrRetain struct{ node, out string }

// specVolatility: from the program text and the VDR mode, which nodes are
// volatile stages, which opted out in strict mode, and the retain declarations.
func (v *vdrRun) specVolatility() (volatile, exempt map[string]bool, retains []vdrRetain, unresolvedRetain bool) {
	volatile = map[string]bool{} // node fq -> files may be reclaimed
	exempt = map[string]bool{}
	v.walkCalls(func(fq string, call *syntax.CallStm, callable syntax.Callable, parent *syntax.Pipeline, prefix string) {
		switch c := callable.(type) {
		case *syntax.Stage:
			sv := v.stageVol[c.Id]
			isVol := sv == "strict" || (call.Modifiers != nil && call.Modifiers.Volatile)
			if v.spec.VdrMode == "strict" && sv != "false" {
				isVol = true
			}
			if v.spec.VdrMode == "strict" && sv == "false" && !isVol {
				exempt[fq] = true
			}
			volatile[fq] = isVol
			if c.Retain != nil {
				for _, rp := range c.Retain.Params {
					retains = append(retains, vdrRetain{fq, rp.Id})
				}
			}
		case *syntax.Pipeline:
			if c.Retain != nil {
				for _, ref := range c.Retain.Refs {
					target := v.r.Ast.Callables.Table[calleeOf(c, ref.Id)]
					if _, ok := target.(*syntax.Stage); ok {
						retains = append(retains, vdrRetain{fq + "." + ref.Id, ref.OutputId})
					} else {
						unresolvedRetain = true
					}
				}
			}
		}
	})
	return
}

// supersededByReset: the file was written by an attempt whose directory was
// removed by a restart (not by VDR).
func (v *vdrRun) supersededByReset(w string) (string, bool) {
	if v.resetGone[w] {
		return w, true
	}
	return "", false
}

func stripUniq(p string) string {
	parts := strings.Split(p, "/")
	for i, s := range parts {
		if j := strings.Index(s, "-u"); j > 0 && len(s) == j+12 {
			parts[i] = s[:j]
		}
	}
	return strings.Join(parts, "/")
}

func calleeOf(p *syntax.Pipeline, callId string) string {
	for _, c := range p.Calls {
		if c.Id == callId {
			return c.DecId
		}
	}
	return ""
}

func containsStr(xs []string, x string) bool {
	for _, y := range xs {
		if y == x {
			return true
		}
	}
	return false
}
