package main

// Program families for the scheduler properties (C02 / C03), run next to the
// PRNG-generated programs.  Each family is a template with PRNG-chosen
// parameters; run-time values (flags, collections, key sets) come from ECHO
// stages (TASpec.Echo) and directed schedules from TASpec.SlowJobs.
//
//  1. passthrough (C02): a conditionally called pipeline that RETURNS ONE OF
//     ITS OWN INPUTS (directly, through a nested pipeline, inside a struct
//     literal / array literal, or as the map source / disabling condition of the
//     consumer).  The consumer's argument is `VALUE.y unless FLAG.flag`: it
//     consumes FLAG although no call on the value's path is gated on FLAG.  Schedules:
//     FLAG's job finishes last / VALUE's job finishes last / PRNG.
//  2. keysets (C03): map calls (stage splitting or not, static map literal and
//     run-time map) over ADVERSARIAL KEY SETS: long keys (escaped length 130–190,
//     below the path-element limit together with the journal suffix) that differ
//     only in the middle; keys one of which is a `_`-suffix or plain suffix of
//     another and sorts before it; keys with bytes that percent-escape.

import (
	"fmt"
	"math/rand"
	"sort"
	"strings"
)

type schedFam struct {
	name string
	src  string
	slow []string // directed schedules to run besides the PRNG ones
}

const schedFamStages = `stage ECHOFLAG(
    in  bool want,
    out bool flag,
    src comp "fake",
)

stage ECHOMAP(
    in  map<int> want,
    out map<int> vals,
    src comp     "fake",
)

stage ECHOINTS(
    in  int[] want,
    out int[] vals,
    src comp  "fake",
)

stage WORK(
    in  int  x,
    out int  y,
    src comp "fake",
)

stage SWORK(
    in  int  x,
    out int  y,
    src comp "fake",
) split (
    in  int  c,
)

stage AWORK(
    in  int[] xs,
    out int   y,
    src comp  "fake",
)

struct BOX(
    int   a,
    int[] bs,
)

stage BWORK(
    in  BOX b,
    out int y,
    src comp "fake",
)

`

// schedPassthroughFamily: see the header.  shape selects how the input reaches the output and how
// the consumer uses it.
func schedPassthroughFamily(rng *rand.Rand, n int) []schedFam {
	var out []schedFam
	for i := 0; i < n; i++ {
		shape := i % 7
		flag := rng.Intn(2) == 0
		depth := 1 + rng.Intn(2) // nesting of pass-through pipelines
		gateInner := depth == 2 && rng.Intn(2) == 0
		var sb strings.Builder
		sb.WriteString(schedFamStages)
		vt, lit := "int", "VALUE.y"
		switch shape {
		case 2, 3: // the value is an array produced at run time
			vt = "int[]"
		}
		ret := "self.v"
		rt := vt
		switch shape {
		case 4: // inside a struct literal
			ret, rt = "{a: self.v, bs: [self.v, 1]}", "BOX"
		case 5: // inside an array literal
			ret, rt = "[self.v, self.v]", "int[]"
		}
		// innermost pass-through pipeline
		fmt.Fprintf(&sb, "pipeline PASS%d(\n    in  int x,\n    in  %s v,\n    out int y,\n    out %s w,\n)\n{\n", depth, vt, rt)
		sb.WriteString("    call WORK as INNER_WORK(\n        x = self.x,\n    )\n\n")
		fmt.Fprintf(&sb, "    return (\n        y = INNER_WORK.y,\n        w = %s,\n    )\n}\n\n", ret)
		if depth == 2 {
			g := ""
			if gateInner {
				g = "    in  bool g,\n"
			}
			fmt.Fprintf(&sb, "pipeline PASS1(\n    in  int x,\n    in  %s v,\n%s    out int y,\n    out %s w,\n)\n{\n", vt, g, rt)
			sb.WriteString("    call PASS2(\n        x = self.x,\n        v = self.v,\n    )")
			if gateInner {
				sb.WriteString(" using (\n        disabled = self.g,\n    )")
			}
			sb.WriteString("\n\n    return (\n        y = PASS2.y,\n        w = PASS2.w,\n    )\n}\n\n")
		}
		sb.WriteString("pipeline TOP(\n    out int z,\n    out int y,\n)\n{\n")
		fmt.Fprintf(&sb, "    call ECHOFLAG as FLAG(\n        want = %v,\n    )\n\n", flag)
		switch vt {
		case "int":
			sb.WriteString("    call WORK as VALUE(\n        x = 3,\n    )\n\n")
		case "int[]":
			sb.WriteString("    call ECHOINTS as VALUE(\n        want = [4, 5, 6],\n    )\n\n")
			lit = "VALUE.vals"
		}
		if shape == 6 {
			// two conditional pass-throughs in a row, gated on two different conditions
			fmt.Fprintf(&sb, "    call ECHOFLAG as FLAG0(\n        want = %v,\n    )\n\n", rng.Intn(2) == 0)
			fmt.Fprintf(&sb, "    call PASS%d as MAYBE0(\n        x = 2,\n        v = %s,\n    ) using (\n        disabled = FLAG0.flag,\n    )\n\n", depth, lit)
			lit = "MAYBE0.w"
		}
		sb.WriteString("    call PASS1 as MAYBE(\n        x = 1,\n")
		fmt.Fprintf(&sb, "        v = %s,\n", lit)
		if depth == 2 && gateInner {
			sb.WriteString("        g = FLAG.flag,\n")
		}
		if depth == 1 || !gateInner {
			sb.WriteString("    ) using (\n        disabled = FLAG.flag,\n    )\n\n")
		} else {
			sb.WriteString("    )\n\n")
		}
		switch shape {
		case 0, 1:
			sb.WriteString("    call WORK as CONSUMER(\n        x = MAYBE.w,\n    )\n\n")
		case 2:
			sb.WriteString("    call AWORK as CONSUMER(\n        xs = MAYBE.w,\n    )\n\n")
		case 3: // map source
			sb.WriteString("    map call WORK as CONSUMER(\n        x = split MAYBE.w,\n    )\n\n")
		case 4:
			sb.WriteString("    call BWORK as CONSUMER(\n        b = MAYBE.w,\n    )\n\n")
		case 5:
			sb.WriteString("    call AWORK as CONSUMER(\n        xs = MAYBE.w,\n    )\n\n")
		case 6:
			sb.WriteString("    call WORK as CONSUMER(\n        x = MAYBE.w,\n    )\n\n")
		}
		if shape == 3 {
			sb.WriteString("    call WORK as LAST(\n        x = 1,\n    )\n\n    return (\n        z = LAST.y,\n        y = MAYBE.y,\n    )\n}\n\ncall TOP()\n")
		} else {
			sb.WriteString("    return (\n        z = CONSUMER.y,\n        y = MAYBE.y,\n    )\n}\n\ncall TOP()\n")
		}
		out = append(out, schedFam{
			name: fmt.Sprintf("fam:passthrough:shape%d:depth%d:inner%v:flag%v", shape, depth, gateInner, flag),
			src:  sb.String(), slow: []string{".FLAG.,.FLAG0.", ".VALUE."}})
	}
	return out
}

// schedCoMappedFamily (C02): a pipeline mapped over TWO collections from different producers (lockstep
// `split`), whose inner calls use only ONE of the two elements.  The call that uses only `b` still takes
// its forks from the master collection (the first split source): it depends on BOTH producers.
// Schedules: the master's producer finishes last / the other one finishes last / PRNG.
func schedCoMappedFamily(rng *rand.Rand, n int) []schedFam {
	var out []schedFam
	for i := 0; i < n; i++ {
		useMap := i%2 == 1
		depth := 1 + (i/2)%2
		swap := (i/4)%2 == 1 // which argument comes first (= which source is the master)
		var sb strings.Builder
		sb.WriteString(schedFamStages)
		if depth == 2 {
			sb.WriteString("pipeline INNERB(\n    in  int b,\n    out int y,\n)\n{\n    call WORK as USE_B2(\n        x = self.b,\n    )\n\n    return (\n        y = USE_B2.y,\n    )\n}\n\n")
		}
		sb.WriteString("pipeline PER(\n    in  int a,\n    in  int b,\n    out int ya,\n    out int yb,\n)\n{\n")
		sb.WriteString("    call WORK as USE_A(\n        x = self.a,\n    )\n\n")
		if depth == 2 {
			sb.WriteString("    call INNERB as USE_B(\n        b = self.b,\n    )\n\n")
		} else {
			sb.WriteString("    call WORK as USE_B(\n        x = self.b,\n    )\n\n")
		}
		sb.WriteString("    return (\n        ya = USE_A.y,\n        yb = USE_B.y,\n    )\n}\n\n")
		coll, stage, first, second := "int[]", "ECHOINTS", "[1, 2, 3]", "[4, 5, 6]"
		if useMap {
			coll, stage, first, second = "map<int>", "ECHOMAP", `{"a": 1, "b": 2}`, `{"a": 4, "b": 5}`
		}
		fmt.Fprintf(&sb, "pipeline TOP(\n    out %s ya,\n    out %s yb,\n)\n{\n", coll, coll)
		fmt.Fprintf(&sb, "    call %s as FIRST(\n        want = %s,\n    )\n\n", stage, first)
		fmt.Fprintf(&sb, "    call %s as SECOND(\n        want = %s,\n    )\n\n", stage, second)
		if swap {
			sb.WriteString("    map call PER(\n        b = split SECOND.vals,\n        a = split FIRST.vals,\n    )\n\n")
		} else {
			sb.WriteString("    map call PER(\n        a = split FIRST.vals,\n        b = split SECOND.vals,\n    )\n\n")
		}
		sb.WriteString("    return (\n        ya = PER.ya,\n        yb = PER.yb,\n    )\n}\n\ncall TOP()\n")
		out = append(out, schedFam{name: fmt.Sprintf("fam:comapped:map%v:depth%d:swap%v", useMap, depth, swap),
			src: sb.String(), slow: []string{".FIRST.", ".SECOND."}})
	}
	return out
}

func schedLongKey(rng *rand.Rand, n int, escapes bool) string {
	const al = "abcdefghijklmnopqrstuvwxyzABCDEFGHIJKLMNOPQRSTUVWXYZ0123456789"
	var sb strings.Builder
	for sb.Len() < n {
		if escapes && rng.Intn(12) == 0 && sb.Len()+3 <= n {
			sb.WriteByte(" /%#?"[rng.Intn(5)]) // 3 bytes once escaped
			continue
		}
		sb.WriteByte(al[rng.Intn(len(al))])
	}
	return sb.String()
}

func escLen(s string) int {
	n := 0
	for i := 0; i < len(s); i++ {
		if strings.IndexByte(" /%#?", s[i]) >= 0 {
			n += 3
		} else {
			n++
		}
	}
	return n
}

// schedKeySet returns an adversarial key set of the given class.
func schedKeySet(rng *rand.Rand, class int) []string {
	var keys []string
	switch class {
	case 0, 1: // long keys that differ only in the middle
		escapes := class == 1
		for {
			total := 100 + rng.Intn(90)
			head := schedLongKey(rng, 40+rng.Intn(60), escapes)
			tail := schedLongKey(rng, 20+rng.Intn(40), false)
			keys = keys[:0]
			nk := 2 + rng.Intn(2)
			for j := 0; j < nk; j++ {
				mid := schedLongKey(rng, 4+rng.Intn(12), false)
				k := head + mid + tail
				for len(k) < total {
					k = head + mid + schedLongKey(rng, total-len(k), false) + tail
				}
				keys = append(keys, k)
			}
			ok := true
			for _, k := range keys {
				if l := escLen(k); l < 100 || l > 190 {
					ok = false
				}
			}
			if ok {
				break
			}
		}
	case 2: // `_`-suffix pairs, the longer key sorting first
		pairs := [][2]string{{"matched_normal", "normal"}, {"a_b", "b"}, {"R1_R2", "R2"}, {"control_treated", "treated"}, {"a_x_y", "x_y"}}
		p := pairs[rng.Intn(len(pairs))]
		keys = []string{p[0], p[1]}
		if rng.Intn(2) == 0 {
			keys = append(keys, "tumor")
		}
	case 3: // plain suffix / prefix pairs, numeric-looking keys
		sets := [][]string{{"abnormal", "normal"}, {"1", "11", "01"}, {"k", "kk", "k_k"}, {"0", "fork0", "_0"}, {"x1", "1"}}
		keys = append(keys, sets[rng.Intn(len(sets))]...)
	}
	sort.Strings(keys)
	return keys
}

func schedKeysetFamily(rng *rand.Rand, n int) []schedFam {
	var out []schedFam
	for i := 0; i < n; i++ {
		class := i % 4
		keys := schedKeySet(rng, class)
		split := (i/4)%2 == 0
		runtime := (i/8)%2 == 0
		nested := i%5 == 4 // the mapped call sits in a pipeline that is itself mapped over the keys
		stage := "WORK"
		if split {
			stage = "SWORK"
		}
		var lit strings.Builder
		lit.WriteString("{")
		for j, k := range keys {
			if j > 0 {
				lit.WriteString(", ")
			}
			fmt.Fprintf(&lit, "%q: %d", k, j+1)
		}
		lit.WriteString("}")
		var sb strings.Builder
		sb.WriteString(schedFamStages)
		if nested {
			fmt.Fprintf(&sb, "pipeline INNER(\n    in  int v,\n    out int y,\n)\n{\n    call %s as W(\n        x = self.v,\n    )\n\n    return (\n        y = W.y,\n    )\n}\n\n", stage)
		}
		sb.WriteString("pipeline TOP(\n    out map<int> ys,\n)\n{\n")
		src := lit.String()
		if runtime {
			fmt.Fprintf(&sb, "    call ECHOMAP as GEN(\n        want = %s,\n    )\n\n", lit.String())
			src = "GEN.vals"
		}
		if nested {
			fmt.Fprintf(&sb, "    map call INNER as M(\n        v = split %s,\n    )\n\n", src)
		} else {
			fmt.Fprintf(&sb, "    map call %s as M(\n        x = split %s,\n    )\n\n", stage, src)
		}
		sb.WriteString("    return (\n        ys = M.y,\n    )\n}\n\ncall TOP()\n")
		out = append(out, schedFam{name: fmt.Sprintf("fam:keyset:class%d:split%v:runtime%v:nested%v", class, split, runtime, nested), src: sb.String()})
	}
	return out
}

// schedFamilyPrograms compiles the families; programs the compiler rejects are noted.
func schedFamilyPrograms(c *Ctx, fams []schedFam) []*rtProgram {
	var out []*rtProgram
	for _, f := range fams {
		p, err := compileProgram(f.name, f.src, nil)
		if err != nil {
			c.Res.note("family program %s does not compile: %v", f.name, err)
			continue
		}
		p.Echo = true
		p.Slow = f.slow
		out = append(out, p)
	}
	return out
}
